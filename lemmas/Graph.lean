/-
Lemma library of /verif (DESIGN.md section 6): graph lemmas that close postconditions of the contracts.
Checked by `lean` (Lean 4.33 + Mathlib) in the thorough tier; none of this mentions code.
-/
import Mathlib.Logic.Relation
import Mathlib.Order.Basic

open Relation

universe u
variable {V : Type u} (E : V → V → Prop)

/-- L-RANK: a numbering that increases along every edge excludes cycles
    (used by the postcondition of `assert_acyclic`: returns normally ⇒ acyclic). -/
theorem L_RANK (rank : V → Nat) (h : ∀ a b, E a b → rank a < rank b) : ¬ ∃ v, TransGen E v v := by
  have mono : ∀ a b, TransGen E a b → rank a < rank b := by
    intro a b hab
    induction hab with
    | single hab => exact h _ _ hab
    | tail _ hbc ih => exact Nat.lt_trans ih (h _ _ hbc)
  rintro ⟨v, hv⟩
  exact Nat.lt_irrefl _ (mono v v hv)

/-- L-REACH: a set that contains S and is closed under predecessors contains every ancestor of S
    (used by the postcondition of `all_ancestors`). -/
theorem L_REACH (S X : V → Prop) (hS : ∀ s, S s → X s) (closed : ∀ v, X v → ∀ p, E p v → X p) :
    ∀ v s, S s → ReflTransGen E v s → X v := by
  intro v s hs hvs
  induction hvs using ReflTransGen.head_induction_on with
  | refl => exact hS s hs
  | head hab _ ih => exact closed _ ih _ hab

/-- L-TRANS: if every edge p → n satisfies end(p) < start(n) and start(x) < end(x) for every x, then the same holds
    along every path (C01 is stated for direct predecessors; this gives the transitive form). -/
theorem L_TRANS (start fin : V → Nat) (hedge : ∀ p n, E p n → fin p < start n) (hrun : ∀ x, start x < fin x) :
    ∀ p n, TransGen E p n → fin p < start n := by
  intro p n hpn
  induction hpn with
  | single h => exact hedge _ _ h
  | tail _ hbc ih => exact Nat.lt_trans (Nat.lt_trans ih (hrun _)) (hedge _ _ hbc)
