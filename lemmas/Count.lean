import Mathlib.Data.Finset.Card
import Mathlib.Data.Finset.Range
import Mathlib.Data.Finset.Filter

/-- number of positions t' < t with k t' -/
def cnt (k : ℕ → Bool) : ℕ → ℕ
  | 0 => 0
  | t + 1 => cnt k t + (if k t then 1 else 0)

theorem cnt_eq_card (k : ℕ → Bool) (n : ℕ) :
    cnt k n = ((Finset.range n).filter (fun t => k t = true)).card := by
  induction n with
  | zero => simp [cnt]
  | succ n ih =>
    rw [cnt, ih, Finset.range_add_one, Finset.filter_insert]
    by_cases h : k n = true
    · simp [h]
    · simp [h]

theorem L_COUNT (k : ℕ → Bool) (idx pe : ℕ → ℕ) (n P : ℕ)
    (A1 : ∀ t, t < n → k t = true → idx t < P ∧ pe (idx t) = t)
    (A2 : ∀ i, i < P → pe i < n ∧ k (pe i) = true ∧ idx (pe i) = i) :
    cnt k n = P := by
  rw [cnt_eq_card]
  have h : ((Finset.range n).filter (fun t => k t = true)).card = (Finset.range P).card := by
    apply Finset.card_bij (fun t _ => idx t)
    · intro t ht
      simp only [Finset.mem_filter, Finset.mem_range] at ht ⊢
      exact (A1 t ht.1 ht.2).1
    · intro a ha b hb hab
      simp only [Finset.mem_filter, Finset.mem_range] at ha hb
      have e1 := (A1 a ha.1 ha.2).2
      have e2 := (A1 b hb.1 hb.2).2
      rw [← e1, ← e2, hab]
    · intro i hi
      simp only [Finset.mem_range] at hi
      refine ⟨pe i, ?_, (A2 i hi).2.2⟩
      simp only [Finset.mem_filter, Finset.mem_range]
      exact ⟨(A2 i hi).1, (A2 i hi).2.1⟩
  simpa using h
