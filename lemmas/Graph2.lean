import Mathlib.Logic.Relation
import Mathlib.Logic.Function.Iterate
import Mathlib.Data.Fintype.Pigeonhole
import Mathlib.Data.Set.Finite.Basic

open Relation

universe u
variable {V : Type u} (E : V → V → Prop)

/-- L-CYCLE: a non-empty finite set in which every node has a predecessor inside the set contains a cycle
    (Kahn: if the queue runs dry while nodes with a positive remaining count are left, those nodes form such a set). -/
theorem L_CYCLE (U : Set V) (hfin : U.Finite) (hne : U.Nonempty)
    (h : ∀ v ∈ U, ∃ w ∈ U, E w v) : ∃ v, TransGen E v v := by
  classical
  obtain ⟨u0, hu0⟩ := hne
  choose! f hfU hfE using h
  have mem : ∀ i : ℕ, f^[i] u0 ∈ U := by
    intro i
    induction i with
    | zero => simpa using hu0
    | succ i ih => rw [Function.iterate_succ_apply']; exact hfU _ ih
  have path : ∀ k i : ℕ, TransGen E (f^[i + (k + 1)] u0) (f^[i] u0) := by
    intro k
    induction k with
    | zero =>
      intro i
      rw [show i + (0 + 1) = i + 1 by omega, Function.iterate_succ_apply']
      exact TransGen.single (hfE _ (mem i))
    | succ k ih =>
      intro i
      have h1 : TransGen E (f^[i + (k + 1 + 1)] u0) (f^[i + (k + 1)] u0) := by
        rw [show i + (k + 1 + 1) = (i + (k + 1)) + 1 by omega, Function.iterate_succ_apply']
        exact TransGen.single (hfE _ (mem _))
      exact TransGen.trans h1 (ih i)
  have : Finite U := hfin.to_subtype
  let g : ℕ → U := fun i => ⟨f^[i] u0, mem i⟩
  obtain ⟨i, j, hij, hg⟩ := Finite.exists_ne_map_eq_of_infinite g
  have hval : f^[i] u0 = f^[j] u0 := congrArg Subtype.val hg
  rcases Nat.lt_or_gt_of_ne hij with hlt | hlt
  · refine ⟨f^[i] u0, ?_⟩
    have := path (j - i - 1) i
    rw [show i + (j - i - 1 + 1) = j by omega] at this
    rw [← hval] at this
    exact this
  · refine ⟨f^[j] u0, ?_⟩
    have := path (i - j - 1) j
    rw [show j + (i - j - 1 + 1) = i by omega] at this
    rw [hval] at this
    exact this

/-- the graph after a node `z` was by-passed: its in-neighbours are linked to its out-neighbours, `z` is removed -/
def bypass (z : V) (a b : V) : Prop := a ≠ z ∧ b ≠ z ∧ (E a b ∨ (E a z ∧ E z b))

theorem bypass_sound (z a b : V) (hab : ReflTransGen (bypass E z) a b) : ReflTransGen E a b := by
  induction hab with
  | refl => exact ReflTransGen.refl
  | tail _ hbc ih =>
    rcases hbc with ⟨_, _, h | ⟨h1, h2⟩⟩
    · exact ReflTransGen.tail ih h
    · exact ReflTransGen.tail (ReflTransGen.tail ih h1) h2

theorem bypass_complete (z a : V) (ha : a ≠ z) : ∀ x, ReflTransGen E a x →
    (x ≠ z → ReflTransGen (bypass E z) a x) ∧ (x = z → ∃ c, c ≠ z ∧ ReflTransGen (bypass E z) a c ∧ E c z) := by
  intro x hx
  induction hx with
  | refl => exact ⟨fun _ => ReflTransGen.refl, fun h => absurd h ha⟩
  | @tail p q _ hbc ih =>
    constructor
    · intro hq
      by_cases hp : p = z
      · obtain ⟨c, hc, hac, hcz⟩ := ih.2 hp
        subst hp
        exact ReflTransGen.tail hac ⟨hc, hq, Or.inr ⟨hcz, hbc⟩⟩
      · exact ReflTransGen.tail (ih.1 hp) ⟨hp, hq, Or.inl hbc⟩
    · intro hq
      by_cases hp : p = z
      · exact ih.2 hp
      · subst hq
        exact ⟨p, hp, ih.1 hp, hbc⟩

/-- L-BYPASS: by-passing a node (what literal pruning does) preserves reachability between all other nodes. -/
theorem L_BYPASS (z a b : V) (ha : a ≠ z) (hb : b ≠ z) :
    ReflTransGen E a b ↔ ReflTransGen (bypass E z) a b :=
  ⟨fun h => (bypass_complete E z a ha b h).1 hb, bypass_sound E z a b⟩
