/-
Lemma library of /verif (DESIGN.md I.0, C05): L-NEEDED - why a store is read only if something that runs consumes it.
Checked by `lean` (Lean 4.33 + Mathlib) in the thorough tier; none of this mentions code.

Vocabulary (the contracts' view of the physical plan after the value-store rewrite, before pruning):
  E u v        an edge u → v (u must finish before v starts)
  Req s        s is required: a write node, or the (redirected) output node          (plan_with_value_stores, contracts/rewrite.py)
  kept v       v survives pruning:  kept = Anc(Req) = {v | v reaches some required s}   (pruning.all_ancestors + L-REACH)
-/
import Mathlib.Logic.Relation

open Relation

universe u
variable {V : Type u} (E : V → V → Prop)

/-- L-NEEDED (one step): a kept node is required itself or has a direct successor that is kept. -/
theorem L_NEEDED (Req : V → Prop) (v : V) (h : ∃ s, Req s ∧ ReflTransGen E v s) :
    Req v ∨ ∃ w, E v w ∧ ∃ s, Req s ∧ ReflTransGen E w s := by
  obtain ⟨s, hs, hvs⟩ := h
  rcases ReflTransGen.cases_head hvs with heq | ⟨w, hvw, hws⟩
  · subst heq
    exact Or.inl hs
  · exact Or.inr ⟨w, hvw, s, hs, hws⟩

/-- Corollary for the read node R of a registered node (postcondition of `_add_value_store`: every out-edge of R leads to an
    ARGUMENT consumer of the stored node - `consumer`): if R survives pruning and is not itself required (it is not the redirected
    output; read nodes are never write nodes) then some argument consumer of the stored value survives pruning, i.e. is executed in
    this run (C04: everything kept runs).  Contrapositive: a store nobody kept consumes is not read. -/
theorem L_NEEDED_read (Req consumer : V → Prop) (R : V)
    (out : ∀ w, E R w → consumer w)
    (kept : ∃ s, Req s ∧ ReflTransGen E R s) (notreq : ¬ Req R) :
    ∃ w, consumer w ∧ E R w ∧ ∃ s, Req s ∧ ReflTransGen E w s := by
  rcases L_NEEDED E Req R kept with h | ⟨w, hRw, hw⟩
  · exact absurd h notreq
  · exact ⟨w, out w hRw, hRw, hw⟩
