import Mathlib.Logic.Relation
import Mathlib.Order.Basic

/-!
The two proof rules that turn the step obligations of /verif/contracts/history.py (and of the other rank-induction
lemmas) into statements about all nodes / all reachable store worlds.  None of this mentions code.
-/

open Relation

universe u

/-- L-IND: rank induction.  If every edge increases the rank, a property that holds at `n` whenever it holds at all
    predecessors of `n` holds everywhere.  (`E` is instantiated with the predecessor relation of the plan DAG, or with the
    nearest-stored-ancestor relation `up`, which increases the rank by lemma H0.) -/
theorem L_IND {V : Type u} (E : V → V → Prop) (rank : V → Nat) (h : ∀ p n, E p n → rank p < rank n)
    (P : V → Prop) (step : ∀ n, (∀ p, E p n → P p) → P n) : ∀ n, P n := by
  have key : ∀ k : Nat, ∀ n, rank n = k → P n := by
    intro k
    induction k using Nat.strongRecOn with
    | _ k ih =>
      intro n hn
      apply step
      intro p hp
      exact ih (rank p) (hn ▸ h p n hp) p rfl
  intro n
  exact key (rank n) n rfl

/-- L-INV: the invariant rule.  A predicate that holds initially and is preserved by every transition holds in every
    reachable state (store worlds reached by store writes that took effect, source updates, deletions, fresh_time changes). -/
theorem L_INV {S : Type u} (init : S → Prop) (step : S → S → Prop) (J : S → Prop)
    (h0 : ∀ s, init s → J s) (hs : ∀ s t, J s → step s t → J t) :
    ∀ s t, init s → ReflTransGen step s t → J t := by
  intro s t hi hst
  induction hst with
  | refl => exact h0 s hi
  | tail _ hbc ih => exact hs _ _ ih hbc
