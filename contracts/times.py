"""Sidecar contract for caching._to_naive_utc_time (property C18).

Spec function (from the statement, not from the code):
    instant(v) = fields(v) - utcoffset(v)                     if v is aware
               = fields(v) - localoffset(fields(v), fold(v))   if v is naive  (read as local time)
    key(r)     = fields(r)  for a naive result r (its fields read as UTC)
Contract:  value is None  =>  result is None
           otherwise         result is naive  and  key(result) == instant(value)
so that every comparison made on results is a comparison of instants (L-ORDER: any Boolean
combination of <, max on an order-embedding key depends only on the embedded order).

datetime is modelled by a proxy with symbolic fields (seconds on the wall clock), a concrete
aware/naive split (``value.tzinfo`` is tested by truthiness, which CPython decides natively on a real
None vs. a tz object), symbolic utcoffset and fold.  Assumed contracts (T10):
   aware.astimezone(utc): same instant, offset 0;   naive.astimezone(utc): the instant of the fields read
   as local time honouring fold;   replace(tzinfo=None): same fields, naive;   datetime objects are truthy.
``localoffset`` is an uninterpreted function of (fields, fold): all time zones and DST rules at once.
"""
import textwrap

from ujvc.core import Unsupported
from ujvc.units import get, unit
from ujvc.vc import IntS, BoolS
from ujvc.z3env import z3

REL = "_transformations/caching.py"

localoffset = z3.Function("localoffset", IntS, BoolS, IntS)


class _UTC:
    def __repr__(self):
        return "timezone.utc"


UTC = _UTC()


class _TZ:
    """some tzinfo object (truthy)"""


class SDateTime:
    def __init__(self, ctx, fields, aware, offset=None, fold=None):
        self.ctx, self.fields, self.aware, self.offset, self.fold = ctx, fields, aware, offset, fold

    @property
    def tzinfo(self):
        return _TZ() if self.aware else None

    def __bool__(self):  # T16: datetime defines neither __bool__ nor __len__
        return True

    def astimezone(self, tz=None):
        import datetime as _real_dt

        if tz is _real_dt.timezone.utc:
            tz = UTC            # the real constant (e.g. hoisted to a module-level name of the code under verification) is the same zone
        if tz is not UTC:
            # conversion to some other zone: same instant, unknown offset
            off = self.ctx.fresh(IntS, "off")
            inst = self.instant()
            return SDateTime(self.ctx, inst + off, True, off, z3.BoolVal(False))
        return SDateTime(self.ctx, self.instant(), True, z3.IntVal(0), z3.BoolVal(False))

    def replace(self, **kw):
        if set(kw) != {"tzinfo"}:
            raise Unsupported("datetime.replace with fields")
        tz = kw["tzinfo"]
        if tz is None:
            return SDateTime(self.ctx, self.fields, False, None, z3.BoolVal(False))
        raise Unsupported("datetime.replace(tzinfo=<tz>)")

    def instant(self):
        if self.aware:
            return self.fields - self.offset
        return self.fields - localoffset(self.fields, self.fold)


class _DT:
    class timezone:
        utc = UTC


def to_naive_env():
    return {"dt": _DT}


@unit(
    "times._to_naive_utc_time",
    props=["C18"],
    functions=[(REL, "_to_naive_utc_time")],
    assumptions=["T10 datetime.astimezone / replace contracts (aware: same instant; naive: read as local time honouring fold)",
                 "T16 datetime objects are truthy"],
    min_obligations=3,
)
def to_naive_unit(ctx):
    env = to_naive_env()
    f = get(REL, "_to_naive_utc_time").compile_into(env)
    k = ctx.choose(3, "value")
    if k == 0:
        r = f(None)
        ctx.check("post:None->None", bool(r is None))
        return "none"
    fields = ctx.fresh(IntS, "fields")
    fold = ctx.fresh(BoolS, "fold")
    if k == 1:
        v = SDateTime(ctx, fields, True, ctx.fresh(IntS, "utcoffset"), fold)
        kind = "aware"
    else:
        v = SDateTime(ctx, fields, False, None, fold)
        kind = "naive"
    r = f(v)
    ctx.check(f"post:{kind}->naive-result", bool(isinstance(r, SDateTime) and not r.aware))
    if isinstance(r, SDateTime):
        ctx.check(f"post:{kind}->key(result)==instant(value)", r.fields == v.instant())
    return kind


# ---------------------------------------------------------------------------------------
# native replay: differential run of the real uberjob.run over representations of the SAME instants
# ---------------------------------------------------------------------------------------
REPLAY_SCRIPT = textwrap.dedent(
    '''
    import datetime as dt, os, sys, time
    import uberjob
    from uberjob import ValueStore

    class MemStore(ValueStore):
        def __init__(self, mtime, value=0):
            self.mtime, self.value, self.writes = mtime, value, 0
        def read(self): return self.value
        def write(self, v): self.value = v; self.writes += 1
        def get_modified_time(self): return self.mtime

    def rep(t, how):
        if how == "naive-local": return dt.datetime.fromtimestamp(t)
        if how == "aware-utc": return dt.datetime.fromtimestamp(t, tz=dt.timezone.utc)
        return dt.datetime.fromtimestamp(t, tz=dt.timezone(dt.timedelta(hours=5, minutes=30)))

    def rebuilt(t_up, t_down, t_fresh, r_up, r_down, r_fresh):
        plan = uberjob.Plan(); reg = uberjob.Registry()
        up = plan.call(lambda: 1); down = plan.call(lambda x: x + 1, up)
        s_up, s_down = MemStore(rep(t_up, r_up)), MemStore(rep(t_down, r_down))
        reg.add(up, s_up); reg.add(down, s_down)
        ft = None if t_fresh is None else rep(t_fresh, r_fresh)
        uberjob.run(plan, registry=reg, fresh_time=ft, progress=None)
        return (s_up.writes, s_down.writes)

    bad = []
    reps = ["naive-local", "aware-utc", "aware-+05:30"]
    for tz in ["UTC", "America/New_York", "Asia/Tokyo", "Europe/Berlin"]:
        os.environ["TZ"] = tz; time.tzset()
        base = 1730611800  # 2024-11-03 05:30:00 UTC = 01:30 EDT, just before the US fall-back
        cases = [
            (base - 7200, base, base - 3600),      # fresh_time one hour OLDER than the downstream store
            (base - 7200, base, base + 3600),      # fresh_time one hour NEWER
            (base + 1800, base + 2700, None),      # upstream 30 min / downstream 45 min after base: across the fold
            (base + 2700, base + 1800, None),
            (base + 900, base + 2700, None),       # 01:45 EDT (first pass) vs 01:15 EST (second pass): later instant, earlier wall clock
            (base + 2700, base + 900, None),
            (base + 900, base + 900 + 60, base + 2700),
        ]
        for (tu, td, tf) in cases:
            seen = {}
            for ru in reps:
                for rd in reps:
                    for rf in (reps if tf is not None else [None]):
                        seen[(ru, rd, rf)] = rebuilt(tu, td, tf, ru, rd, rf)
            up_stale = tf is not None and tf > tu
            want = (1 if up_stale else 0, 1 if (up_stale or tu > td or (tf is not None and tf > td)) else 0)   # from the instants alone
            if len(set(seen.values())) > 1 or set(seen.values()) != {want}:
                seen = dict(seen); seen["expected-from-instants"] = want
                bad.append((tz, (tu, td, tf), seen))
    # the bundled file stores must report the file's mtime instant as naive LOCAL time (what the normalisation reads back)
    import tempfile
    from uberjob.stores import TextFileStore
    fbad = []
    with tempfile.TemporaryDirectory() as d:
        st = TextFileStore(os.path.join(d, "f.txt")); st.write("x")
        for tz in ["UTC", "America/New_York", "Europe/London", "Australia/Sydney", "Asia/Tokyo"]:
            os.environ["TZ"] = tz; time.tzset()
            for t in (1704067200, 1720000000, 1730611800 + 1800, 86400 * 200):   # winter, summer, inside the US fall-back hour, 1970
                os.utime(st.path, (t, t))
                got = st.get_modified_time()
                inst = got.astimezone(dt.timezone.utc).timestamp() if got is not None else None
                if inst is None or abs(inst - t) > 1e-3: fbad.append((tz, t, got, inst))
    for b in fbad[:3]: print("file store reports a modified time that does not denote the file's mtime instant: TZ=%s mtime=%s reported=%r (instant %s)" % b)
    if fbad: bad.append(("file-store", None, {}))
    for tz, case, seen in [x for x in bad if x[1] is not None][:3]:
        print("TZ=%s instants(up,down,fresh)=%s: decisions differ between representations of the same instants:" % (tz, case))
        for k, v in seen.items(): print("   ", k, "-> (writes_up, writes_down) =", v)
    sys.exit(1 if bad else 0)
    '''
)


def _replay(ob):
    import os
    import subprocess

    from ujvc.z3env import REPO_SRC

    p = __import__('ujvc.units', fromlist=['run_native_p']).run_native_p(["/venv/bin/python", "-c", REPLAY_SCRIPT], env=dict(os.environ, PYTHONPATH=REPO_SRC), timeout=300)
    return {"reproduced": p.returncode == 1, "detail": (p.stdout + p.stderr)[-3000:], "script": REPLAY_SCRIPT}


REPLAYS = [("times.*", _replay)]


@unit("times.native-differential[bounded]", props=["C18"],
      functions=[("_transformations/caching.py", "_to_naive_utc_time"), ("_transformations/caching.py", "_get_stale_nodes.<locals>.process"),
                 ("_transformations/caching.py", "_get_stale_nodes.<locals>.process_no_stale_ancestor"), ("_transformations/caching.py", "_get_stale_nodes"),
                 ("_transformations/caching.py", "_get_stale_nodes.<locals>.process_with_callbacks"), ("stores/_file_store.py", "get_modified_time"),
                 ("stores/_file_store.py", "FileStore.get_modified_time"), ("_util/__init__.py", "safe_max")],
      assumptions=["bounded stand-in: 4 time zones x 4 instant triples x 27 representations; 5 zones x 4 file mtimes"],
      min_obligations=1, kind="bounded")
def times_bounded(ctx):
    """bounded: the real uberjob.run on the same instants in naive-local / aware-UTC / aware-+05:30 form under 4 process time zones; file-store mtimes under 5 zones"""
    r = _replay({})
    ctx.check("bounded/staleness-decisions-depend-only-on-the-instants", bool(not r["reproduced"]), info=r["detail"][-2000:])
