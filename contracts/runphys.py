"""Sidecar contracts for uberjob/_execution/run_physical.py
(properties C01 'finished successfully', C02 argument plumbing, C06, C10 retry call sites, C15 trace, C16 release).

process(node)   [prep_run_physical.<locals>.process - what every worker calls through process_node's fn]
   Literal node : no observer notification, no bound call touched, returns None
   Call node    : trace suffix produced is exactly
         running(run,s) . completed(run,s)                  when the call returns  (the result slot is then set)
         running(run,s) . failed(run,s,CallError(node) caused by e)   when it raises an Exception e, and
                                                             NodeError(node) is raised with __cause__ is e
         running(run,s)                                     when it raises a BaseException that is no Exception
                                                             (it propagates unchanged)
     with s == (*node.scope, fully_qualified_name(node.fn)); the call function is invoked exactly once, through
     bound_call.run(node.fn, retry); on EVERY exit bound_call_lookup[node].value is None (release, C16).
BoundCall.run(fn, retry)   invokes retry(fn) exactly once and the wrapped function exactly once with the slot
   values read at call time: positionals in list order, keywords in dict order under their names; stores the
   result in self.result.value and nowhere else.
_create_bound_call / _create_bound_call_lookup_and_output_slot   (comprehensions cut: the element expression is
   evaluated on generic elements) every Call gets a FRESH Slot, a Literal is its own slot (identity clause of
   C02), BoundCall(c).args/kwargs are exactly the slots of get_argument_nodes(graph, c) in order / under their
   names, .result is c's own slot; output_slot is the output node's slot (None when no output node).
run_physical   prep (which prunes source literals of the plan it is given), then run_function_on_graph(plan.graph,
   process, worker_count=max_workers, max_errors=max_errors, scheduler=scheduler), then returns output_slot.value.
"""
from ujvc.core import EngineSignal, Unsupported
from ujvc.units import get, unit, user_value
from ujvc.vc import VC
from ujvc.z3env import z3

REL = "_execution/run_physical.py"


def _real():
    from ujvc.z3env import ensure_repo_first

    ensure_repo_first()
    import importlib

    return (importlib.import_module("uberjob.graph"), importlib.import_module("uberjob._util"), importlib.import_module("uberjob._errors"),
            importlib.import_module("uberjob._graph"))


class Trace:
    def __init__(self):
        self.ev = []

    def __enter__(self):
        self.ev.append(("enter",))
        return self

    def __exit__(self, *a):
        self.ev.append(("exit",))
        return False

    def increment_total(self, *, section, scope, amount):
        self.ev.append(("total", section, scope, amount))

    def increment_running(self, *, section, scope):
        self.ev.append(("running", section, scope))

    def increment_completed(self, *, section, scope):
        self.ev.append(("completed", section, scope))

    def increment_failed(self, *, section, scope, exception):
        self.ev.append(("failed", section, scope, exception))


class UserExc(Exception):
    pass


class UserBase(BaseException):
    pass


import dataclasses as _dc  # noqa: E402


@_dc.dataclass(frozen=True)
class FrozenUserExc(UserExc):
    """an exception class that is a frozen dataclass: assigning ANY attribute of an instance (``__traceback__`` included) raises FrozenInstanceError"""
    code: int = 3


def _catch(ctx, f):
    try:
        return "ret", f()
    except EngineSignal:
        raise
    except BaseException as e:
        if ctx.dead is not None:
            raise ctx.dead
        ctx.classify(e)
        return "raise", e


def _is_sidecar_object(o):
    if o is None:
        return False
    mod = getattr(type(o), "__module__", "") or ""
    if isinstance(o, type):
        mod = getattr(o, "__module__", "") or ""
    return mod.startswith(("contracts.", "ujvc.")) or mod in ("contracts", "ujvc")


def _in_code_under_test(e):
    from ujvc.core import _raised_in_code_under_test

    return _raised_in_code_under_test(e)


class _UserCallable:
    """The function of a call is the USER's object: here a callable instance (module-level class, so that fully_qualified_name is stable) that is FALSY and
    whose __repr__ RAISES (a repr that reads state set only after a successful call, a proxy to a dead connection, ...).  The library shows callables in
    messages (NodeError / CallError text, Call.__repr__) - building the error for a failed call must not itself fail because the callable cannot be shown
    (reprlib, which the library's repr helper uses, falls back to a generic text)."""

    def __call__(self, *a, **k):
        raise AssertionError("never called directly")

    def __repr__(self):
        # raises for the library (whoever asks from code of the tree under verification, directly or through the standard library), answers the sidecars
        import os
        import sys

        from ujvc.z3env import REPO_SRC

        here = os.path.dirname(os.path.dirname(os.path.abspath(__file__)))
        fr = sys._getframe(1)
        while fr is not None:
            fn = fr.f_code.co_filename
            if fn.startswith(REPO_SRC):
                raise RuntimeError("the user's __repr__ raises")
            if fn.startswith(here):
                break
            fr = fr.f_back
        return "<user callable whose repr raises for the library>"

    def __len__(self):
        return 0


user_fn = _UserCallable()


@unit("runphys.process", props=["C01", "C06", "C10", "C15", "C16", "C19"],
      functions=[(REL, "prep_run_physical.<locals>.process")],
      assumptions=["T7 observer methods do not raise", "get_full_call_scope / create_chained_call_error / NodeError are the real objects of the working tree, run natively"],
      min_obligations=6)
def process_unit(ctx):
    graph, util, errors, _graph = _real()
    released_when_completed = []

    class TraceR(Trace):
        def increment_completed(self, *, section, scope):
            # an observer may be slow or block: by the time it is told that the call completed, the call's inputs must already be released
            released_when_completed.append(slot.value is None)
            Trace.increment_completed(self, section=section, scope=scope)

    tr = TraceR()
    def RETRY(f):      # a decorator (callable), identified by identity
        return f

    calls = []
    k = ctx.choose(2, "node-kind")
    if k == 1:
        node = graph.Literal(user_value("literal"), scope=("s",))
    else:
        node = graph.Call(user_fn, scope=("outer", 7), stack_frame=None)
    raised = {}

    ARGS = ["argument", "values"]      # stands for the results the call consumes: BoundCall.run holds them in its frame

    class BC:
        def run(self, fn, retry):
            args = ARGS  # noqa: F841  (a local of this frame, like args / kwargs in the real BoundCall.run)
            calls.append((fn, retry))

            def _user():
                o = ctx.choose(4, "call")
                if o == 3:
                    raised["e"] = FrozenUserExc(7)      # attributes cannot be assigned: the library may only use with_traceback on it
                    raise raised["e"]
                if o == 1:
                    raised["e"] = UserExc("boom")
                    raise raised["e"]
                if o == 2:
                    raised["e"] = UserBase("boom")
                    raise raised["e"]

            _user()

    slot = util.Slot(BC())
    other = graph.Call(user_fn)
    other_slot = util.Slot(BC())
    lookup = {node: slot, other: other_slot} if k == 0 else {other: other_slot}
    env = {"Call": graph.Call, "get_full_call_scope": _graph.get_full_call_scope, "create_chained_call_error": errors.create_chained_call_error,
           "NodeError": errors.NodeError, "bound_call_lookup": lookup, "retry": RETRY, "progress_observer": tr}
    process = get(REL, "prep_run_physical.<locals>.process").compile_into(env)
    kind, val = _catch(ctx, lambda: process(node))
    ctx.check("other-nodes'-bound-calls-untouched", bool(other_slot.value is not None), props=["C16", "C02"])
    if k == 1:
        ctx.check("literal:no-notification,no-call,returns-None", bool(tr.ev == [] and calls == [] and kind == "ret" and val is None))
        return "literal"
    s = ("outer", 7, util.fully_qualified_name(user_fn))
    ctx.check("call:invoked-exactly-once-through-bound_call.run(node.fn,retry)", bool(calls == [(user_fn, RETRY)]), props=["C04", "C10", "C02"])
    ctx.check("call:bound-call-released-on-every-exit", bool(slot.value is None), props=["C16"])
    ctx.check("call:bound-call-released-BEFORE-the-observer-is-told-that-the-call-completed", bool(all(released_when_completed)), props=["C16"])
    running = ("running", "run", s)
    if kind == "ret":
        ctx.check("returns:trace==running.completed(same-section-and-scope=user-scope+function-name)", bool(tr.ev == [running, ("completed", "run", s)]), props=["C15"])
        ctx.check("returns:None", bool(val is None))
        ctx.check("returns-normally-only-if-the-call-function-returned", bool("e" not in raised), props=["C01", "C06"])
        return "returns"
    e = raised.get("e")

    def holders(*excs):
        """frames reachable from the given exceptions (tracebacks, causes, contexts) - other than the user function's own frame - that still hold the
        bound call or the argument values in a local: whoever keeps such an exception (the engine keeps the first NodeError until the run ends,
        the bundled displays keep every reported failure) keeps those values alive"""
        seen, out, todo = set(), [], [x for x in excs if x is not None]
        while todo:
            x = todo.pop()
            if id(x) in seen:
                continue
            seen.add(id(x))
            todo.extend(y for y in (x.__cause__, x.__context__) if y is not None)
            tb = x.__traceback__
            while tb is not None:
                f = tb.tb_frame
                if f.f_code.co_name != "_user":
                    for k, v in list(f.f_locals.items()):
                        if v is ARGS or isinstance(v, BC) or (isinstance(v, util.Slot) and isinstance(v.value, BC)):
                            out.append((f.f_code.co_name, k))
                tb = tb.tb_next
        return out

    if kind == "raise" and isinstance(e, UserExc):
        reported = [x[3] for x in tr.ev if x[0] == "failed"]
        h = holders(val, *reported)
        ctx.check("Exception:neither-the-raised-NodeError-nor-the-error-reported-to-the-observer-keeps-a-frame-that-holds-the-bound-call-or-its-argument-values",
                  bool(not h), props=["C16"], info=str(h))
    if isinstance(e, UserExc):
        ok = (len(tr.ev) == 2 and tr.ev[0] == running and tr.ev[1][:3] == ("failed", "run", s) and isinstance(tr.ev[1][3], errors.CallError)
              and tr.ev[1][3].call is node and tr.ev[1][3].__cause__ is e)
        ctx.check("Exception:trace==running.failed(CallError(node)-caused-by-the-very-exception)", bool(ok), props=["C15", "C19"])
        ctx.check("Exception:raises-NodeError(node)-with-__cause__-the-very-exception",
                  bool(isinstance(val, errors.NodeError) and val.node is node and val.__cause__ is e), props=["C06", "C19"])
        return "exception"
    ctx.check("BaseException:trace==running-only(nothing-closes-it)", bool(tr.ev == [running]), props=["C15"])
    ctx.check("BaseException:propagates-unchanged", bool(val is e), props=["C06"])
    return "baseexception"


@unit("runphys.BoundCall.run", props=["C02", "C10", "C16", "C13"], functions=[(REL, "BoundCall.run"), (REL, "BoundCall.__init__")],
      assumptions=["parametric in the argument lists: checked on lists of 0..3 distinct opaque slots (comprehensions and the call protocol act uniformly on elements)"],
      min_obligations=4, kind="concrete-parametric")
def boundcall_run_unit(ctx):
    graph, util, errors, _graph = _real()
    env = {}
    init = get(REL, "BoundCall.__init__").compile_into(env)
    run = get(REL, "BoundCall.run").compile_into(env)
    npos = ctx.choose(4, "n-positional")
    nkw = ctx.choose(3, "n-keyword")
    vals = [user_value(f"pos{i}") for i in range(npos)]
    if npos:
        vals[-1] = iter(["one-shot", "iterator"])     # a one-shot iterator as an argument: handed over as it is, unconsumed, and the slot keeps it
    kvals = [user_value(f"kw{i}") for i in range(nkw)]
    names = ["zeta", "alpha"][:nkw]  # deliberately not sorted: order must be kept
    args = [util.Slot(None) for _ in range(npos)]
    kwargs = {n: util.Slot(None) for n in names}
    result = util.Slot("unset")

    class S:
        pass

    s = S()
    init(s, args, kwargs, result)
    ctx.check("__init__:stores-args,kwargs,result", bool(s.args is args and s.kwargs is kwargs and s.result is result))
    # the slots are filled AFTER the BoundCall was built: run must read them at call time
    for sl, v in zip(args, vals):
        sl.value = v
    for n, v in zip(names, kvals):
        kwargs[n].value = v
    log = []
    R = user_value("result")

    def fn(*a, **k):
        log.append(("fn", a, list(k.items())))
        o = ctx.choose(2, "fn")
        if o == 1:
            raise UserExc("x")
        return R

    def retry(f):
        log.append(("retry", f))
        return f

    kind, val = _catch(ctx, lambda: run(s, fn, retry))
    want_call = ("fn", tuple(vals), list(zip(names, kvals)))
    ok = len(log) == 2 and log[0] == ("retry", fn) and log[1][0] == "fn" and len(log[1][1]) == npos and all(x is y for x, y in zip(log[1][1], vals)) \
        and [n for n, _ in log[1][2]] == names and all(x is y for (_, x), y in zip(log[1][2], kvals))
    ctx.check("retry(fn)-once,then-one-call-with-slot-values-read-at-call-time,positional-order-and-keyword-order-kept", bool(ok), info=str(want_call))
    if kind == "ret":
        ctx.check("result-stored-in-own-result-slot", bool(result.value is R and val is None))
    else:
        ctx.check("exception-propagates,result-slot-untouched", bool(isinstance(val, UserExc) and result.value == "unset"))
    ctx.check("argument-slots-not-modified", bool(all(sl.value is v for sl, v in zip(args, vals)) and all(kwargs[n_].value is v for n_, v in zip(names, kvals))), props=["C13", "C02"])
    if npos:
        ctx.check("a-one-shot-iterator-argument-reaches-the-function-unconsumed", bool(next(vals[-1], None) == "one-shot"), props=["C02"])
    return kind


class GenericNodes:
    """plan.graph.nodes() of an arbitrary graph: a comprehension over it is decided by evaluating its element
    (and filter) expression on a generic Call, a second generic Call and a generic Literal"""

    def __init__(self, reps):
        self.reps = reps
        self.results = []

    def __call__(self):
        return self

    def __vc_comp__(self, vc, key, elt, cond):
        out = {}
        for n in self.reps:
            if cond is None or cond(n):
                r = elt(n)
                if key.startswith("dict"):
                    kk, vv = r
                    out[kk] = vv
                else:
                    raise Unsupported("non-dict comprehension over graph nodes")
        self.results.append(out)
        return out


@unit("runphys.create_bound_calls", props=["C02", "C16"],
      functions=[(REL, "_create_bound_call_lookup_and_output_slot"), (REL, "_create_bound_call"), (REL, "BoundCall.__init__")],
      inlined=["_create_bound_call"],
      assumptions=["dict comprehensions act pointwise: decided on generic elements (two Calls, one Literal)", "contract of get_argument_nodes (contracts/plumbing.py)"],
      min_obligations=6)
def create_bound_calls_unit(ctx):
    graph, util, errors, _graph = _real()
    c1, c2 = graph.Call(user_fn), graph.Call(user_fn)
    lit = graph.Literal(user_value("literal"))
    ga = {c1: ([c2, lit], {"zeta": lit, "alpha": c2}), c2: ([], {})}
    calls = []

    def get_argument_nodes(g, call):
        calls.append((g, call))
        return ga[call]

    nodes = GenericNodes([c1, c2, lit])

    class Gr:
        pass

    class Plan:
        pass

    plan = Plan()
    plan.graph = Gr()
    plan.graph.nodes = nodes
    vc = VC(ctx)
    env = {"__vc": vc, "Literal": graph.Literal, "Call": graph.Call, "Slot": util.Slot, "get_argument_nodes": get_argument_nodes}
    bc_env = {}
    get(REL, "BoundCall.__init__").compile_into(bc_env)

    class BoundCall:
        __init__ = bc_env["__init__"]

    env["BoundCall"] = BoundCall
    get(REL, "_create_bound_call", cut_comps=False).compile_into(env)
    f = get(REL, "_create_bound_call_lookup_and_output_slot", cut_comps=True).compile_into(env)
    which = ctx.choose(3, "output")
    out = [None, c1, lit][which]
    lookup, out_slot = f(plan, out)
    rl = nodes.results[0] if nodes.results else {}
    ctx.check("every-node-has-a-slot", bool(set(rl) == {c1, c2, lit}))
    ctx.check("Call-nodes-get-fresh-distinct-Slots", bool(isinstance(rl.get(c1), util.Slot) and isinstance(rl.get(c2), util.Slot) and rl[c1] is not rl[c2]
                                                         and rl[c1].value is None), props=["C02", "C16"])
    ctx.check("a-Literal-is-its-own-slot(identity-of-the-supplied-object)", bool(rl.get(lit) is lit), props=["C02"])
    ctx.check("bound-calls-exist-exactly-for-Call-nodes", bool(set(lookup) == {c1, c2} and all(isinstance(v, util.Slot) for v in lookup.values())))
    b1 = lookup[c1].value if c1 in lookup else None
    ok = (b1 is not None and len(b1.args) == 2 and b1.args[0] is rl[c2] and b1.args[1] is lit and list(b1.kwargs) == ["zeta", "alpha"]
          and b1.kwargs["zeta"] is lit and b1.kwargs["alpha"] is rl[c2] and b1.result is rl[c1])
    ctx.check("BoundCall(c).args/kwargs-are-the-slots-of-get_argument_nodes(graph,c)-in-order;result-is-c's-own-slot", bool(ok), props=["C02", "C16"])
    ctx.check("get_argument_nodes-asked-about-this-plan's-graph", bool(all(g is plan.graph for g, _ in calls) and {c for _, c in calls} == {c1, c2}))
    if out is None:
        ctx.check("no-output-node=>output_slot-is-None", bool(out_slot is None))
    else:
        ctx.check("output_slot-is-the-output-node's-slot", bool(out_slot is rl[out]), props=["C02", "C16"])
    return "ok"


def _acts_as_identity(r):
    """no retry given: whatever stands in for it (uberjob's identity, a lambda, None handled by the callee is NOT accepted) returns the function it is
    given, itself - decided on a probe function, the stand-in being a pure function of its argument"""
    def probe():
        return None

    try:
        return callable(r) and r(probe) is probe
    except Exception:  # noqa: BLE001
        return False


@unit("runphys.run_physical", props=["C02", "C06", "C10", "C13", "C15", "C16"],
      functions=[(REL, "run_physical"), (REL, "prep_run_physical")],
      assumptions=["contracts of prune_source_literals, run_function_on_graph, _create_bound_call_lookup_and_output_slot (own units)"], min_obligations=5)
def run_physical_unit(ctx):
    graph, util, errors, _graph = _real()
    log = []
    PLAN, PRUNED, OUT, MW, ME, SCHED = (object() for _ in range(6))

    def RETRY(f):            # the decorator the caller supplied, identified by identity below
        return f

    def IDENTITY(f):         # stands for uberjob._util.retry.identity (own contract in retry.py)
        return f

    OBS = Trace()
    retry_given = ctx.choose(2, "retry-given") == 0
    observer_given = ctx.choose(2, "observer-given") == 0

    class P:
        def __init__(self, tag):
            self.tag = tag
            self.graph = ("graph-of", tag)

    plan, pruned = P("given"), P("pruned")
    out_slot = util.Slot("OUTVAL")
    # one Call of the plan with a recording bound call: the engine stub below applies the function it was given to this node, so that what
    # that function does with a call (announce it to the observer given, run the bound call with the retry given) is part of this contract
    CALLNODE = graph.Call(user_fn, scope=("sc",), stack_frame=None)
    bc_calls = []

    class BCrec:
        def run(self, fn, retry):
            bc_calls.append((fn, retry))

    LOOKUP = {CALLNODE: util.Slot(BCrec())}
    has_out = ctx.choose(2, "output-node") == 0

    def cbl(p, o=None):
        log.append(("create_lookup", p, o))
        return LOOKUP, (out_slot if o is not None else None)

    def prune_source_literals(p, *, inplace, predicate=None):
        log.append(("prune_source_literals", p, inplace, predicate))
        return pruned

    null_observers = []

    class Null(Trace):
        def __init__(self):
            Trace.__init__(self)
            null_observers.append(self)

    def rfg(g, fn, *, worker_count=None, max_errors=0, scheduler=None):
        log.append(("rfg", g, fn, worker_count, max_errors, scheduler))
        if callable(fn):
            fn(CALLNODE)
        if ctx.choose(2, "engine") == 1:
            raise errors.NodeError(graph.Call(user_fn))

    import collections

    env = {"_create_bound_call_lookup_and_output_slot": cbl, "prune_source_literals": prune_source_literals, "identity": IDENTITY,
           "NullProgressObserver": Null, "run_function_on_graph": rfg, "Call": graph.Call, "get_full_call_scope": _graph.get_full_call_scope,
           "create_chained_call_error": errors.create_chained_call_error, "NodeError": errors.NodeError,
           "PrepRunPhysical": collections.namedtuple("PrepRunPhysical", "bound_call_lookup output_slot process plan")}
    get(REL, "prep_run_physical").compile_into(env)
    f = get(REL, "run_physical").compile_into(env)
    inplace = ctx.choose(2, "inplace") == 0
    kind, val = _catch(ctx, lambda: f(plan, inplace=inplace, output_node=(OUT if has_out else None), retry=(RETRY if retry_given else None), max_workers=MW, max_errors=ME,
                                      scheduler=SCHED, progress_observer=(OBS if observer_given else None)))
    names = [e[0] for e in log]
    ctx.check("order:slots-built-on-the-given-plan,then-source-literals-pruned,then-engine", bool(names == ["create_lookup", "prune_source_literals", "rfg"]))
    ctx.check("slots-built-for-(plan,output_node)", bool(log[0][1] is plan and log[0][2] is (OUT if has_out else None)), props=["C02"])
    ctx.check("prune_source_literals(plan,inplace=<as-given>)-no-predicate", bool(log[1][1] is plan and log[1][2] is inplace and log[1][3] is None), props=["C13"])
    e = log[2] if len(log) > 2 else (None,) * 6
    ctx.check("engine-runs-the-pruned-plan's-graph-with-process", bool(e[1] == pruned.graph and callable(e[2])))      # what that function does with a call is required below
    ctx.check("engine-gets-max_workers,max_errors,scheduler-unchanged", bool(e[3] is MW and e[4] is ME and e[5] is SCHED), props=["C10"])
    ctx.check("the-function-the-engine-gets-runs-a-call's-bound-call-once-with(node.fn,the-retry-given-or-identity-when-none)",
              bool(len(bc_calls) == 1 and bc_calls[0][0] is user_fn and (bc_calls[0][1] is RETRY if retry_given else _acts_as_identity(bc_calls[0][1]))),
              props=["C10", "C04", "C06"], info=repr(bc_calls))
    # without an observer the null observer may be created per run or shared: nothing observable is required of it
    if observer_given:
        ctx.check("the-function-the-engine-gets-reports-to-the-observer-given", bool([x[0] for x in OBS.ev] == ["running", "completed"]), props=["C15"], info=repr(OBS.ev))
    else:
        ctx.check("no-observer-given:the-call-still-runs-and-nothing-is-reported-anywhere-else", bool(OBS.ev == [] and len(bc_calls) == 1), props=["C15"])
    if kind == "ret":
        ctx.check("returns-the-output-slot's-value(None-without-output)", bool(val == "OUTVAL" if has_out else val is None), props=["C02"])
    else:
        ctx.check("only-the-engine's-NodeError-propagates", bool(isinstance(val, errors.NodeError)), props=["C06"])
    return kind


from .sysprobe import replay_for as _replay_for  # noqa: E402

REPLAYS = [("runphys.*", _replay_for(['C02', 'C06', 'C15', 'C01'], 1500))]


@unit("runphys.no-exception-retention", props=["C16"],
      functions=[(REL, "BoundCall.run"), (REL, "prep_run_physical.<locals>.process"), ("_util/retry.py", "create_retry"),
                 ("_execution/run_function_on_graph.py", "run_function_on_graph.<locals>.process_node")],
      assumptions=["an exception object references its traceback, the traceback the frames of the failed call, and those frames the argument values: "
                   "binding a caught exception to a name that outlives its except clause keeps consumed results alive (possibly through a reference cycle)"],
      min_obligations=4, kind="syntactic")
def no_exception_retention(ctx):
    """Escape obligation (syntactic, AST of the working tree): on the call path of a user function - BoundCall.run, the retry wrapper,
    process - no except handler stores the caught exception (or sys.exc_info()) in a local variable, attribute or container that
    survives the handler.  process_node is the one place that must keep an exception (first_node_error, reported at the end of the run)
    and is exempt for exactly that cell."""
    import ast

    from ujvc.extract import find_def, module_ast

    def stores_of_exception(fn):
        bad = []
        for h in [n for n in ast.walk(fn) if isinstance(n, ast.ExceptHandler) and n.name]:
            for st in ast.walk(h):
                if isinstance(st, (ast.Assign, ast.AnnAssign, ast.AugAssign, ast.NamedExpr)):
                    val = st.value
                    if val is not None and any(isinstance(x, ast.Name) and x.id == h.name for x in ast.walk(val)):
                        tgts = st.targets if isinstance(st, ast.Assign) else [st.target]
                        for t in tgts:
                            # writing an attribute OF the exception itself (exception.__traceback__ = ...) retains nothing new
                            if isinstance(t, ast.Attribute) and isinstance(t.value, ast.Name) and t.value.id == h.name:
                                continue
                            bad.append((st.lineno, ast.unparse(st)[:80]))
                if isinstance(st, ast.Call) and isinstance(st.func, ast.Attribute) and st.func.attr in ("append", "add", "extend", "setdefault", "update") \
                        and any(isinstance(x, ast.Name) and x.id == h.name for a in st.args for x in ast.walk(a)):
                    bad.append((st.lineno, ast.unparse(st)[:80]))
        return bad

    for rel, q, allowed in [(REL, "BoundCall.run", ()), (REL, "prep_run_physical.<locals>.process", ()), ("_util/retry.py", "create_retry", ()),
                            ("_execution/run_function_on_graph.py", "run_function_on_graph.<locals>.process_node", ("first_node_error",))]:
        tree, _, _ = module_ast(rel)
        fn = find_def(tree, q)
        bad = [b for b in stores_of_exception(fn) if not any(a in b[1] for a in allowed)]
        ctx.check(f"{q}:no-caught-exception-is-bound-beyond-its-except-clause", bool(not bad), info=f"{rel}: {bad}")
    return "ok"


# ---------------------------------------------------------------------------------------------------------------------
# bounded stand-in for C16 on the real uberjob.run: results are collectable as soon as their last consumer has finished
# ---------------------------------------------------------------------------------------------------------------------
C16_SCRIPT = """
import gc, sys, threading, weakref
import uberjob
problems = []
class Big:
    def __init__(self, tag): self.tag = tag
def run_case(name, build, **kw):
    refs = {}
    def make(tag):
        def f(*a, **k):
            b = Big(tag); refs[tag] = weakref.ref(b); return b
        f.__name__ = "make_" + tag; return f
    def use(tag, *dead, alive=()):
        # a call that runs AFTER the consumers of the values named in `dead` have finished: those values must be gone by now
        def f(*a, **k):
            for d in dead:
                if refs[d]() is not None: problems.append(f"{name}: result '{d}' is still alive although its last consumer has finished (checked at the start of '{tag}')")
            for d in alive:
                if refs[d]() is None: problems.append(f"{name}: result '{d}' was dropped although a consumer ('{tag}' or later) still needs it")
            return tag
        f.__name__ = "use_" + tag; return f
    plan = uberjob.Plan()
    out = build(plan, make, use)
    r = uberjob.run(plan, output=out, progress=None, **kw)
    return r
def chain(plan, make, use):
    a = plan.call(make("a")); b = plan.call(use("b", alive=("a",)), a); c = plan.call(use("c", "a"), b); return c
def diamond(plan, make, use):
    a = plan.call(make("a")); l = plan.call(use("l", alive=("a",)), a); r = plan.call(use("r", alive=("a",)), x=a)
    j = plan.call(use("j"), l, r); z = plan.call(use("z", "a"), j); return z
def gathered(plan, make, use):
    a = plan.call(make("a")); b = plan.call(make("b")); g = plan.call(use("g", alive=("a", "b")), [a, {"k": b}]); z = plan.call(use("z", "a", "b"), g); return z
def output_kept(plan, make, use):
    a = plan.call(make("a")); b = plan.call(use("b", alive=("a",)), a); z = plan.call(use("z", alive=("a",)), b); return [a, z]     # a is part of the output: kept
def dependency_only(plan, make, use):
    a = plan.call(make("a")); b = plan.call(use("b", alive=("a",)), a); c = plan.call(use("c", "a")); plan.add_dependency(b, c); return c
flaky = {"n": 0}
def with_retry(plan, make, use):
    a = plan.call(make("a"))
    def consume(x):
        flaky["n"] += 1
        if flaky["n"] == 1: raise ValueError("first attempt fails")
        return "consumed"
    b = plan.call(consume, a); c = plan.call(use("c", "a"), b); return c
# a consumer that FAILS while the run goes on (max_errors=None, another call failed first): its argument must be released all the same
import operator, time
def failing_case(name, kind, workers, sched, display=False):
    # display: a bundled display observes the run - it keeps every reported failure until the run ends, so what it is handed must not hold the arguments
    from uberjob.progress._html_progress_observer import HtmlProgressObserver
    progress = uberjob.progress.Progress(lambda: HtmlProgressObserver(lambda data: None, initial_update_delay=0.01, min_update_interval=0.01, max_update_interval=0.05)) if display else None
    refs = {}; first_failed = threading.Event(); consumer_done = threading.Event()
    class Quit(BaseException): pass
    def make():
        b = Big("a"); refs["a"] = weakref.ref(b); return b
    def first_fail():
        first_failed.set(); raise ValueError("unrelated first failure")
    def consume_py(x):
        first_failed.wait(5); time.sleep(0.05)
        try:
            raise (Quit() if kind == "base" else KeyError("consumer fails"))
        finally:
            consumer_done.set()
    def late():
        consumer_done.wait(5)
        t0 = time.time()
        while refs["a"]() is not None and time.time() - t0 < 2: time.sleep(0.01)
        if refs["a"]() is not None: problems.append(f"{name}: the argument of a consumer that failed ({kind}) is still alive 2 s after the failure, while the run goes on")
        return "late"
    plan = uberjob.Plan()
    a = plan.call(make)
    if kind == "c-level-first":
        # the failing consumer is implemented in C and is the FIRST failure of the run (kept as the error to report): its traceback has no
        # frame of user code, so nothing the run keeps may reference the argument
        def gate(): consumer_done.set(); return 0
        c = plan.call(operator.getitem, a, plan.call(gate)); l = plan.call(late)
        try: uberjob.run(plan, output=[c, l], progress=progress, max_workers=workers, scheduler=sched, max_errors=None)
        except uberjob.CallError: pass
        return
    f0 = plan.call(first_fail)
    if kind == "c-level":
        def gate(): first_failed.wait(5); time.sleep(0.05); consumer_done.set(); return 0
        c = plan.call(operator.getitem, a, plan.call(gate))       # TypeError raised by C code: no python frame of the consumer holds the argument
    else:
        c = plan.call(consume_py, a)
    l = plan.call(late)
    try: uberjob.run(plan, output=[c, l, f0], progress=progress, max_workers=workers, scheduler=sched, max_errors=None)
    except uberjob.CallError: pass
# an observer that looks (or blocks) when it is told that a call completed: that call's inputs must be gone by then
def observed_case(name, workers, sched):
    refs = {}
    class O(uberjob.progress.ProgressObserver):
        def __enter__(self): return self
        def __exit__(self, *a): pass
        def increment_total(self, **k): pass
        def increment_running(self, **k): pass
        def increment_failed(self, **k): pass
        def increment_completed(self, *, section, scope):
            if section == "run" and scope and str(scope[-1]).endswith("consume_a") and refs["a"]() is not None:
                problems.append(f"{name}: the observer is told that the only consumer of 'a' completed while 'a' is still alive")
    class P(uberjob.progress.Progress):
        def __init__(self): pass
        def observer(self): return O()
    def make_a():
        b = Big("a"); refs["a"] = weakref.ref(b); return b
    def consume_a(x): return "consumed"
    def after(x): return x
    plan = uberjob.Plan(); a = plan.call(make_a); c = plan.call(consume_a, a); z = plan.call(after, c)
    for progress in (P(), (P(),)):
        uberjob.run(plan, output=z, progress=progress, max_workers=workers, scheduler=sched)
gc.disable()      # strict reading: freed by reference counting, not at some later cyclic collection
for workers in (1, 3):
    for sched in ("default", "random"):
        observed_case(f"observed-completion[workers={workers},{sched}]", workers, sched)
for workers in (3,):
    for sched in ("default", "random"):
        for kind in ("exception", "base", "c-level", "c-level-first"):
            failing_case(f"failing-consumer[{kind},workers={workers},{sched}]", kind, workers, sched)
            if kind.startswith("c-level"):
                failing_case(f"failing-consumer[{kind},workers={workers},{sched},observed-by-a-display]", kind, workers, sched, display=True)
for workers in (1, 3):
    for sched in ("default", "random"):
        for name, build in (("chain", chain), ("diamond", diamond), ("gathered", gathered), ("output_kept", output_kept), ("dependency_only", dependency_only)):
            run_case(f"{name}[workers={workers},{sched}]", build, max_workers=workers, scheduler=sched)
        flaky["n"] = 0
        run_case(f"with_retry[workers={workers},{sched}]", with_retry, max_workers=workers, scheduler=sched, retry=2)
for p in problems[:6]: print("C16 violated:", p)
print(len(problems), "problem(s)"); sys.exit(1 if problems else 0)
"""


def _replay16(ob=None):
    import os
    import subprocess

    from ujvc.z3env import REPO_SRC

    p = __import__('ujvc.units', fromlist=['run_native_p']).run_native_p(["/venv/bin/python", "-c", C16_SCRIPT], env=dict(os.environ, PYTHONPATH=REPO_SRC), timeout=300)
    return {"reproduced": p.returncode == 1, "detail": (p.stdout + p.stderr)[-3000:], "script": C16_SCRIPT, "rc": p.returncode}


def _c16_bounded(ctx):
    """bounded: real uberjob.run on six plan shapes (chain, diamond with keyword edge, gathered structure, value in the output, plain dependency, retried consumer) x 1, 3 workers x both schedulers; weak references checked from inside later calls"""
    r = _replay16()
    if r["rc"] not in (0, 1):
        ctx.unsupported("release probe did not run: " + r["detail"][-600:])
    ctx.check("bounded/release-probe-ran", True, info=r["detail"][-1500:])
    ctx.check("bounded/every-result-is-collectable-once-its-last-consumer-has-finished(and-kept-while-needed-or-part-of-the-output)", bool(r["rc"] != 1), info=r["detail"][-2500:])
    return "ok"


unit("runphys.release[bounded]", props=["C16"],
     functions=[(REL, "prep_run_physical.<locals>.process"), (REL, "prep_run_physical"), (REL, "run_physical"), (REL, "_create_bound_call_lookup_and_output_slot"), (REL, "_create_bound_call"),
                (REL, "BoundCall.run"), (REL, "BoundCall.__init__"), ("_util/retry.py", "create_retry")],
     assumptions=["bounded stand-in: six plan shapes + a failing consumer (Exception / BaseException / C-level) while the run goes on; strict reading: the cyclic collector is disabled, results must be freed by reference counting"],
     min_obligations=2, kind="bounded")(_c16_bounded)

def _replay_f6(ob):      # lazily: contracts.tracebacks imports this module
    return __import__("contracts.tracebacks", fromlist=["_replay_f6"])._replay_f6(ob)


REPLAYS = [("runphys.process/Exception:raises-NodeError*", _replay_f6), ("runphys.process/Exception:trace*", _replay_f6), ("runphys.release*", _replay16), ("runphys.no-exception-retention*", _replay16), ("runphys.process/call:bound-call-released*", _replay16), ("runphys.process/Exception:neither-the-raised*", _replay16)] + list(globals().get("REPLAYS", []))
