"""Sidecar contracts for uberjob/progress (properties C15 composite forwarding, C20).

CompositeProgressObserver (real class, run natively on k = 0..3 recording members; the forwarding loops are uniform in
   the members): every notification reaches every member once, in order, with the same arguments; __enter__ enters the
   members in order and, if the j-th fails, exits the j already entered (ExitStack) and propagates; __exit__ exits all.
State (real class; counts symbolic, time real-valued - T15):  wf = every scope entry has total >= 1 once announced,
   running >= 0, running_count == sum of running, _running_scope_states == {s | running > 0}.  Each legal notification
   (C15: total announced before running; something running before a closing notification) preserves wf, raises nothing
   (the dict lookups and set.remove are 'defined' obligations), and update_weighted_elapsed adds exactly the elapsed
   time to the sum of the scopes' weighted_elapsed while something runs and nothing otherwise.
sorted_scope_items / renders: total on every scope Plan.scope permits (values merely hashable and equatable, of one
   unorderable type or of mixed types) - generic opaque values; the console and HTML _render are then run natively on every
   reachable shape of state (bounded enumeration of small states, labelled bounded).
SimpleProgressObserver update thread: the last value handed to _output was rendered from the final state.  Ghost
   ``version`` counts notifications; invariant of _lock:  not _stale  =>  rendered_version == version; the loop
   ``while not done`` is cut; notifications interleave before each lock acquisition until __exit__ has set the event
   (C15: nothing is reported after exit begins).
"""
import itertools
import textwrap

from ujvc.core import EngineSignal, Unsupported
from ujvc.units import get, unit
from ujvc.vc import VC, IntS, LoopContract, SBool, SInt
from ujvc.z3env import z3

from .runphys import Trace, _catch

SP = "progress/_simple_progress_observer.py"
RealS = z3.RealSort()


def _mods():
    import importlib

    from ujvc.z3env import ensure_repo_first

    ensure_repo_first()
    return (importlib.import_module("uberjob.progress._simple_progress_observer"), importlib.import_module("uberjob.progress._composite_progress_observer"),
            importlib.import_module("uberjob.progress._progress_observer"))


_CP = "progress/_composite_progress_observer.py"


@unit("progress.composite", props=["C15", "C07"], functions=[(_CP, "CompositeProgressObserver.__init__"), (_CP, "CompositeProgressObserver.__enter__"), (_CP, "CompositeProgressObserver.__exit__"),
                                                      (_CP, "CompositeProgressObserver.increment_total"), (_CP, "CompositeProgressObserver.increment_running"),
                                                      (_CP, "CompositeProgressObserver.increment_completed"), (_CP, "CompositeProgressObserver.increment_failed")],
      assumptions=["contextlib.ExitStack as documented", "parametric in the members: run natively with 0..3 members"], min_obligations=4, kind="concrete-parametric")
def composite_unit(ctx):
    simple, comp, po = _mods()
    k = ctx.choose(4, "members")
    fail_at = ctx.choose(k + 1, "enter-fails-at")  # k = nobody fails

    class Boom(Exception):
        pass

    class Member(po.ProgressObserver):
        def __init__(self, i):
            self.i, self.ev = i, []

        def __enter__(self):
            if self.i == fail_at:
                raise Boom()
            self.ev.append(("enter",))

        def __exit__(self, *a):
            self.ev.append(("exit",))

        def increment_total(self, *, section, scope, amount):
            self.ev.append(("total", section, scope, amount))

        def increment_running(self, *, section, scope):
            self.ev.append(("running", section, scope))

        def increment_completed(self, *, section, scope):
            self.ev.append(("completed", section, scope))

        def increment_failed(self, *, section, scope, exception):
            self.ev.append(("failed", section, scope, exception))

    ms = [Member(i) for i in range(k)]
    c = comp.CompositeProgressObserver(ms)
    kind, val = _catch(ctx, c.__enter__)
    if fail_at < k:
        ctx.check("enter:failure-of-member-j-propagates-and-the-j-members-already-entered-are-exited", bool(
            kind == "raise" and isinstance(val, Boom) and all(m.ev == [("enter",), ("exit",)] for m in ms[:fail_at]) and all(m.ev == [] for m in ms[fail_at:])),
            props=["C15", "C07"], info="run's ``with progress_observer`` does not call __exit__ when __enter__ raised: a display that was already entered (and started its update thread) would never be stopped")
        return "enter-failed"
    ctx.check("enter:every-member-entered-once", bool(kind == "ret" and all(m.ev == [("enter",)] for m in ms)))
    E = ValueError("x")
    S = ("a", 1)
    c.increment_total(section="run", scope=S, amount=3)
    c.increment_running(section="run", scope=S)
    c.increment_completed(section="run", scope=S)
    c.increment_failed(section="stale", scope=S, exception=E)
    c.__exit__(None, None, None)
    want = [("enter",), ("total", "run", S, 3), ("running", "run", S), ("completed", "run", S), ("failed", "stale", S, E), ("exit",)]
    ctx.check("every-notification-forwarded-to-every-member-once,in-order,with-the-same-arguments;exit-reaches-all",
              bool(all(m.ev == want and m.ev[4][3] is E for m in ms)))
    return "ok"


# ---- State -----------------------------------------------------------------------------------------------
class SReal:
    def __init__(self, ctx, t):
        self.ctx, self.t = ctx, t

    @staticmethod
    def of(x):
        if isinstance(x, SReal):
            return x.t
        if isinstance(x, SInt):
            return z3.ToReal(x.t)
        if isinstance(x, (int, float)):
            return z3.RealVal(x)
        return None

    def _b(self, o, f):
        t = SReal.of(o)
        if t is None:
            return NotImplemented
        return SReal(self.ctx, f(self.t, t))

    def __add__(self, o):
        return self._b(o, lambda a, b: a + b)

    __radd__ = __add__

    def __sub__(self, o):
        return self._b(o, lambda a, b: a - b)

    def __rsub__(self, o):
        return self._b(o, lambda a, b: b - a)

    def __mul__(self, o):
        return self._b(o, lambda a, b: a * b)

    __rmul__ = __mul__

    def __truediv__(self, o):
        t = SReal.of(o)
        if t is None:
            return NotImplemented
        self.ctx.check("defined:division-by-nonzero", t != 0, props=["C20"], info="ZeroDivisionError")
        return SReal(self.ctx, self.t / t)


def _mark_running(st, scope_state):
    """put a scope state into the State's private collection of running scope states, whatever container the real class uses for it"""
    c = getattr(st, "_running_scope_states", None)
    if isinstance(c, set):
        c.add(scope_state)
    elif isinstance(c, dict):
        c[scope_state] = None
    elif isinstance(c, list):
        c.append(scope_state)
    else:
        raise Unsupported("State keeps its running scope states in a way the sidecar does not know")


def _sint_rmul(self, o):
    return NotImplemented


@unit("progress.State", props=["C20", "C15"], functions=[(SP, "State.increment_running"), (SP, "State.increment_completed"), (SP, "State.increment_failed"),
                                                       (SP, "State.increment_total"), (SP, "State.update_weighted_elapsed")],
      assumptions=["T15 floating point treated as real arithmetic", "two scopes with symbolic counts (the loop over the running scopes runs natively: parametric in the scopes)",
                   "legality of the notification sequence is the trace language of C15"], min_obligations=8)
def state_unit(ctx):
    simple, comp, po = _mods()
    now = {"t": ctx.fresh(RealS, "t0")}

    class _time:
        @staticmethod
        def time():
            t = ctx.fresh(RealS, "t")
            ctx.assume(t >= now["t"])
            now["t"] = t
            return SReal(ctx, t)

    # a well-formed state with two announced scopes
    st = simple.State(SReal(ctx, now["t"]))
    vals = {}
    scopes = [("a",), ("b", 2)]
    for s in scopes:
        ss = simple.ScopeState()
        for f in ("completed", "failed", "running", "total"):
            vals[(s, f)] = ctx.fresh(IntS, f"{f}_{s[0]}")
            setattr(ss, f, SInt(ctx, vals[(s, f)]))
            ctx.assume(vals[(s, f)] >= 0)
        ctx.assume(vals[(s, "total")] >= 1)
        ctx.assume(vals[(s, "completed")] + vals[(s, "failed")] + vals[(s, "running")] <= vals[(s, "total")])
        ss.weighted_elapsed = SReal(ctx, ctx.fresh(RealS, f"we_{s[0]}"))
        st.section_scope_mapping.setdefault("run", {})[s] = ss
    st.running_count = SInt(ctx, vals[(scopes[0], "running")] + vals[(scopes[1], "running")])
    # _running_scope_states == {s | running > 0}: eager split
    for s in scopes:
        if ctx.branch(vals[(s, "running")] > 0, f"scope-{s[0]}-running"):
            _mark_running(st, st.section_scope_mapping["run"][s])
    we0 = [st.section_scope_mapping["run"][s].weighted_elapsed.t for s in scopes]
    rc0 = st.running_count.t
    t_prev = now["t"]
    # the notification arrives at some later instant, whether or not the code looks at the clock
    t_begin = ctx.fresh(RealS, "t_begin")
    ctx.assume(t_begin >= now["t"])
    now["t"] = t_begin
    simple_time = simple.time
    simple.time = _time
    try:
        op = ctx.choose(4, "notification")
        target = scopes[0]
        ss = st.section_scope_mapping["run"][target]
        if op == 0:
            kind, val = _catch(ctx, lambda: st.increment_total("run", ("new", object()), 2))
            ctx.check("increment_total:new-scope-announced-with-its-amount", bool(kind == "ret" and len(st.section_scope_mapping["run"]) == 3))
            return "total"
        if op == 1:
            ctx.assume(vals[(target, "completed")] + vals[(target, "failed")] + vals[(target, "running")] < vals[(target, "total")])
            kind, val = _catch(ctx, lambda: st.increment_running("run", target))
            legal_close = False
        else:
            ctx.assume(vals[(target, "running")] >= 1)  # C15: a closing notification follows a running one
            kind, val = _catch(ctx, lambda: (st.increment_completed if op == 2 else st.increment_failed)("run", target))
        ctx.check("legal-notification-raises-nothing(dict-lookups,set.remove-defined)", bool(kind == "ret"), info=repr(val))
        if kind != "ret":
            return "raised"
        d = {1: (0, 0, 1), 2: (1, 0, -1), 3: (0, 1, -1)}[op]
        ctx.check("counts-updated-exactly", z3.And(ss.completed.t == vals[(target, "completed")] + d[0], ss.failed.t == vals[(target, "failed")] + d[1],
                                                 ss.running.t == vals[(target, "running")] + d[2], st.running_count.t == rc0 + d[2]))
        ctx.check("wf:running_count==sum-of-running", st.running_count.t == sum(st.section_scope_mapping["run"][s].running.t for s in scopes))
        for s in scopes:
            x = st.section_scope_mapping["run"][s]
            ctx.check("wf:_running_scope_states=={s|running>0}", (x.running.t > 0) if any(y is x for y in st._running_scope_states) else (x.running.t <= 0))
        elapsed = now["t"] - t_prev
        dsum = sum(st.section_scope_mapping["run"][s].weighted_elapsed.t - w for s, w in zip(scopes, we0))
        ctx.check("elapsed:sum-of-weighted_elapsed-grows-by-exactly-the-elapsed-time-while-something-was-running,else-not-at-all",
                  z3.If(rc0 > 0, dsum == elapsed, dsum == 0), props=["C20"])
        # the clock of the attribution advances with EVERY notification, also while nothing runs: otherwise idle time (planning,
        # transform_physical, gaps between serial calls) is billed to whichever scope starts next
        pt = SReal.of(getattr(st, "_prev_time", None))
        ctx.check("elapsed:the-attribution-clock-advances-to-the-time-of-every-notification(idle-time-is-never-billed-later)",
                  z3.And(pt >= t_begin, pt <= now["t"]) if pt is not None else False, props=["C20"])
        return "ok"
    finally:
        simple.time = simple_time


# ---- sorting / rendering ------------------------------------------------------------------------------------
class OpaqueVal:
    """a scope value that is merely hashable and equatable (what Plan.scope requires)"""

    def __init__(self, i):
        self.i = i

    def __eq__(self, o):
        return isinstance(o, OpaqueVal) and o.i == self.i

    def __hash__(self):
        return hash(self.i)


class PartialOrderVal(OpaqueVal):
    """hashable + equatable; what ``<`` does between two such values is NOT promised by Plan.scope: per ordered pair it either
    raises TypeError or answers (the outcome is a decision of the path; e.g. ('eu', 1) < ('eu', None) raises although each
    value compares with itself, a naive and an aware datetime likewise)"""

    ctx = None
    outcomes = None

    def __lt__(self, o):
        if not isinstance(o, PartialOrderVal):
            return NotImplemented
        key = (self.i, o.i)
        oc = PartialOrderVal.outcomes
        if key not in oc:
            oc[key] = PartialOrderVal.ctx.choose(3, f"lt({self.i},{o.i})")
        if oc[key] == 0:
            raise TypeError(f"'<' not supported between instances {self.i} and {o.i}")
        return oc[key] == 1

    def __gt__(self, o):
        if not isinstance(o, PartialOrderVal):
            return NotImplemented
        return o.__lt__(self)

    def __str__(self):
        return f"pov{self.i}"


@unit("progress.sorted_scope_items", props=["C20"], functions=[(SP, "sorted_scope_items"), (SP, "_universal_sort_key")],
      assumptions=["generic opaque scope values stand for every hashable+equatable value; '<' between two of them answers or raises TypeError, decided per ordered pair",
                   "str() of a scope value does not raise"], min_obligations=3)
def sorted_unit(ctx):
    simple, comp, po = _mods()
    env = {}
    get(SP, "_universal_sort_key").compile_into(env)
    f = get(SP, "sorted_scope_items").compile_into(env)
    k = ctx.choose(5, "scope-kinds")
    PartialOrderVal.ctx, PartialOrderVal.outcomes = ctx, {}
    scopes = [
        {(PartialOrderVal(1),): 1, (PartialOrderVal(2),): 2, ("x", PartialOrderVal(2)): 3, ("x", PartialOrderVal(3)): 4},  # '<' answers or raises per pair
        {(OpaqueVal(1),): 1, (OpaqueVal(2),): 2, (OpaqueVal(3), "x"): 3},  # one unorderable type
        {(1, "a"): 1, ("a", 1): 2, (None,): 3, ((1, 2),): 4, (2.5,): 5},      # mixed types
        {(1j,): 1, (2j,): 2, (OpaqueVal(1), 1j): 3},                         # complex numbers
        {("fn", "s"): 1, ("fn", "a"): 2, (): 3, ("fn",): 4},                 # ordinary
    ][k]
    kind, val = _catch(ctx, lambda: f(scopes))
    ctx.check("total:never-raises-for-hashable+equatable-scope-values", bool(kind == "ret"), info=repr(val))
    if kind == "ret":
        ctx.check("returns-every-item-exactly-once", bool(sorted(map(id, [v for _, v in val])) == sorted(map(id, scopes.values())) and len(val) == len(scopes)))
        if k == 4:
            ctx.check("orderable-scopes-sorted-by-(type-name,value)", bool([s for s, _ in val] == [(), ("fn",), ("fn", "a"), ("fn", "s")]))
    return "ok"


def run_render_bounded(ctx):
    """bounded: every state over <= 2 sections x <= 3 scopes with counts in {0,1,2}, 0..2 exceptions; console and HTML renders"""
    simple, comp, po = _mods()
    import importlib

    console = importlib.import_module("uberjob.progress._console_progress_observer")
    html = importlib.import_module("uberjob.progress._html_progress_observer")
    n, bad, n_ipy = 0, [], [0]
    per_kind = {}
    class SameStr(OpaqueVal):
        """different keys that PRINT alike (like 2020 and "2020"): a display must not key anything by the printed form"""
        def __str__(self):
            return "same"

        __repr__ = __str__

    scope_sets = [[("a",)], [("a",), ("b", 1)], [(OpaqueVal(1),), (OpaqueVal(2),)], [(1,), ("x",), (None,)], [("eu", 1), ("eu", None)], [("fn.mod.name", 1j), ("fn.mod.name", 2j)],
                  [(2020,), ("2020",)], [(SameStr(1),), (SameStr(2),)], [(1,), (1.5,), ("1",)]]
    wrong_rows = []
    try:
        ipy = importlib.import_module("uberjob.progress._ipython_progress_observer")
        import contextlib
        import io

        import ipywidgets  # noqa: F401
    except Exception:  # noqa: BLE001  (ipywidgets absent: the IPython display is then not covered at all)
        ipy = None
    try:
        raise ValueError("boom")
    except ValueError as e:
        exc = e
    for scs in scope_sets:
        for counts in itertools.product([(0, 0, 0, 1), (1, 0, 0, 1), (0, 1, 1, 2), (1, 1, 0, 2), (0, 0, 2, 2)], repeat=len(scs)):
            for sections in (["run"], ["stale", "run"]):
                for nexc in (0, 2):
                    state = {}
                    for sec in sections:
                        state[sec] = {}
                        for s, (c, f, r, t) in zip(scs, counts):
                            state[sec][s] = simple.ScopeState(completed=c, failed=f, running=r, total=t, weighted_elapsed=1.5 * r)
                    ets = [(scs[0], (type(exc), exc, exc.__traceback__))] * nexc
                    for mk in (lambda: console.ConsoleProgressObserver(initial_update_delay=0, min_update_interval=0, max_update_interval=0),
                               lambda: html.HtmlProgressObserver(lambda data: None, initial_update_delay=0, min_update_interval=0, max_update_interval=0)
                               if hasattr(html, "HtmlProgressObserver") else None,
                               lambda: ipy.IPythonProgressObserver(initial_update_delay=0, min_update_interval=0, max_update_interval=0) if ipy else None):
                        try:
                            o = mk()
                        except TypeError:
                            o = None
                        if o is None:
                            continue
                        n += 1
                        per_kind[type(o).__name__] = per_kind.get(type(o).__name__, 0) + 1
                        try:
                            if type(o).__name__ == "IPythonProgressObserver":
                                n_ipy[0] += 1
                                import IPython.display as _ipd

                                shown, _orig_display = [], _ipd.display
                                _ipd.display = lambda *a, **k: shown.extend(a)
                                try:
                                    with contextlib.redirect_stdout(io.StringIO()):
                                        o._render(state, 0, ets, 12.0)
                                        o._render(state, len(ets), ets, 13.0)  # second rendering re-uses the widget cache
                                finally:
                                    _ipd.display = _orig_display
                                # every scope has a row of its own showing ITS counts: the bars (value, max) are exactly the scopes' (done, total)
                                bars, todo = [], list(shown)
                                while todo:
                                    w = todo.pop()
                                    todo.extend(getattr(w, "children", ()) or ())
                                    if type(w).__name__ == "IntProgress":
                                        bars.append((w.value, w.max))
                                want_bars = sorted((st.completed + st.failed, st.total) for sec in state.values() for st in sec.values())
                                if shown and sorted(bars) != want_bars and len(wrong_rows) < 3:
                                    wrong_rows.append(("IPython", [str(x) for x in scs], sorted(bars), want_bars))
                                continue
                            out = o._render(state, 0, ets, 12.0)
                            if out is None:
                                bad.append(("None", type(o).__name__))
                            elif type(o).__name__ == "ConsoleProgressObserver":
                                # (the HTML page formats its counts differently: not judged here)
                                # every scope's own progress text appears at least as often as there are scopes with that text
                                text = out.decode("utf-8", "replace") if isinstance(out, bytes) else out
                                import collections as _c

                                need = _c.Counter(st.to_progress_string() for sec in state.values() for st in sec.values())
                                if any(text.count(p) < k for p, k in need.items()) and len(wrong_rows) < 3:
                                    wrong_rows.append((type(o).__name__, [str(x) for x in scs], dict(need)))
                        except Exception as e:  # noqa: BLE001
                            if len(bad) < 3:
                                bad.append((type(o).__name__, repr(e), [s for s in scs]))
    ctx.check("bounded/every-enumerated-state-renders-without-raising", bool(not bad), info=f"{n} renders; {bad}")
    ctx.check("bounded/every-scope-is-shown-with-its-own-counts(also-scopes-that-print-alike)", bool(not wrong_rows), info=str(wrong_rows))
    ctx.check("bounded/nontrivial-number-of-states", bool(n > 200), info=str(n))
    ctx.check("bounded/console-AND-html-renderers-were-both-exercised", bool(per_kind.get("ConsoleProgressObserver", 0) > 50 and per_kind.get("HtmlProgressObserver", 0) > 50), info=str(per_kind))
    ctx.check("bounded/the-IPython-display-was-rendered-too(ipywidgets-importable)", bool(n_ipy[0] > 50), info=str(n_ipy[0]))
    return "ok"


class CInt(SInt):
    """a symbolic count as the renderers use it: arithmetic, comparison, truth value, formatting and DIVISION (the HTML display computes
    percentages: ``100 * completed / total``) - a division is defined only for a non-zero divisor (obligation)"""

    def _wrap(self, r):
        return CInt(r.ctx, r.t) if isinstance(r, SInt) and not isinstance(r, CInt) else r

    def __add__(self, o):
        return self._wrap(SInt.__add__(self, o))

    def __radd__(self, o):
        return self._wrap(SInt.__radd__(self, o))

    def __mul__(self, o):
        return self._wrap(SInt.__mul__(self, o))

    def __rmul__(self, o):
        return self._wrap(SInt.__rmul__(self, o))

    def __truediv__(self, o):
        t = o.t if isinstance(o, SInt) else (z3.IntVal(o) if isinstance(o, int) else None)
        if t is None:
            return NotImplemented
        self.ctx.check("defined:percentage-division-by-a-non-zero-total", t != 0, props=["C20"], info="ZeroDivisionError in the renderer")
        return Ratio(self, o)

    def __hash__(self):
        return id(self)


class Ratio:
    def __init__(self, a, b):
        self.a, self.b = a, b

    def __format__(self, spec):
        return f"<{self.a!r}/{self.b!r}>"

    __str__ = __repr__ = lambda self: format(self, "")


class _EInt(SInt):
    """whole seconds as get_elapsed_string handles them: floor division and remainder by positive constants (python's // and % agree with
    SMT-LIB div / mod for a positive divisor), truth value, and formatting - a formatted component is recorded as a token so that the rendered
    text can be decoded again"""

    tokens = None   # list shared per path

    def _w(self, t):
        r = _EInt(self.ctx, t)
        r.tokens = self.tokens
        return r

    def __floordiv__(self, k):
        if not (isinstance(k, int) and not isinstance(k, bool) and k > 0):
            raise Unsupported("// by something else than a positive integer constant")
        return self._w(self.t / k)

    def __mod__(self, k):
        if not (isinstance(k, int) and not isinstance(k, bool) and k > 0):
            raise Unsupported("% by something else than a positive integer constant")
        return self._w(self.t % k)

    def __add__(self, o):
        return self._w(_i_of(SInt.__add__(self, o)))

    def __sub__(self, o):
        return self._w(_i_of(SInt.__sub__(self, o)))

    def __mul__(self, o):
        return self._w(_i_of(SInt.__mul__(self, o)))

    __rmul__ = __mul__

    def __format__(self, spec):
        self.tokens.append((self.t, spec))
        return f"\u27e6{len(self.tokens) - 1}\u27e7"

    def __str__(self):
        return format(self, "")

    def __hash__(self):
        return id(self)


def _i_of(r):
    return r.t


class _Elapsed:
    """the float handed to get_elapsed_string: any finite non-negative number of seconds; int() truncates"""

    def __init__(self, ctx, whole, tokens):
        self.ctx, self.whole, self.tokens = ctx, whole, tokens


@unit("progress.get_elapsed_string", props=["C20"], functions=[(SP, "get_elapsed_string"), (SP, "ScopeState.to_elapsed_string")],
      assumptions=["elapsed times are finite and non-negative (the attribution clock never runs backwards: progress.State); int() truncates; python's // and % by a "
                   "positive constant are SMT-LIB div / mod; an integer formats to its decimal digits (padding does not change the value)"],
      min_obligations=4)
def elapsed_string_unit(ctx):
    """For EVERY elapsed time: raises nothing, and the text decodes back to the whole seconds - components 'h', 'm', 's' in this order, minutes and
    seconds below 60, h*3600 + m*60 + s == int(elapsed); a larger unit is omitted only when it is zero.  (The statement: 'the elapsed time they
    attribute to scopes adds up to the wall-clock time' - a display that drops or double counts an hour does not show what was attributed.)"""
    import re

    tokens = []
    e = ctx.fresh(IntS, "whole_seconds")
    ctx.assume(e >= 0)

    def _int(x):
        if isinstance(x, _Elapsed):
            r = _EInt(ctx, x.whole)
            r.tokens = tokens
            return r
        if isinstance(x, _EInt):
            return x
        return int(x)

    env = {"int": _int}
    fn = get(SP, "get_elapsed_string").compile_into(env)
    env["get_elapsed_string"] = fn
    simple, comp, po = _mods()
    how = ctx.choose(2, "entry")
    if how == 0:
        kind, val = _catch(ctx, lambda: fn(_Elapsed(ctx, e, tokens)))
    else:
        m = get(SP, "ScopeState.to_elapsed_string").compile_into(env)
        st = simple.ScopeState(weighted_elapsed=_Elapsed(ctx, e, tokens))
        kind, val = _catch(ctx, lambda: m(st))
    ctx.check("elapsed-string:raises-nothing-for-any-elapsed-time", bool(kind == "ret" and isinstance(val, str)), info=repr(val))
    if kind != "ret" or not isinstance(val, str):
        return "raise"
    parts = re.findall("\u27e6(\\d+)\u27e7([^\u27e6]*)", val)
    ok_shape = bool(parts) and "".join(f"\u27e6{i}\u27e7{suf}" for i, suf in parts) == val
    units = [suf for _, suf in parts]
    ctx.check("elapsed-string:components-are-h,m,s-in-this-order(a-suffix-of-them)", bool(ok_shape and units in (["h", "m", "s"], ["m", "s"], ["s"])), info=repr(val))
    if not (ok_shape and units in (["h", "m", "s"], ["m", "s"], ["s"])):
        return "shape"
    secs = {"h": 3600, "m": 60, "s": 1}
    terms = {u: tokens[int(i)][0] for (i, _), u in zip(parts, units)}
    ctx.check("elapsed-string:decodes-to-the-whole-seconds(h*3600+m*60+s==int(elapsed))", z3.Sum([terms[u] * secs[u] for u in units]) == e, props=["C20"])
    ctx.check("elapsed-string:minutes-and-seconds-below-60,nothing-negative",
              z3.And([terms[u] >= 0 for u in units] + [terms[u] < 60 for u in units if u != "h"]), props=["C20"])
    ctx.check("elapsed-string:a-larger-unit-is-omitted-only-when-it-is-zero", {3: z3.BoolVal(True), 2: e < 3600, 1: e < 60}[len(units)], props=["C20"])
    return "ok"


@unit("progress.render[symbolic-counts]", props=["C20"],
      functions=[("progress/_console_progress_observer.py", "ConsoleProgressObserver._render"), ("progress/_console_progress_observer.py", "_print_section"),
                 ("progress/_console_progress_observer.py", "_ralign"), ("progress/_html_progress_observer.py", "HtmlProgressObserver._render"),
                 ("progress/_html_progress_observer.py", "_render_scope"), ("progress/_html_progress_observer.py", "_get_html_progress_string"),
                 ("progress/_html_progress_observer.py", "_get_total_scope_state"), (SP, "_get_progress_string"), (SP, "ScopeState.to_progress_string")],
      assumptions=["the real console / HTML renderers are executed natively on ScopeState objects whose counts are symbolic integers (every value); the number of sections / scopes is "
                   "concrete (1 or 2 sections, 1 or 2 scopes: the loops over them run natively - parametric in the scopes)",
                   "state invariant from progress.State and C15: every announced scope has total >= 1 and completed + failed + running <= total, all >= 0",
                   "str() of a scope value, traceback.format_exception, datetime formatting do not raise; elapsed times are finite floats"],
      min_obligations=8)
def render_symbolic_unit(ctx):
    simple, comp, po = _mods()
    import importlib

    console = importlib.import_module("uberjob.progress._console_progress_observer")
    html = importlib.import_module("uberjob.progress._html_progress_observer")
    which = ctx.choose(2, "renderer")
    shape = ctx.choose(3, "state-shape")   # run: 2 scopes | stale: 1 scope + run: 1 scope | run: 1 scope
    layout = [{"run": [("a",), ("b", 2)]}, {"stale": [("fn",)], "run": [("fn", "x.y")]}, {"run": [()]}][shape]
    state = {}
    for sec, scopes in layout.items():
        state[sec] = {}
        for sc in scopes:
            vals = {}
            for f in ("completed", "failed", "running", "total"):
                vals[f] = ctx.fresh(IntS, f"{f}_{sec}_{len(state[sec])}")
                ctx.assume(vals[f] >= 0)
            ctx.assume(vals["total"] >= 1)
            ctx.assume(vals["completed"] + vals["failed"] + vals["running"] <= vals["total"])
            state[sec][sc] = simple.ScopeState(**{f: CInt(ctx, t) for f, t in vals.items()}, weighted_elapsed=1.5)
    try:
        raise ValueError("boom")
    except ValueError as e:
        ets = [(("a",), (type(e), e, e.__traceback__))] if ctx.choose(2, "exceptions") == 1 else []
    if which == 0:
        o = console.ConsoleProgressObserver(initial_update_delay=0, min_update_interval=0, max_update_interval=0)
    else:
        o = html.HtmlProgressObserver(lambda data: None, initial_update_delay=0, min_update_interval=0, max_update_interval=0)
    kind, val = _catch(ctx, lambda: o._render(state, 0, ets, 12.0))
    ctx.check("render:raises-nothing-for-any-counts(total>=1,completed+failed+running<=total)", bool(kind == "ret"), info=repr(val))
    ctx.check("render:returns-the-text-to-display", bool(kind == "ret" and isinstance(val, (str, bytes)) and len(val) > 0))
    if kind == "ret" and which == 0:
        # the console display skips a finished section after having shown it once: the second rendering of an all-done state still raises nothing
        kind2, val2 = _catch(ctx, lambda: o._render(state, len(ets), ets, 13.0))
        ctx.check("render:a-second-rendering-of-the-same-state-raises-nothing(console-skips-finished-sections)", bool(kind2 == "ret"), info=repr(val2))
    return "ok"


unit("progress.render[bounded]", props=["C20"], functions=[("progress/_console_progress_observer.py", "ConsoleProgressObserver._render"),
                                                           ("progress/_html_progress_observer.py", "HtmlProgressObserver._render"),
                                                           ("progress/_ipython_progress_observer.py", "IPythonProgressObserver._render")],
     assumptions=["bounded stand-in: <= 2 sections x <= 3 scopes, counts <= 2", "the IPython display is rendered on the real ipywidgets outside a notebook (display() prints a repr)"],
     min_obligations=3, kind="bounded")(run_render_bounded)


# ---- update thread: the last rendering reflects the final state ---------------------------------------------------
class UpdateLoop(LoopContract):
    def __init__(self, u):
        self.u = u

    def inv(self):
        u = self.u
        s = u["self"]
        # under the lock: not stale, and something was rendered before (a display that never rendered renders regardless of the flag)
        # => what was rendered last is the current version
        if s._last_render_time is None:
            return z3.BoolVal(True)
        return z3.Implies(z3.Not(s.stale_t), u["rendered"] == u["version"])

    def establish(self, ctx, it, locs):
        ctx.check("update-loop/establish", self.inv())

    def havoc(self, ctx, it, locs):
        u = self.u
        s = u["self"]
        u["version"] = ctx.fresh(IntS, "version")
        u["rendered"] = ctx.fresh(IntS, "rendered")
        s.stale_t = ctx.fresh(z3.BoolSort(), "stale")
        # "never rendered" (None) is a state of the loop only if the constructor establishes it (the loop itself only ever stores times)
        never = u["none_allowed"] and ctx.choose(2, "rendered-before") == 1
        s._last_render_time = None if never else SRealT(ctx, ctx.fresh(RealS, "last"))
        u["outputs"] = []
        ctx.assume(self.inv())
        # the head of an arbitrary iteration: either the event has not been observed yet, or the previous iteration
        # observed it (then it rendered whatever was stale, and nothing is reported any more)
        done = ctx.choose(2, "done-at-loop-head") == 1
        if done:
            u["done_flag"]["set"] = True
            ctx.assume(u["rendered"] == u["version"])
        return {"done": done, "first": ctx.choose(2, "first") == 0}

    def preserve(self, ctx, locs):
        ctx.check("update-loop/preserve", self.inv())
        ctx.check("update-loop/preserve:never-rendered-marker-only-if-the-constructor-sets-it", bool(self.u["self"]._last_render_time is not None or self.u["none_allowed"]))
        if locs.get("done") is True:
            ctx.check("update-loop/preserve:iteration-that-observed-the-done-event-leaves-the-final-state-rendered", self.u["rendered"] == self.u["version"])
        else:
            ctx.check("update-loop/preserve:done-is-a-bool", bool(locs.get("done") is False))


class SRealT(SReal):
    def __ge__(self, o):
        t = SReal.of(o)
        return SBool(self.ctx, self.t >= t, ">=")

    def __sub__(self, o):
        return SRealT(self.ctx, self.t - SReal.of(o))


@unit("progress.final-render", props=["C20"], functions=[(SP, "SimpleProgressObserver._run_update_thread"), (SP, "SimpleProgressObserver._do_render"),
                                                         (SP, "SimpleProgressObserver.__exit__"), (SP, "SimpleProgressObserver.__init__")],
      assumptions=["T4 Event.wait returns True once the event is set; Thread.join waits for the thread", "C15: no notification arrives after __exit__ has begun",
                   "notifications (which set _stale under the lock) interleave before every lock acquisition"], min_obligations=4)
def final_render_unit(ctx):
    u = {"version": z3.IntVal(0), "rendered": z3.IntVal(-1), "outputs": []}

    class Self:
        pass

    s = Self()
    u["self"] = s
    s.stale_t = z3.BoolVal(True)
    done_flag = {"set": False}
    u["done_flag"] = done_flag

    class StaleProp:
        pass

    class Lock:
        def __enter__(self_):
            u["held"] = True
            # other threads' notifications may have happened since the last release - unless the run is over
            if not done_flag["set"]:
                nv = ctx.fresh(IntS, "version")
                ns = ctx.fresh(z3.BoolSort(), "stale")
                ctx.assume(nv >= u["version"])
                ctx.assume(z3.Implies(nv > u["version"], ns))
                ctx.assume(z3.Implies(nv == u["version"], ns == s.stale_t))
                u["version"], s.stale_t = nv, ns

        def __exit__(self_, *a):
            u["held"] = False
            return False

    class Event:
        def wait(self_, timeout):
            r = ctx.choose(2, "done-event") == 1
            if r:
                done_flag["set"] = True
            return r

    class St:
        section_scope_mapping = "MAPPING"

        def update_weighted_elapsed(self_):
            pass

    def _render(state, nei, ets, elapsed):
        ctx.check("snapshot-rendered-while-holding-_lock", bool(u.get("held")))
        u["rendered"] = u["version"]
        return ("rendering-of", u["version"])

    def _output(v):
        u["outputs"].append(v)

    class _time:
        @staticmethod
        def time():
            return SRealT(ctx, ctx.fresh(RealS, "now"))

    s._render, s._output = _render, _output

    # _stale is read/written as an attribute by the real code: map it onto the symbolic flag
    class SelfT(Self):
        # _stale is shared with the notifying threads (which set it under _lock): the interference model above is only sound if the
        # update thread, too, touches it only while holding _lock (Owicki-Gries: a protected variable) - otherwise a notification that
        # lands between the snapshot and an unlocked ``_stale = False`` is lost and the final rendering is skipped
        @property
        def _stale(self_):
            ctx.check("protected-read[_stale]:only-while-holding-_lock", bool(u.get("held")))
            return ctx.branch(s.stale_t, "stale")

        @_stale.setter
        def _stale(self_, v):
            # the constructor writes it before the object is shared with any thread
            ctx.check("protected-write[_stale]:only-while-holding-_lock", bool(u.get("held") or u.get("constructing")))
            if v is False or v is True:
                s.stale_t = z3.BoolVal(v)
            else:
                raise Unsupported("_stale set to a non-boolean")
            if v is False:
                u["cleared_at_version"] = u["version"]

    s.__class__ = SelfT
    # the initial state is whatever the REAL constructor establishes (the flag, the never-rendered marker, the start time)
    class _threading:
        pass

    _threading.Lock, _threading.Event, _threading.Thread = Lock, Event, None
    init_env = {"threading": _threading, "time": _time, "State": lambda *a, **k: St()}
    init = get(SP, "SimpleProgressObserver.__init__").compile_into(init_env)
    u["constructing"] = True
    init(s, initial_update_delay=1, min_update_interval=1, max_update_interval=SRealT(ctx, ctx.fresh(RealS, "maxint")))
    u["constructing"] = False
    u["none_allowed"] = s._last_render_time is None
    vc = VC(ctx, loops={})
    loop = UpdateLoop(u)
    vc.resolve_loop = lambda key, it: loop
    env = {"__vc": vc, "time": _time, "len": len}
    from ujvc.units import real_method_fallback

    SelfT.__getattr__ = real_method_fallback(SP, "SimpleProgressObserver", env)   # helper methods a refactoring may introduce
    dr = get(SP, "SimpleProgressObserver._do_render").compile_into(env)
    SelfT._do_render = dr
    rt = get(SP, "SimpleProgressObserver._run_update_thread", cut_loops="auto").compile_into(env)
    rt(s)
    # reached only through the loop exit: the thread ends
    ctx.check("thread-ends-only-after-the-done-event-was-observed", bool(done_flag["set"]))
    ctx.check("post:at-thread-exit-the-last-rendering-reflects-the-final-state(rendered_version==version)", u["rendered"] == u["version"],
              info="no notification follows the done event (C15), so the final counts are what was rendered last")
    return "ok"


F5_SCRIPT = """
import sys, io, contextlib, threading
import uberjob
from uberjob.progress._console_progress_observer import ConsoleProgressObserver

def scenario(MODE):
    class V:                       # merely hashable and equatable, as Plan.scope requires
        def __init__(self, i): self.i = i
        def __eq__(self, o): return isinstance(o, V) and o.i == self.i
        def __hash__(self): return hash(self.i)
        def __str__(self): return "V%d" % self.i
        if MODE == "partial":      # '<' answers for the value itself and raises for another one (like ('eu', 1) < ('eu', None))
            def __lt__(self, o):
                if isinstance(o, V) and o.i == self.i: return False
                raise TypeError("'<' not supported")
    errors = []
    threading.excepthook = lambda a: errors.append(a.exc_value)
    plan = uberjob.Plan()
    outs = []
    for i in range(3):
        with plan.scope("x", V(i)):
            outs.append(plan.call(lambda: 1))
    buf = io.StringIO()
    with contextlib.redirect_stdout(buf):
        obs = ConsoleProgressObserver(initial_update_delay=0, min_update_interval=0.01, max_update_interval=0.01)
        uberjob.run(plan, output=outs, progress=uberjob.progress.Progress(lambda: obs))
    shown = buf.getvalue()
    if errors or "1 / 1" not in shown:
        print("C20 violated (%s scope values): the progress display stopped updating:" % MODE, errors[:1], "final display:", repr(shown[-200:])); return 1
    return 0
rc = scenario("unorderable") + scenario("partial")
print("ok" if not rc else "failed"); sys.exit(1 if rc else 0)
"""


FINAL_RENDER_SCRIPT = """
import sys, threading, time
import uberjob
from uberjob.progress._simple_progress_observer import SimpleProgressObserver
assert uberjob.__file__

class Obs(SimpleProgressObserver):
    # a notification arrives exactly while a rendering is being emitted (here: delivered from inside _output, where the
    # lock is not held - the same as another thread doing it at that moment); nothing follows it but the end of the run
    def __init__(self):
        super().__init__(initial_update_delay=0, min_update_interval=0.01, max_update_interval=3600)
        self.outs, self.fired = [], False
    def _render(self, state, new_exception_index, exception_tuples, elapsed):
        ss = state["run"][("s",)]
        return (ss.completed, ss.total)
    def _output(self, value):
        self.outs.append(value)
        if not self.fired:
            self.fired = True
            self.increment_completed(section="run", scope=("s",))
            done.set()
done = threading.Event()
o = Obs()
o.increment_total(section="run", scope=("s",), amount=1)
o.increment_running(section="run", scope=("s",))
o.__enter__()
done.wait(10)
o.__exit__(None, None, None)
if not o.outs or o.outs[-1] != (1, 1):
    print("C20 violated: the last rendering emitted is", o.outs[-1:] , "but the final counts are completed=1 total=1; renderings:", o.outs); sys.exit(1)
print("ok", o.outs); sys.exit(0)
"""


ELAPSED_SCRIPT = """
import sys
import uberjob
import uberjob.progress._simple_progress_observer as spo
clock = [100.0]
class _T:
    @staticmethod
    def time(): return clock[0]
spo.time = _T
st = spo.State(clock[0])
st.increment_total("run", ("a",), 1); st.increment_total("run", ("b",), 1)
clock[0] += 10          # ten idle seconds (planning, transform_physical, ...)
st.increment_running("run", ("a",))
clock[0] += 2
st.increment_completed("run", ("a",))
clock[0] += 5           # idle gap between two serial calls
st.increment_running("run", ("b",))
clock[0] += 3
st.increment_completed("run", ("b",))
a, b = st.section_scope_mapping["run"][("a",)].weighted_elapsed, st.section_scope_mapping["run"][("b",)].weighted_elapsed
if abs(a - 2) > 1e-9 or abs(b - 3) > 1e-9:
    print("C20 violated: 5 s during which a call was running, but the scopes are billed", a, "+", b); sys.exit(1)
print("ok", a, b); sys.exit(0)
"""


def _replay_elapsed(ob):
    import os
    import subprocess

    from ujvc.z3env import REPO_SRC

    p = __import__('ujvc.units', fromlist=['run_native_p']).run_native_p(["/venv/bin/python", "-c", ELAPSED_SCRIPT], env=dict(os.environ, PYTHONPATH=REPO_SRC), timeout=120)
    return {"reproduced": p.returncode == 1, "detail": (p.stdout + p.stderr)[-2000:], "script": ELAPSED_SCRIPT}


def _replay_final(ob):
    import os
    import subprocess

    from ujvc.z3env import REPO_SRC

    p = __import__('ujvc.units', fromlist=['run_native_p']).run_native_p(["/venv/bin/python", "-c", FINAL_RENDER_SCRIPT], env=dict(os.environ, PYTHONPATH=REPO_SRC), timeout=120)
    return {"reproduced": p.returncode == 1, "detail": (p.stdout + p.stderr)[-2000:], "script": FINAL_RENDER_SCRIPT}


def _replay(ob):
    import os
    import subprocess

    from ujvc.z3env import REPO_SRC

    p = __import__('ujvc.units', fromlist=['run_native_p']).run_native_p(["/venv/bin/python", "-c", F5_SCRIPT], env=dict(os.environ, PYTHONPATH=REPO_SRC), timeout=120)
    return {"reproduced": p.returncode == 1, "detail": (p.stdout + p.stderr)[-2000:], "script": F5_SCRIPT}


# ---- bounded stand-in: the bundled displays driven by REAL runs, with scope values that are merely hashable and equatable ----------------
E2E_SCRIPT = """
import sys, io, contextlib, threading, time
import uberjob
from uberjob.progress._console_progress_observer import ConsoleProgressObserver
from uberjob.progress._html_progress_observer import HtmlProgressObserver
problems = []
thread_errors = []
threading.excepthook = lambda a: thread_errors.append(repr(a.exc_value))

class V:                      # hashable and equatable, nothing else (no ordering); prints like its twin of another kind
    def __init__(self, i): self.i = i
    def __eq__(self, o): return type(o) is type(self) and o.i == self.i
    def __hash__(self): return hash(self.i)
    def __str__(self): return "v%d" % self.i
    __repr__ = __str__
class Locked(V):              # ... and not copyable / picklable (owns a lock, a connection, a file handle)
    def __init__(self, i): V.__init__(self, i); self.lock = threading.Lock()
class Falsy(V):               # ... and falsy
    def __bool__(self): return False
SCOPES = {"plain": lambda i: ("stage", i), "opaque": lambda i: (V(i),), "uncopyable": lambda i: (Locked(i),), "falsy": lambda i: (Falsy(i), 0, ""),
          "print-alike": lambda i: ((2020,), ("2020",), (2020.0,))[i % 3]}

def build(kind, n_ok, fail):
    plan = uberjob.Plan(); outs = []
    for i in range(n_ok):
        with plan.scope(*SCOPES[kind](i)): outs.append(plan.call(lambda i=i: i))
    if fail:
        def boom(): raise ValueError("boom")
        with plan.scope(*SCOPES[kind](0)): outs.append(plan.call(boom))
    return plan, outs

def run_case(name, mk_observer, final_of, kind, n_ok, fail, slow_output=0.0):
    plan, outs = build(kind, n_ok, fail)
    obs, emitted = mk_observer(slow_output)
    buf = io.StringIO()
    try:
        with contextlib.redirect_stdout(buf):
            uberjob.run(plan, output=outs, progress=uberjob.progress.Progress(lambda: obs), max_errors=None)
    except uberjob.CallError:
        pass
    last = final_of(buf, emitted)
    if last is None:
        problems.append("%s: the display never rendered anything" % name); return
    total = n_ok + (1 if fail else 0)
    done_text = "%d / %d" % (total, total) if not fail else None
    # the last rendering reflects the final counts: every successful scope reads k / k; with a failure the failed count is shown
    if kind != "print-alike":
        want = "1 / 1" if not (fail and n_ok) else None
        if not fail and want not in last: problems.append("%s: last rendering does not show the final counts (%s): %r" % (name, want, last[-300:]))
    if fail and "failed" not in last.lower() and "boom" not in last.lower(): problems.append("%s: last rendering does not show the failure: %r" % (name, last[-300:]))

def console(slow):
    return ConsoleProgressObserver(initial_update_delay=0, min_update_interval=0.01, max_update_interval=0.05), None
def console_final(buf, emitted):
    t = buf.getvalue(); return t if t.strip() else None
def html(slow):
    emitted = []
    def out(data):
        if slow: time.sleep(slow)
        emitted.append(data if isinstance(data, str) else data.decode("utf-8", "replace"))
    return HtmlProgressObserver(out, initial_update_delay=0, min_update_interval=0.01, max_update_interval=0.05), emitted
def html_final(buf, emitted):
    return emitted[-1] if emitted else None

for kind in SCOPES:
    for n_ok, fail in ((1, False), (3, False), (2, True), (0, True)):
        run_case("console[%s,%d ok,%s]" % (kind, n_ok, "1 failing" if fail else "none failing"), console, console_final, kind, n_ok, fail)
        run_case("html[%s,%d ok,%s]" % (kind, n_ok, "1 failing" if fail else "none failing"), html, html_final, kind, n_ok, fail)
# an output function slower than every interval: the final page is still emitted before run returns
run_case("html[slow output]", html, html_final, "plain", 2, False, slow_output=0.3)
# a run without any progress event (a plan without calls): one rendering is still emitted
plan = uberjob.Plan(); obs, emitted = html(0)
uberjob.run(plan, output=[plan.lit(1)], progress=uberjob.progress.Progress(lambda: obs))
if not emitted: problems.append("html[no events]: a run without progress events never rendered (a page of an earlier run would stay on display)")
if thread_errors: problems.append("an update thread died: %s" % thread_errors[:2])
for p in problems[:6]: print("C20 violated:", p)
print(len(problems), "problem(s)"); sys.exit(1 if problems else 0)
"""


def _replay_e2e(ob=None):
    import os

    from ujvc.z3env import REPO_SRC

    p = __import__('ujvc.units', fromlist=['run_native_p']).run_native_p(["/venv/bin/python", "-c", E2E_SCRIPT], env=dict(os.environ, PYTHONPATH=REPO_SRC), timeout=240)
    return {"reproduced": p.returncode == 1, "detail": (p.stdout + p.stderr)[-2500:], "script": E2E_SCRIPT, "rc": p.returncode}


@unit("progress.displays-end-to-end[bounded]", props=["C20"],
      functions=[(SP, "SimpleProgressObserver._run_update_thread"), (SP, "SimpleProgressObserver._do_render"), (SP, "SimpleProgressObserver.__init__"),
                 (SP, "SimpleProgressObserver.__enter__"), (SP, "SimpleProgressObserver.__exit__"), (SP, "SimpleProgressObserver.increment_total"),
                 (SP, "SimpleProgressObserver.increment_running"), (SP, "SimpleProgressObserver.increment_completed"), (SP, "SimpleProgressObserver.increment_failed"),
                 ("progress/_console_progress_observer.py", "ConsoleProgressObserver._render"), ("progress/_html_progress_observer.py", "HtmlProgressObserver._render")],
      assumptions=["bounded stand-in: real runs of 1-4 calls under the console and HTML displays, five kinds of scope values (plain, merely hashable and equatable, "
                   "not copyable, falsy, printing alike), with and without a failing call, a slow output function, a run without progress events"],
      min_obligations=2, kind="bounded")
def displays_e2e(ctx):
    r = _replay_e2e()
    if r["rc"] not in (0, 1):
        ctx.unsupported("display probe did not run: " + r["detail"][-600:])
    ctx.check("bounded/the-displays-render-every-run-to-its-final-counts-whatever-the-scope-values(no-update-thread-dies)", bool(r["rc"] == 0), info=r["detail"][-2000:])
    ctx.check("bounded/display-probe-ran", bool("problem(s)" in r["detail"]))
    return "ok"


ELAPSED_STRING_SCRIPT = textwrap.dedent(
    '''
    import re, sys
    from uberjob.progress._simple_progress_observer import get_elapsed_string, ScopeState
    extra = [int(a) for a in sys.argv[1:]]
    bad = []
    for e in list(range(0, 7300)) + [35999, 36000, 86399, 86400, 90061, 360000, 10**7] + extra:
        for v in (e, e + 0.75):
            try:
                txt = ScopeState(weighted_elapsed=v).to_elapsed_string() if e % 2 else get_elapsed_string(v)
            except Exception as ex:
                bad.append((v, "raised %r" % ex)); continue
            m = re.fullmatch(r"(?:(\\d+)h)?(?:(\\d+)m)?(\\d+)s", txt)
            if not m: bad.append((v, txt, "not of the form [<h>h][<m>m]<s>s")); continue
            h, mi, se = (int(x) if x is not None else None for x in m.groups())
            total = (h or 0) * 3600 + (mi or 0) * 60 + se
            if total != e or se >= 60 or (mi or 0) >= 60 or (h is None and e >= 3600) or (mi is None and e >= 60):
                bad.append((v, txt, "decodes to %d s" % total))
    for b in bad[:5]: print("elapsed time %r is displayed as %s" % (b[0], b[1:]))
    sys.exit(1 if bad else 0)
    '''
)


def _replay_elapsed_string(ob):
    import os
    import re as _re

    from ujvc.units import run_native_p
    from ujvc.z3env import REPO_SRC

    extra = _re.findall(r"whole_seconds![0-9]+ = ([0-9]+)", (ob or {}).get("model", "") if isinstance(ob, dict) else getattr(ob, "model", "") or "")
    p = run_native_p(["/venv/bin/python", "-c", ELAPSED_STRING_SCRIPT] + extra[:3], env=dict(os.environ, PYTHONPATH=REPO_SRC), timeout=120)
    return {"reproduced": p.returncode == 1, "detail": (p.stdout + p.stderr)[-2000:], "script": ELAPSED_STRING_SCRIPT, "argv": extra[:3]}


REPLAYS = [("progress.get_elapsed_string*", _replay_elapsed_string), ("progress.displays-end-to-end*", _replay_e2e), ("progress.final-render*", _replay_final), ("progress.State/elapsed*", _replay_elapsed), ("progress.*", _replay)]
