"""Sidecar contract for graph.get_argument_nodes  (property C02: 'each call receives its positional arguments in
order and its keyword arguments under their names in the order given').  Deductive, unbounded: the in-edges of the
call are a symbolic sequence of symbolic length, both loops are cut with inductive invariants.

View.  ``graph.in_edges(call, keys=True)`` is a finite enumeration  e_0 .. e_{n-1}  (n >= 0 symbolic) without
repetition of the set {(u, k) | E(u, call, k)} (T5; iterating the view twice yields the same sequence because the
function does not mutate the graph in between - a frame obligation checked here).  Per position t:
      epred(t) : Node     ekind(t) in {0 Dependency, 1 PositionalArg, 2 KeywordArg}     eidx(t) : Int     ename(t) : Name
Edge keys are handed to the code as REAL instances of the three key classes (eager split on ekind(t), the code
applies ``type(k) is ...``) with symbolic index / name.

Precondition  WF_args(call)  (sequence form; established by Plan._call in set form, see contracts/plumbing.py
``plumbing.Plan._call[unbounded]``, and carried from the set form to ANY enumeration by the obligation
``wf-set=>wf-seq`` below):
      A1  forall t in [0,n).  ekind(t) = 1  =>  0 <= eidx(t) < P  and  pe(eidx(t)) = t
      A2  forall i in [0,P).  0 <= pe(i) < n  and  ekind(pe(i)) = 1  and  eidx(pe(i)) = i
      B1/B2 the same for kind 2 with K, ke
      L-COUNT (lemma, proved in Lean: lemmas/Count.lean, thorough tier)  A1 and A2  =>  cntP(n) = P   (cnt = number of
           positions of that kind among the first t, defined by cnt(0)=0, cnt(t+1)=cnt(t)+[ekind(t)=kind])
Postcondition (taken from the statement of C02, not from the code):
      returns (args, kwargs);  len(args) = P  and  forall i < P. args[i] is epred(pe(i))      -- positionals in order
      kwargs = dict(pairs) with len(pairs) = K and pairs[j] = (ename(ke(j)), epred(ke(j)))      -- keywords under their
                                                                      names, in the order given (dict keeps insertion order, T1)
      the graph is not mutated; no IndexError is possible (every list index is proved in range).
Loop invariants:   loop 1 at position t:  len(args) = cntP(t)  and  len(pairs) = cntK(t)
                   loop 2 at position t:  lengths = P, K  and  forall s < t. ekind(s)=1 => args[eidx(s)] = epred(s)   (same for pairs)
"""
from ujvc.core import Unsupported
from ujvc.units import get, unit
from ujvc.vc import VC, IntS, LoopContract, SInt
from ujvc.z3env import z3

from . import gstate as G
from . import mgraph as M
from .gproxies import SNode, node_t
from .gstate import Node
from .mgraph import Key, Name, esel
from .rewrite import real_classes

GR = "graph.py"

NodeSeq = z3.ArraySort(IntS, Node)
NameSeq = z3.ArraySort(IntS, Name)
NONE_NODE = z3.Const("None!node", Node)
NONE_NAME = z3.Const("None!name", Name)


class SName:
    def __init__(self, t):
        self.t = t


class SList:
    """a python list whose items are None, a node, or a (name, node) pair: two parallel arrays + length"""

    def __init__(self, ctx, tag):
        self.ctx, self.tag = ctx, tag
        self.node = z3.K(IntS, NONE_NODE)
        self.name = z3.K(IntS, NONE_NAME)
        self.n = z3.IntVal(0)

    def _item(self, x):
        if x is None:
            return NONE_NAME, NONE_NODE
        if isinstance(x, tuple) and len(x) == 2 and isinstance(x[0], SName):
            return x[0].t, node_t(x[1])
        return NONE_NAME, node_t(x)

    def append(self, x):
        nm, nd = self._item(x)
        self.node = z3.Store(self.node, self.n, nd)
        self.name = z3.Store(self.name, self.n, nm)
        self.n = self.n + 1

    def __setitem__(self, i, x):
        if isinstance(i, SInt):
            t = i.t
        elif isinstance(i, int) and not isinstance(i, bool):
            t = z3.IntVal(i) if i >= 0 else self.n + i
        else:
            raise Unsupported("list index")
        # python accepts -len <= i < len; the statement needs the slot the index NAMES, so negative indices are not accepted
        self.ctx.check(f"defined:{self.tag}[index]=...-index-in-range", z3.And(t >= 0, t < self.n), info="IndexError / wrong slot")
        nm, nd = self._item(x)
        self.node = z3.Store(self.node, t, nd)
        self.name = z3.Store(self.name, t, nm)

    def __vc_len__(self):
        return SInt(self.ctx, self.n)

    def __iter__(self):
        raise Unsupported("iteration over a symbolic list outside a cut loop")


class DictOf:
    """dict(pairs): T1 - a dict built from a sequence of pairs keeps first-insertion order; with pairwise distinct names
    (keyword names are distinct in Python) it has exactly the items of the sequence in sequence order"""

    def __init__(self, src):
        self.src = src


class InEdges:
    """graph.in_edges(call, keys=True)"""

    def __init__(self, w):
        self.w = w

    def __iter__(self):
        raise Unsupported("iteration over the in-edge view outside a cut loop")


class World:
    def __init__(self, ctx, cls):
        self.ctx, self.cls = ctx, cls
        self.n = ctx.fresh(IntS, "n")
        self.P, self.K = ctx.fresh(IntS, "P"), ctx.fresh(IntS, "K")
        self.epred = z3.Function("epred", IntS, Node)
        self.ekind = z3.Function("ekind", IntS, IntS)
        self.eidx = z3.Function("eidx", IntS, IntS)
        self.ename = z3.Function("ename", IntS, Name)
        self.cntP = z3.Function("cntP", IntS, IntS)
        self.cntK = z3.Function("cntK", IntS, IntS)
        self.pe = z3.Function("pe", IntS, IntS)
        self.ke = z3.Function("ke", IntS, IntS)
        self.loops_started = 0
        self.lists = []
        self.graph_reads = []
        self.mutated = False

    def wf(self):
        t, i = z3.Const("t!wf", IntS), z3.Const("i!wf", IntS)
        out = [self.n >= 0, self.P >= 0, self.K >= 0,
               z3.ForAll([t], z3.Implies(z3.And(0 <= t, t < self.n), z3.And(self.ekind(t) >= 0, self.ekind(t) <= 2)))]
        for kd, cnt, inv, tot in ((1, self.cntP, self.pe, self.P), (2, self.cntK, self.ke, self.K)):
            out.append(z3.ForAll([t], z3.Implies(z3.And(0 <= t, t < self.n, self.ekind(t) == kd),
                                                 z3.And(0 <= self.eidx(t), self.eidx(t) < tot, inv(self.eidx(t)) == t))))
            out.append(z3.ForAll([i], z3.Implies(z3.And(0 <= i, i < tot),
                                                 z3.And(0 <= inv(i), inv(i) < self.n, self.ekind(inv(i)) == kd, self.eidx(inv(i)) == i))))
            out.append(cnt(z3.IntVal(0)) == 0)
            out.append(cnt(self.n) == tot)  # L-COUNT instance (Lean: lemmas/Count.lean)
        return out

    def unfold(self, t):
        """definition of cnt at t+1"""
        return z3.And(self.cntP(t + 1) == self.cntP(t) + z3.If(self.ekind(t) == 1, 1, 0),
                      self.cntK(t + 1) == self.cntK(t) + z3.If(self.ekind(t) == 2, 1, 0))

    def element(self, t, call):
        """the t-th in-edge as the real tuple networkx yields: (predecessor, call, key object)"""
        ctx, c = self.ctx, self.cls
        k = ctx.choose(3, "edge-kind")
        ctx.assume(self.ekind(t) == k)
        if k == 0:
            key = c["Dependency"]()
        elif k == 1:
            key = c["PositionalArg"].__new__(c["PositionalArg"])
            key.index = SInt(ctx, self.eidx(t))
        else:
            key = c["KeywordArg"].__new__(c["KeywordArg"])
            key.index = SInt(ctx, self.eidx(t))
            key.name = SName(self.ename(t))
        return (SNode(self.epred(t)), call, key)


class GraphProxy:
    def __init__(self, w, call):
        self.w, self.call = w, call

    def in_edges(self, node, keys=False, **kw):
        if node is not self.call or keys is not True or kw:
            raise Unsupported("get_argument_nodes no longer asks for in_edges(call, keys=True)")
        self.w.graph_reads.append("in_edges")
        return InEdges(self.w)

    def __getattr__(self, name):
        if name.startswith(("add_", "remove_", "clear", "update")):
            self.w.mutated = True
        raise Unsupported(f"graph.{name} is not part of the contract of get_argument_nodes")


class _Loop(LoopContract):
    def __init__(self, w, call):
        self.w, self.call = w, call
        self.t = None

    def _lists(self):
        ls = self.w.lists
        if len(ls) != 2:
            raise Unsupported("get_argument_nodes no longer builds exactly two lists (args, keyword_arg_pairs) before its loops")
        return ls

    def havoc_lists(self, ctx):
        a, k = self._lists()
        for l in (a, k):
            l.node, l.name, l.n = ctx.fresh(NodeSeq, l.tag + ".node"), ctx.fresh(NameSeq, l.tag + ".name"), ctx.fresh(IntS, l.tag + ".len")
        return a, k

    def havoc(self, ctx, it, locs):
        w = self.w
        self.t = ctx.fresh(IntS, "t")
        ctx.assume(z3.And(self.t >= 0, self.t <= w.n))
        self.havoc_lists(ctx)
        ctx.assume(self.inv(self.t))
        return {}

    def iterate(self, ctx, it):
        w = self.w
        if ctx.branch(self.t < w.n, "more-in-edges"):
            ctx.assume(w.unfold(self.t))
            self.current = w.element(self.t, self.call)
            return True
        return False

    def establish(self, ctx, it, locs):
        if not isinstance(it, InEdges):
            raise Unsupported("loop does not iterate the in-edge view")
        ctx.check(f"{self.name}/establish", self.inv(z3.IntVal(0)))

    def preserve(self, ctx, locs):
        ctx.check(f"{self.name}/preserve", self.inv(self.t + 1))

    def at_exit(self, ctx, it):
        ctx.assume(self.t == self.w.n)


class CountLoop(_Loop):
    name = "count-loop"

    def inv(self, t):
        a, k = self._lists()
        return z3.And(a.n == self.w.cntP(t), k.n == self.w.cntK(t))


class FillLoop(_Loop):
    name = "fill-loop"

    def inv(self, t):
        w = self.w
        a, k = self._lists()
        s = z3.Const("s!fl", IntS)
        return z3.And(
            a.n == w.P, k.n == w.K,
            z3.ForAll([s], z3.Implies(z3.And(0 <= s, s < t, w.ekind(s) == 1), z3.Select(a.node, w.eidx(s)) == w.epred(s))),
            z3.ForAll([s], z3.Implies(z3.And(0 <= s, s < t, w.ekind(s) == 2),
                                      z3.And(z3.Select(k.node, w.eidx(s)) == w.epred(s), z3.Select(k.name, w.eidx(s)) == w.ename(s)))),
        )


class AVC(VC):
    def __init__(self, ctx, w, call):
        VC.__init__(self, ctx)
        self.w, self.call = w, call

    def new_list(self):
        l = SList(self.ctx, ("args", "keyword_arg_pairs", "list3", "list4")[min(len(self.w.lists), 3)])
        self.w.lists.append(l)
        return l

    def resolve_loop(self, key, it):
        if not isinstance(it, InEdges):
            return None
        self.w.loops_started += 1
        if self.w.loops_started == 1:
            return CountLoop(self.w, self.call)
        if self.w.loops_started == 2:
            return FillLoop(self.w, self.call)
        return None


@unit("argnodes.get_argument_nodes", props=["C02"], functions=[(GR, "get_argument_nodes")],
      assumptions=["T5 in_edges(call, keys=True) enumerates each in-edge once, in the same order on every iteration of an unmodified graph",
                   "T1 dict(pairs) keeps insertion order", "L-COUNT (Lean, thorough tier): bijection between the positional edges and [0,P) => exactly P of them"],
      min_obligations=8)
def get_argument_nodes_unit(ctx):
    cls = real_classes()
    w = World(ctx, cls)
    for f in w.wf():
        ctx.assume(f)
    call = cls["Call"].__new__(cls["Call"])
    g = GraphProxy(w, call)
    vc = AVC(ctx, w, call)

    def _dict(x=None, **kw):
        if kw or not isinstance(x, SList):
            raise Unsupported("dict() of something else than the pair list")
        return DictOf(x)

    env = {"__vc": vc, "len": vc.len, "range": vc.range, "dict": _dict, "type": type,
           "PositionalArg": cls["PositionalArg"], "KeywordArg": cls["KeywordArg"], "Dependency": cls["Dependency"]}
    f = get(GR, "get_argument_nodes", cut_loops="auto", sym_containers=True).compile_into(env)
    r = f(g, call)
    ok = (isinstance(r, tuple) and len(r) == 2 and isinstance(r[0], SList) and isinstance(r[1], DictOf) and len(w.lists) == 2
          and r[0] is w.lists[0] and r[1].src is w.lists[1])
    ctx.check("post:returns-(args-list,dict(keyword-pairs))", bool(ok))
    if not ok:
        return "shape"
    ctx.check("frame:graph-only-read-through-in_edges(call,keys=True)", bool(not w.mutated and set(w.graph_reads) == {"in_edges"}))
    a, k = w.lists
    i = z3.Const("i!post", IntS)
    ctx.check("post:len(args)==P-and-args[i]-is-the-predecessor-on-the-edge-PositionalArg(i)",
              z3.And(a.n == w.P, z3.ForAll([i], z3.Implies(z3.And(0 <= i, i < w.P), z3.Select(a.node, i) == w.epred(w.pe(i))))))
    ctx.check("post:kwargs==dict([(name_j,predecessor-on-the-edge-KeywordArg(name_j,j))-for-j<K])-in-that-order",
              z3.And(k.n == w.K, z3.ForAll([i], z3.Implies(z3.And(0 <= i, i < w.K),
                                                           z3.And(z3.Select(k.node, i) == w.epred(w.ke(i)), z3.Select(k.name, i) == w.ename(w.ke(i)))))))
    return "ok"


@unit("argnodes.wf-set=>wf-seq", props=["C02"], functions=[],
      assumptions=["pure lemma over the contracts: the set form of WF_args (postcondition of Plan._call) implies the sequence form (precondition of get_argument_nodes) for every enumeration of the in-edges without repetition"],
      min_obligations=2)
def wf_bridge_unit(ctx):
    """set form:  forall u,k. E(u,c,k) and kind(k)=1 => 0<=kidx(k)<P and u = arg(kidx(k));  forall i<P. E(arg(i),c,pos(i))
       enumeration: forall t<n. E(epred(t),c,ekey(t));  forall u,k. E(u,c,k) => 0<=posn(u,k)<n and epred(posn(u,k))=u and ekey(posn(u,k))=k;
                    forall t<n. posn(epred(t),ekey(t)) = t"""
    for a in M.key_axioms():
        ctx.assume(a)
    E = ctx.fresh(M.EdgeS, "E")
    c = ctx.fresh(Node, "c")
    n, P, K = ctx.fresh(IntS, "n"), ctx.fresh(IntS, "P"), ctx.fresh(IntS, "K")
    arg = z3.Function("arg", IntS, Node)
    kwn = z3.Function("kwnode", IntS, Node)
    kwname = z3.Function("kwname", IntS, Name)
    epred = z3.Function("epred", IntS, Node)
    ekey = z3.Function("ekey", IntS, Key)
    posn = z3.Function("posn", Node, Key, IntS)
    u, k = z3.Const("u!b", Node), z3.Const("k!b", Key)
    t, i = z3.Const("t!b", IntS), z3.Const("i!b", IntS)
    ctx.assume(z3.And(n >= 0, P >= 0, K >= 0))
    # set form (what Plan._call establishes for the call it creates)
    ctx.assume(z3.ForAll([u, k], z3.Implies(z3.And(esel(E, u, c, k), M.kind(k) == 1), z3.And(0 <= M.kidx(k), M.kidx(k) < P, u == arg(M.kidx(k))))))
    ctx.assume(z3.ForAll([i], z3.Implies(z3.And(0 <= i, i < P), z3.And(esel(E, arg(i), c, M.pos(i)), M.kind(M.pos(i)) == 1, M.kidx(M.pos(i)) == i))))
    ctx.assume(z3.ForAll([u, k], z3.Implies(z3.And(esel(E, u, c, k), M.kind(k) == 2),
                                            z3.And(0 <= M.kidx(k), M.kidx(k) < K, u == kwn(M.kidx(k)), M.kname(k) == kwname(M.kidx(k))))))
    ctx.assume(z3.ForAll([i], z3.Implies(z3.And(0 <= i, i < K), z3.And(esel(E, kwn(i), c, M.kw(kwname(i), i)), M.kind(M.kw(kwname(i), i)) == 2,
                                                                       M.kidx(M.kw(kwname(i), i)) == i, M.kname(M.kw(kwname(i), i)) == kwname(i)))))
    # enumeration without repetition
    ctx.assume(z3.ForAll([t], z3.Implies(z3.And(0 <= t, t < n), z3.And(esel(E, epred(t), c, ekey(t)), posn(epred(t), ekey(t)) == t))))
    ctx.assume(z3.ForAll([u, k], z3.Implies(esel(E, u, c, k), z3.And(0 <= posn(u, k), posn(u, k) < n, epred(posn(u, k)) == u, ekey(posn(u, k)) == k))))
    pe = lambda j: posn(arg(j), M.pos(j))
    ke = lambda j: posn(kwn(j), M.kw(kwname(j), j))
    ctx.check("A1:positional-edge-at-t=>0<=idx<P-and-pe(idx)==t",
              z3.ForAll([t], z3.Implies(z3.And(0 <= t, t < n, M.kind(ekey(t)) == 1), z3.And(0 <= M.kidx(ekey(t)), M.kidx(ekey(t)) < P, pe(M.kidx(ekey(t))) == t))))
    ctx.check("A2:i<P=>pe(i)-is-a-position-holding-PositionalArg(i)",
              z3.ForAll([i], z3.Implies(z3.And(0 <= i, i < P), z3.And(0 <= pe(i), pe(i) < n, M.kind(ekey(pe(i))) == 1, M.kidx(ekey(pe(i))) == i))))
    ctx.check("B1:keyword-edge-at-t=>0<=idx<K-and-ke(idx)==t",
              z3.ForAll([t], z3.Implies(z3.And(0 <= t, t < n, M.kind(ekey(t)) == 2), z3.And(0 <= M.kidx(ekey(t)), M.kidx(ekey(t)) < K, ke(M.kidx(ekey(t))) == t))))
    ctx.check("B2:j<K=>ke(j)-is-a-position-holding-KeywordArg(name_j,j)-and-its-predecessor-is-the-j-th-keyword-argument",
              z3.ForAll([i], z3.Implies(z3.And(0 <= i, i < K), z3.And(0 <= ke(i), ke(i) < n, M.kind(ekey(ke(i))) == 2, M.kidx(ekey(ke(i))) == i,
                                                                       M.kname(ekey(ke(i))) == kwname(i), epred(ke(i)) == kwn(i)))))
    ctx.check("A3:the-predecessor-at-pe(i)-is-the-i-th-positional-argument",
              z3.ForAll([i], z3.Implies(z3.And(0 <= i, i < P), epred(pe(i)) == arg(i))))
    return "ok"
