"""Sidecar contracts for the stale check in caching.py: _get_stale_nodes and its nested process_no_stale_ancestor /
process / process_with_callbacks, _get_stale_scope, _update_stale_totals
(properties C05, C03, C08, C10, C14, C15, C18 use sites, C19).

Spec functions (taken from the statement of C05, not from the code), for a node n whose predecessors' slots are final
(C01 for the stale-check run), with times as INSTANTS (C18) and Optional = None | instant:
    A(n)      = the newest M(p) over the predecessors p of n that carry one (None if none does)
    Stale(n) <=> some predecessor is stale                                   ("downstream of an out-of-date value")
              or n has a store and ( nothing is stored                       ("missing")
                                     or ( (A(n) is not None or n is not a source)      -- a pure source is only ever
                                          and max(mt(n), A(n), fresh_time) > mt(n) ) )    out of date when missing
                                                                             ("older than fresh_time / than a value upstream";
                                                                              strictly older: equal is not older)
    M(n)      = A(n) if n has no store, else mt(n)                           (defined when n is not stale)
Per-node contract of process(n):  stale_lookup[n].value == Stale(n);  not Stale(n) => modified_time_lookup[n].value == M(n);
the store is asked for its modified time at most once, through retry, only when n has a store and no stale predecessor,
and is never read or written (C14); every time that is compared went through _to_naive_utc_time (C18).

process_with_callbacks(n): Literal -> process(n) only;  Call -> trace suffix exactly running(stale,s).completed(stale,s) /
running.failed(stale,s,CallError(n) caused by e) + NodeError(n) from e / running only for a non-Exception BaseException,
with s = _get_stale_scope(n, registry) = full call scope (+ the store's class name when n has a store).
"""
import collections

from ujvc.core import EngineSignal, Unsupported
from ujvc.units import get, unit
from ujvc.vc import VC, BoolS, IntS, SBool
from ujvc.z3env import z3

from .runphys import Trace, _catch, _real, user_fn

REL = "_transformations/caching.py"


class STime:
    """a normalised time (an instant); truthy like every datetime (T16)"""

    def __init__(self, ctx, t):
        self.ctx, self.t = ctx, t

    def __bool__(self):
        return True

    def _c(self, o, f, lab):
        if not isinstance(o, STime):
            raise Unsupported("comparison of a normalised time with something else")
        return SBool(self.ctx, f(self.t, o.t), lab)

    def __gt__(self, o):
        return self._c(o, lambda a, b: a > b, ">")

    def __lt__(self, o):
        return self._c(o, lambda a, b: a < b, "<")

    def __ge__(self, o):
        return self._c(o, lambda a, b: a >= b, ">=")

    def __le__(self, o):
        return self._c(o, lambda a, b: a <= b, "<=")

    def __eq__(self, o):
        return self._c(o, lambda a, b: a == b, "==") if isinstance(o, STime) else False

    def __hash__(self):
        return id(self)


class RawTime:
    """what a store's get_modified_time returned (naive or aware datetime): NOT comparable before normalisation"""

    def __init__(self, inst):
        self.inst = inst

    def __bool__(self):
        return True


class PredIter:
    """plan.graph.predecessors(node) of the examined node"""


class MSlots:
    """generator over the predecessors' modified-time slots (result of the cut generator expression)"""


class StaleSlots:
    pass


def opt(ctx, name):
    """an Optional[instant]: (is_none, value) with an eager split into a real None / STime"""
    if ctx.choose(2, name + "-is-None") == 1:
        return None
    return STime(ctx, ctx.fresh(IntS, name))


def own_store_out_of_date(has_store, is_source, mt, A, fresh):
    """the 'own store' disjunct of the spec function Stale (statement of C05); mt / A / fresh are None or objects with an instant .t.
    The same function defines the store world of the history lemmas (contracts/history.py checks the agreement)."""
    if not has_store:
        return z3.BoolVal(False)
    if mt is None:
        return z3.BoolVal(True)
    guard = (A is not None) or (not is_source)
    if not guard:
        return z3.BoolVal(False)
    mx = mt.t
    for o in (A, fresh):
        if o is not None:
            mx = z3.If(o.t > mx, o.t, mx)
    return mx > mt.t



def registry_over(mapping, on_get=None):
    """A registry for the units below: the REAL Registry class of the working tree (its read interface - get, `in`, [], keys/values/items, iteration,
    len - is under contract in plumbing.Registry) over the given mapping node -> registry value; `on_get` logs look-ups made through get()."""
    import importlib

    from ujvc.z3env import ensure_repo_first

    ensure_repo_first()
    real = importlib.import_module("uberjob._registry").Registry

    class Registry(real):
        def __init__(self):
            self.mapping = mapping

        def get(self, n):
            if on_get is not None:
                on_get(n)
            return real.get(self, n)

    return Registry()


def run_process(ctx):
    graph, util, errors, _graph = _real()
    import importlib

    caching = importlib.import_module("uberjob._transformations.caching")
    log = []
    node = graph.Call(user_fn)
    pred_obj = graph.Call(user_fn)
    reg_kind = ctx.choose(3, "registry-entry")  # 0 none, 1 stored non-source, 2 source
    anc_stale = ctx.fresh(BoolS, "some_predecessor_stale")
    A = opt(ctx, "A")
    mt = opt(ctx, "mt")
    fresh = opt(ctx, "fresh")
    raw = None if mt is None else RawTime(mt)
    preds = PredIter()

    class Store:
        def __len__(self):      # a value store is a user object: it may well be falsy (the library must test 'is None', never truth)
            return 0

        def get_modified_time(self):
            log.append(("get_modified_time",))
            return raw

        def read(self):
            log.append(("read",))

        def write(self, v):
            log.append(("write",))

    store = Store()

    class RVal:
        value_store = store
        is_source = reg_kind == 2

    class Mapping(dict):
        pass

    def Registry():
        return registry_over({node: RVal} if reg_kind else {}, on_get=lambda n: log.append(("registry.get", n)))

    stale_slot, m_slot = util.Slot(False), util.Slot()
    pred_stale_slot, pred_m_slot = util.Slot("PRED-STALE"), util.Slot("PRED-M")

    class Gr:
        def predecessors(self, n):
            log.append(("predecessors", n))
            return preds

    class Plan:
        graph = Gr()

    def comp(vc, key, elt, cond):
        # generator expressions over the predecessors: evaluate the element on a generic predecessor
        if cond is not None:
            raise Unsupported("filtered generator over predecessors")
        r = elt(pred_obj)
        if r == "PRED-M":
            return MSlots()
        if r == "PRED-STALE":
            return StaleSlots()
        raise Unsupported(f"generator over predecessors yields {r!r}")

    preds.__vc_comp__ = comp

    def _any(x):
        if isinstance(x, StaleSlots):
            log.append(("any-stale-predecessor",))
            return ctx.branch(anc_stale, "any-stale-predecessor")
        return any(x)

    def _max(it, default="nodefault"):
        xs = list(it)
        if not xs:
            return default
        if not all(isinstance(x, STime) for x in xs):
            raise Unsupported("max over non-normalised times")
        t = xs[0].t
        for x in xs[1:]:
            t = z3.If(x.t > t, x.t, t)
        return STime(ctx, t)

    def safe_max(*args):
        # real safe_max semantics on the abstract predecessor generator; the real function is used for tuples
        if len(args) == 1 and isinstance(args[0], MSlots):
            log.append(("safe_max-over-predecessors'-M",))
            return A
        it = args[0] if len(args) == 1 else args
        return _max((v for v in it if v is not None), default=None)

    def _to_naive(v):
        log.append(("normalise", v))
        if v is None:
            return None
        if isinstance(v, RawTime):
            return v.inst
        raise Unsupported("normalising something that is not a store time")

    def retry(f):
        log.append(("retry", f))
        return f

    vc = VC(ctx)
    env = {"__vc": vc, "any": _any, "max": _max, "safe_max": safe_max, "_to_naive_utc_time": _to_naive, "retry": retry, "registry": Registry(),
           "plan": Plan, "stale_lookup": {node: stale_slot, pred_obj: pred_stale_slot}, "modified_time_lookup": {node: m_slot, pred_obj: pred_m_slot},
           "fresh_time": fresh}
    get(REL, "_get_stale_nodes.<locals>.process_no_stale_ancestor", cut_comps=True).compile_into(env)
    process = get(REL, "_get_stale_nodes.<locals>.process", cut_comps=True).compile_into(env)
    kind, val = _catch(ctx, lambda: process(node))
    ctx.check("process:no-exception-when-the-store-answers", bool(kind == "ret"), info=repr(val), props=["C05", "C07"])
    if kind != "ret":
        return "raise"
    # ---- spec ----
    has_store = reg_kind != 0
    is_source = reg_kind == 2
    own = own_store_out_of_date(has_store, is_source, mt, A, fresh)
    spec_stale = z3.Or(anc_stale, own)
    if env["stale_lookup"].get(node) is not stale_slot or env["modified_time_lookup"].get(node) is not m_slot:
        # the per-node results are no longer written INTO the slots this unit handed over (plain values in the dicts, records ...): another representation
        ctx.unsupported("process() does not keep its per-node results in the Slot cells of stale_lookup / modified_time_lookup")
    got = stale_slot.value
    ctx.check("post:stale_lookup[n]==Stale(n)", (spec_stale if got is True else z3.Not(spec_stale)) if isinstance(got, bool) else False,
              props=["C05", "C03", "C08"], info=f"stale slot = {got!r}")
    if got is False:
        m = m_slot.value
        want = A if not has_store else mt
        if want is None:
            ctx.check("post:not-stale=>M(n)(None-case)", bool(m is None), props=["C05", "C03"])
        else:
            ctx.check("post:not-stale=>M(n)==A(n)-if-unstored-else-mt(n)", bool(isinstance(m, STime)) and (m.t == want.t if isinstance(m, STime) else False),
                      props=["C05", "C03", "C08"])
    gm = [e for e in log if e[0] == "get_modified_time"]
    ctx.check("C14:store-never-read-or-written", bool(not any(e[0] in ("read", "write") for e in log)), props=["C14"])
    ctx.check("modified-time-asked-at-most-once", bool(len(gm) <= 1), props=["C10", "C14"])
    if gm:
        ctx.check("modified-time-asked-only-for-a-stored-node-without-stale-predecessor", z3.Not(anc_stale) if has_store else False, props=["C05", "C14"])
        rts = [e for e in log if e[0] == "retry"]
        ctx.check("C10:get_modified_time-goes-through-retry", bool(len(rts) == 1 and getattr(rts[0][1], "__func__", None) is Store.get_modified_time), props=["C10"])
        nz = [e for e in log if e[0] == "normalise"]
        ctx.check("C18:the-store's-time-is-normalised-before-any-comparison", bool(len(nz) == 1 and nz[0][1] is raw), props=["C18"])
    ctx.check("slots-of-other-nodes-untouched", bool(pred_stale_slot.value == "PRED-STALE" and pred_m_slot.value == "PRED-M"), props=["C05"])
    return "ok"


unit("stale.process", props=["C05", "C03", "C08", "C10", "C14", "C18"],
     functions=[(REL, "_get_stale_nodes.<locals>.process"), (REL, "_get_stale_nodes.<locals>.process_no_stale_ancestor")],
     inlined=["process_no_stale_ancestor"],
     assumptions=["contract of _to_naive_utc_time (contracts/times.py): times are instants", "T16 datetime objects are truthy",
                  "generator expressions over the predecessors act pointwise (decided on a generic predecessor); any / max as in Python; safe_max: the contract proved on the real function for any number of values by util.safe_max",
                  "pairwise distinct modified times are NOT assumed: the spec's strict > is taken from the statement ('older than')"],
     min_obligations=6)(run_process)


@unit("stale.process_with_callbacks", props=["C15", "C06", "C19", "C05"],
      functions=[(REL, "_get_stale_nodes.<locals>.process_with_callbacks"), (REL, "_get_stale_scope")], inlined=["_get_stale_scope"],
      assumptions=["T7 observer methods do not raise"], min_obligations=4)
def pwc_unit(ctx):
    graph, util, errors, _graph = _real()
    tr = Trace()
    k = ctx.choose(2, "node-kind")
    node = graph.Literal(1, scope=("s",)) if k == 1 else graph.Call(user_fn, scope=("outer", 7))
    has_store = ctx.choose(2, "has-store") == 0
    raised = {}
    calls = []

    class Boom(Exception):
        pass

    class BaseBoom(BaseException):
        pass

    import dataclasses

    @dataclasses.dataclass(frozen=True)
    class FrozenBoom(Boom):
        """an exception whose attributes cannot be assigned (a frozen dataclass): ``exc.__traceback__ = ...`` raises, ``with_traceback`` works"""
        code: int = 3

    def process(n):
        calls.append(n)

        def _a():
            def _b():
                o = ctx.choose(4, "process")
                if o == 3:
                    raised["e"] = FrozenBoom(7)
                    raise raised["e"]
                if o == 1:
                    raised["e"] = Boom("x")
                    raise raised["e"]
                if o == 2:
                    raised["e"] = BaseBoom("x")
                    raise raised["e"]

            _b()

        _a()

    class VS:
        def __len__(self):      # a value store is a user object: it may well be falsy (the library must test 'is None', never truth)
            return 0

        pass

    vs = VS()

    class _RV:
        value_store = vs
        is_source = False

    def Registry():
        return registry_over({node: _RV} if has_store else {})

    env = {"Call": graph.Call, "registry": Registry(), "progress_observer": tr, "process": process, "get_full_call_scope": _graph.get_full_call_scope,
           "fully_qualified_name": util.fully_qualified_name, "create_chained_call_error": errors.create_chained_call_error, "NodeError": errors.NodeError}
    get(REL, "_get_stale_scope").compile_into(env)
    f = get(REL, "_get_stale_nodes.<locals>.process_with_callbacks").compile_into(env)
    kind, val = _catch(ctx, lambda: f(node))
    ctx.check("process(node)-called-exactly-once", bool(calls == [node]), props=["C05", "C15"])
    e = raised.get("e")
    if k == 1:
        ctx.check("literal:no-notification", bool(tr.ev == []), props=["C15"])
        ctx.check("literal:outcome-of-process-passed-through", bool((kind == "ret" and e is None) or (kind == "raise" and val is e)))
        return "literal"
    s = ("outer", 7, util.fully_qualified_name(user_fn)) + ((util.fully_qualified_name(VS),) if has_store else ())
    running = ("running", "stale", s)
    if e is None:
        ctx.check("returns:trace==running.completed(stale,scope(+store-class))", bool(kind == "ret" and tr.ev == [running, ("completed", "stale", s)]), props=["C15"])
    elif isinstance(e, Boom):
        ok = (len(tr.ev) == 2 and tr.ev[0] == running and tr.ev[1][:3] == ("failed", "stale", s) and isinstance(tr.ev[1][3], errors.CallError)
              and tr.ev[1][3].call is node and tr.ev[1][3].__cause__ is e)
        ctx.check("Exception:trace==running.failed(CallError(node)-caused-by-the-very-exception)", bool(ok), props=["C15", "C19"])
        ctx.check("Exception:raises-NodeError(node)-from-the-very-exception", bool(kind == "raise" and isinstance(val, errors.NodeError) and val.node is node and val.__cause__ is e),
                  props=["C06", "C19"])
    else:
        ctx.check("BaseException:trace==running-only;propagates-unchanged", bool(tr.ev == [running] and kind == "raise" and val is e), props=["C15"])
    return "call"


@unit("stale._get_stale_nodes", props=["C05", "C10", "C13", "C14", "C18", "C03"], functions=[(REL, "_get_stale_nodes")],
      assumptions=["contracts of prune_source_literals, run_function_on_graph (own units)", "comprehensions over the node set act pointwise"],
      min_obligations=6)
def get_stale_nodes_unit(ctx):
    graph, util, errors, _graph = _real()
    log = []
    c1, c2, lit = graph.Call(user_fn), graph.Call(user_fn), graph.Literal(5)

    class Nodes:
        def __call__(self):
            return self

        def __vc_comp__(self, vc, key, elt, cond):
            out = {}
            for n in (c1, c2, lit):
                kk, vv = elt(n)
                out[kk] = vv
            log.append(("lookup-built", out))
            return out

    class Gr:
        nodes = Nodes()

    class P:
        def __init__(self, tag):
            self.tag, self.graph = tag, Gr()

    given, pruned = P("given"), P("pruned")
    REG_NODES = {lit}

    class Registry:
        def __contains__(self, n):
            return n in REG_NODES

    registry = Registry()

    def prune_source_literals(plan, *, inplace, predicate=None):
        log.append(("prune_source_literals", plan, inplace, predicate))
        return pruned

    FRESH_RAW, FRESH_NORM = object(), object()

    def _to_naive(v):
        log.append(("normalise", v))
        return FRESH_NORM if v is FRESH_RAW else v

    MW, OBS = object(), object()

    def RETRY(f):      # a decorator (callable), identified by identity
        return f

    stale_marks = {}

    def rfg(g, fn, *, worker_count=None, max_errors=0, scheduler=None):
        log.append(("rfg", g, fn, worker_count, max_errors, scheduler))
        # the engine ran process on every node: emulate an arbitrary outcome through the closure's lookups
        if ctx.choose(2, "engine") == 1:
            raise errors.NodeError(c1)
        built = [e[1] for e in log if e[0] == "lookup-built"]
        if built:
            sl = built[0]
            if c2 in sl and hasattr(sl[c2], "value"):
                sl[c2].value = True
                stale_marks[c2] = True

    class ItemsHook(dict):
        pass

    vc = VC(ctx)
    env = {"__vc": vc, "prune_source_literals": prune_source_literals, "_to_naive_utc_time": _to_naive, "Slot": util.Slot, "run_function_on_graph": rfg,
           "safe_max": None, "Call": graph.Call, "get_full_call_scope": _graph.get_full_call_scope, "NodeError": errors.NodeError,
           "create_chained_call_error": errors.create_chained_call_error, "_get_stale_scope": lambda n, r: ()}
    f = get(REL, "_get_stale_nodes", cut_comps=True).compile_into(env)
    kind, val = _catch(ctx, lambda: f(given, registry, retry=RETRY, max_workers=MW, fresh_time=FRESH_RAW, progress_observer=OBS))
    e = next((x for x in log if x[0] == "prune_source_literals"), None)
    ok = e is not None and e[1] is given and e[2] is False and callable(e[3])
    ctx.check("works-on-a-copy:prune_source_literals(plan,inplace=False,predicate)", bool(ok), props=["C13", "C05"])
    if ok:
        ctx.check("only-UNREGISTERED-source-literals-are-pruned", bool(e[3](c1) is True and e[3](lit) is False), props=["C05", "C09"])
    if not any(x[0] == "rfg" for x in log):
        # the function ended before handing the check to the engine (it built its lookups in a way the stand-ins of this unit do not support)
        ctx.unsupported(f"_get_stale_nodes did not reach run_function_on_graph in this unit's environment: {kind} {val!r}"[:300])
    nz = [x for x in log if x[0] == "normalise"]
    ctx.check("C18:fresh_time-normalised-once-before-the-check-runs", bool(len(nz) == 1 and nz[0][1] is FRESH_RAW and log.index(nz[0]) < [x[0] for x in log].index("rfg")), props=["C18"])
    r = next((x for x in log if x[0] == "rfg"), None)
    ok = r is not None and r[1] is pruned.graph and callable(r[2]) and r[3] is MW and r[5] == "cheap"
    ctx.check("C10:engine-runs-process_with_callbacks-on-the-pruned-copy-with-worker_count=max_workers,scheduler='cheap'", bool(ok), props=["C10", "C14"])
    ctx.check("max_errors-left-at-its-default(0):the-check-stops-at-the-first-failure", bool(r is not None and r[4] == 0), props=["C06"])
    built = [x[1] for x in log if x[0] == "lookup-built"]
    if not (len(built) == 2 and all(isinstance(v, util.Slot) for b in built for v in b.values())):
        # the per-node results are not kept in two dicts of Slots (e.g. one dict of records): the engine stand-in above cannot play the part of
        # process() on that representation - this contract does not apply, the per-node units and the probes decide
        ctx.unsupported("the stale check keeps its per-node results in another representation than two dicts of Slots")
    ok = len(built) == 2 and all(set(b) == {c1, c2, lit} for b in built) and all(isinstance(v, util.Slot) for b in built for v in b.values()) \
        and len({id(v) for b in built for v in b.values()}) == 6
    ctx.check("one-fresh-stale-slot-and-one-fresh-time-slot-per-node", bool(ok), props=["C05"])
    if kind == "ret":
        ctx.check("returns-exactly-the-nodes-whose-stale-slot-is-set", bool(val == {c2}), props=["C05"], info=repr(val))
    else:
        ctx.check("engine's-NodeError-propagates", bool(isinstance(val, errors.NodeError)), props=["C06"])
    return kind


@unit("stale._update_stale_totals", props=["C15"], functions=[(REL, "_update_stale_totals"), (REL, "_get_stale_scope")],
      assumptions=["collections.Counter counts; concrete multiset of calls (parametric)"], min_obligations=2, kind="concrete-parametric")
def update_stale_totals_unit(ctx):
    graph, util, errors, _graph = _real()
    tr = Trace()

    def f1():
        pass

    class VS:
        def __len__(self):      # a value store is a user object: it may well be falsy (the library must test 'is None', never truth)
            return 0

        pass

    vs = VS()
    nodes = [graph.Call(f1, scope=("a",)), graph.Call(f1, scope=("a",)), graph.Call(f1, scope=()), graph.Literal(1), graph.Call(f1, scope=("a",))]
    stored = {nodes[1], nodes[3]}
    k = ctx.choose(len(nodes) + 1, "n-nodes")
    nodes = nodes[:k]

    class _RV:
        value_store = vs
        is_source = False

    def Registry():
        return registry_over({n: _RV for n in stored})

    reg = Registry()

    class Gr:
        def nodes(self):
            return list(nodes)

    class Plan:
        graph = Gr()

    env = {"collections": collections, "get_full_call_scope": _graph.get_full_call_scope, "Call": graph.Call, "fully_qualified_name": util.fully_qualified_name}
    gss = get(REL, "_get_stale_scope").compile_into(env)
    f = get(REL, "_update_stale_totals", native_loops=(0,)).compile_into(env)
    f(Plan(), reg, tr)

    def spec_scope(n):
        s = (*n.scope, util.fully_qualified_name(n.fn))
        return s + ((util.fully_qualified_name(VS),) if n in stored else ())

    want = collections.Counter(spec_scope(n) for n in nodes if type(n) is graph.Call)
    got = collections.Counter()
    for e in tr.ev:
        if e[0] == "total" and e[1] == "stale":
            got[e[2]] += e[3]
    ctx.check("per-scope-'stale'-total==number-of-calls-examined-with-that-scope(+store-class)", bool(got == want and all(e[0] == "total" for e in tr.ev)))
    ctx.check("every-amount>=1,one-announcement-per-scope", bool(all(e[3] >= 1 for e in tr.ev) and len(tr.ev) == len(want)))


# ---------------------------------------------------------------------------------------------------
# bounded stand-in: the same per-node spec with a CONCRETE number of predecessors (0..3), so that the check
# does not depend on how the code walks the predecessors (generator expressions or explicit loops).  Symbolic
# in every time value; bounded in the number of predecessors.  Never counted as proved.
# ---------------------------------------------------------------------------------------------------
def run_process_bounded(ctx):
    """bounded: at most 3 predecessors per node; all time values symbolic, all None/stale combinations enumerated"""
    graph, util, errors, _graph = _real()
    log = []
    node = graph.Call(user_fn)
    npred = ctx.choose(4, "n-predecessors")
    preds = [graph.Call(user_fn) for _ in range(npred)]
    reg_kind = ctx.choose(3, "registry-entry")
    pstale = [ctx.choose(2, f"pred{i}-stale") == 1 for i in range(npred)]
    pM = [opt(ctx, f"M{i}") for i in range(npred)]
    mt = opt(ctx, "mt")
    fresh = opt(ctx, "fresh")
    raw = None if mt is None else RawTime(mt)

    class Store:
        def __len__(self):      # a value store is a user object: it may well be falsy (the library must test 'is None', never truth)
            return 0

        def get_modified_time(self):
            log.append(("get_modified_time",))
            return raw

        def read(self):
            log.append(("read",))

        def write(self, v):
            log.append(("write",))

    store = Store()

    class RVal:
        value_store = store
        is_source = reg_kind == 2

    def Registry():
        return registry_over({node: RVal} if reg_kind else {})

    class Gr:
        def predecessors(self, n):
            return iter(list(preds)) if n is node else iter(())

    class Plan:
        graph = Gr()

    def _max(*a, **kw):
        default = kw.get("default", "nodefault")
        xs = list(a[0]) if len(a) == 1 else list(a)
        if not xs:
            if default == "nodefault":
                raise ValueError("max() arg is an empty sequence")
            return default
        if not all(isinstance(x, STime) for x in xs):
            raise Unsupported("max over non-normalised times")
        t = xs[0].t
        for x in xs[1:]:
            t = z3.If(x.t > t, x.t, t)
        return STime(ctx, t)

    def _to_naive(v):
        log.append(("normalise", v))
        if v is None:
            return None
        if isinstance(v, RawTime):
            return v.inst
        raise Unsupported("normalising something that is not a store time")

    stale_slot, m_slot = util.Slot(False), util.Slot()
    sl = {node: stale_slot}
    ml = {node: m_slot}
    for p, s, m in zip(preds, pstale, pM):
        sl[p] = util.Slot(s)
        ml[p] = util.Slot(None if s else m)  # a stale predecessor carries no time
    vc = VC(ctx)
    env = {"__vc": vc, "max": _max, "_to_naive_utc_time": _to_naive, "retry": lambda f: f, "registry": Registry(), "plan": Plan,
           "stale_lookup": sl, "modified_time_lookup": ml, "fresh_time": fresh}
    get("_util/__init__.py", "safe_max", native_loops="all").compile_into(env)
    get(REL, "_get_stale_nodes.<locals>.process_no_stale_ancestor", native_loops="all").compile_into(env)
    process = get(REL, "_get_stale_nodes.<locals>.process", native_loops="all").compile_into(env)
    kind, val = _catch(ctx, lambda: process(node))
    ctx.check("bounded/process:no-exception", bool(kind == "ret"), info=repr(val))
    if kind != "ret":
        return "raise"
    anc = any(pstale)
    Ms = [m for m, s in zip(pM, pstale) if m is not None and not s]
    has_store, is_source = reg_kind != 0, reg_kind == 2
    if anc:
        spec = z3.BoolVal(True)
        A = None
    else:
        A = None
        if Ms:
            t = Ms[0].t
            for x in Ms[1:]:
                t = z3.If(x.t > t, x.t, t)
            A = STime(ctx, t)
        if not has_store:
            spec = z3.BoolVal(False)
        elif mt is None:
            spec = z3.BoolVal(True)
        elif A is None and is_source:
            spec = z3.BoolVal(False)
        else:
            mx = mt.t
            for o in (A, fresh):
                if o is not None:
                    mx = z3.If(o.t > mx, o.t, mx)
            spec = mx > mt.t
    if sl.get(node) is not stale_slot or ml.get(node) is not m_slot:
        ctx.unsupported("process() does not keep its per-node results in the Slot cells of stale_lookup / modified_time_lookup")
    got = stale_slot.value
    ctx.check("bounded/post:stale_lookup[n]==Stale(n)", (spec if got is True else z3.Not(spec)) if isinstance(got, bool) else False, info=f"stale slot = {got!r}")
    if got is False:
        want = A if not has_store else mt
        m = m_slot.value
        if want is None:
            ctx.check("bounded/post:not-stale=>M(n)(None-case)", bool(m is None))
        else:
            ctx.check("bounded/post:not-stale=>M(n)", bool(isinstance(m, STime)) and (m.t == want.t if isinstance(m, STime) else False))
    ctx.check("bounded/C14:store-never-read-or-written", bool(not any(e[0] in ("read", "write") for e in log)))
    return "ok"


unit("stale.process[bounded<=3-predecessors]", props=["C05", "C03", "C08", "C14"],
     functions=[(REL, "_get_stale_nodes.<locals>.process"), (REL, "_get_stale_nodes.<locals>.process_no_stale_ancestor"), ("_util/__init__.py", "safe_max")],
     assumptions=["bounded stand-in: number of predecessors <= 3"], min_obligations=3, kind="bounded", max_paths=200000)(run_process_bounded)


from .sysprobe import replay_for as _replay_for  # noqa: E402

def _replay_f6(ob):
    return __import__("contracts.tracebacks", fromlist=["_replay_f6"])._replay_f6(ob)


REPLAYS = [("stale.process_with_callbacks/Exception:*", _replay_f6), ("stale.*", _replay_for(['C03', 'C05', 'C15', 'C14'], 1500))]
