"""Proxies for node containers and the (immutable) graph view used by the sequential units of the engine.

Abstractions (T5 for the networkx side):
  graph.pred[v] / graph.succ[v]   - views keyed by DISTINCT neighbours: len = card(pred(v)); iteration yields
                                     each distinct neighbour once (only inside a cut loop)
  graph / graph.nodes / graph.nodes()  - the node set N
  graph.in_degree(v)               - number of in-EDGES (>= card(pred(v)), parallel edges counted)
  a python list of nodes           - a BAG: mult : Node -> Int  (order is irrelevant for safety)
  a python set of nodes            - Array(Node, Bool)
  a python dict node -> int        - (dom : set, val : Array(Node, Int))
"""
from ujvc.core import Unsupported
from ujvc.vc import SBool, SInt
from ujvc.z3env import z3

from . import gstate as G
from .gstate import Node, member, insert

nedges_in = z3.Function("nedges_in", Node, z3.IntSort())
BagN = z3.ArraySort(Node, z3.IntSort())


class SNode:
    def __init__(self, t, name="n"):
        self.t, self.name = t, name

    def __repr__(self):
        return f"<node {self.t}>"


def node_t(x):
    if isinstance(x, SNode):
        return x.t
    t = getattr(x, "t", None)
    if t is not None and z3.is_expr(t) and t.sort() == Node:
        return t
    raise Unsupported(f"expected a symbolic node, got {type(x).__name__}")


class SymSet:
    def __init__(self, ctx, t=None):
        self.ctx = ctx
        self.t = G.EMPTY if t is None else t

    def add(self, x):
        self.t = insert(self.t, node_t(x))

    def __contains__(self, x):
        return self.ctx.branch(member(self.t, node_t(x)), "in-set")

    def __iter__(self):
        raise Unsupported("iteration over a symbolic set outside a cut loop")


class SymBag:
    """python list used as a bag of nodes"""

    def __init__(self, ctx, mult=None, length=None):
        self.ctx = ctx
        self.mult = z3.K(Node, z3.IntVal(0)) if mult is None else mult
        self.length = z3.IntVal(0) if length is None else length

    def append(self, x):
        t = node_t(x)
        self.mult = z3.Store(self.mult, t, z3.Select(self.mult, t) + 1)
        self.length = self.length + 1

    def __vc_len__(self):
        return SInt(self.ctx, self.length)

    def __iter__(self):
        raise Unsupported("iteration over a symbolic list outside a cut loop")


class SymDict:
    def __init__(self, ctx, dom=None, val=None):
        self.ctx = ctx
        self.dom = G.EMPTY if dom is None else dom
        self.val = z3.K(Node, z3.IntVal(0)) if val is None else val

    def __setitem__(self, k, v):
        t = node_t(k)
        if isinstance(v, int):
            v = SInt(self.ctx, z3.IntVal(v))
        if not isinstance(v, SInt):
            raise Unsupported("dict value is not an integer")
        self.dom = insert(self.dom, t)
        self.val = z3.Store(self.val, t, v.t)

    def __getitem__(self, k):
        t = node_t(k)
        self.ctx.check("defined:dict-lookup", member(self.dom, t), info="KeyError")
        return SInt(self.ctx, z3.Select(self.val, t))

    def __contains__(self, k):
        return self.ctx.branch(member(self.dom, node_t(k)), "in-dict")


class NeighbourView:
    """graph.pred[v] or graph.succ[v]"""

    def __init__(self, ctx, setterm, kind, of):
        self.ctx, self.t, self.kind, self.of = ctx, setterm, kind, of

    def __vc_len__(self):
        self.ctx.assume(G.L_card_nonneg(self.t))
        return SInt(self.ctx, G.card(self.t))

    def __bool__(self):
        self.ctx.assume(G.L_card_nonneg(self.t))
        self.ctx.assume(G.L_card_zero(self.t))
        x = z3.Const("x!nv", Node)
        return self.ctx.branch(G.card(self.t) != 0, f"{self.kind}-nonempty")


class _Adj:
    def __init__(self, g, fn, kind):
        self.g, self.fn, self.kind = g, fn, kind

    def __getitem__(self, v):
        return NeighbourView(self.g.ctx, self.fn(node_t(v)), self.kind, node_t(v))


class NodesView:
    def __init__(self, g):
        self.g = g

    def __call__(self):
        return self

    def __iter__(self):
        raise Unsupported("iteration over graph.nodes outside a cut loop")


class StaticGraph:
    """immutable graph view: N, pred, succ (distinct neighbours)"""

    def __init__(self, ctx, N=None):
        self.ctx = ctx
        self.N = ctx.fresh(G.SetN, "N") if N is None else N
        self.pred = _Adj(self, G.pred, "pred")
        self.succ = _Adj(self, G.succ, "succ")
        self.nodes = NodesView(self)
        for a in G.graph_axioms():
            ctx.assume(a)
        # edges stay inside the node set
        u, v = z3.Const("u!gn", Node), z3.Const("v!gn", Node)
        ctx.assume(z3.ForAll([u, v], z3.Implies(member(G.pred(v), u), z3.And(member(self.N, u), member(self.N, v)))))

    def __iter__(self):
        raise Unsupported("iteration over the graph outside a cut loop")

    def predecessors(self, v):
        return NeighbourView(self.ctx, G.pred(node_t(v)), "pred", node_t(v))

    def successors(self, v):
        return NeighbourView(self.ctx, G.succ(node_t(v)), "succ", node_t(v))

    def in_degree(self, v):
        t = node_t(v)
        self.ctx.assume(nedges_in(t) >= G.card(G.pred(t)))
        return SInt(self.ctx, nedges_in(t))


class ContainerVC:
    """mixin for VC: R8 constructors"""

    def new_list(self):
        return SymBag(self.ctx)

    def new_set(self):
        return SymSet(self.ctx)

    def new_dict(self):
        return SymDict(self.ctx)
