"""Sidecar contracts for the file stores' read/write pairs, MountedStore and get_modified_time
(property C12).

What is proved about the repository is the *plumbing*: the real ``write`` is executed on the ghost file
system (no faults), then the real ``read`` on the result, and the value that comes back is computed from
the arguments the real code passed to ``open`` and to the (de)serialiser:

    read_back = Rd[mode_r, encoding_r, newline_r, loader]( W[mode_w, encoding_w, newline_w, dumper](v) )

Obligation: read_back == v for every v in the store's domain.  Assumed (T8; the stdlib is not under
contract): codecs are injective on their domain, so text survives iff the same encoding object is passed
on both sides; ``json.load . json.dump`` and ``pickle.load . pickle.dump`` are the identity on their
domains; the text layer translates as documented for the ``newline`` argument on POSIX:
    write: newline in (None, "", "\\n") -> no translation;  "\\r" / "\\r\\n" -> "\\n" replaced
    read:  newline=None -> "\\r" and "\\r\\n" become "\\n" (identity iff the text contains no "\\r");
           any other value -> no translation
``json.dump`` output contains no "\\r" (control characters are escaped, indentation uses "\\n").
The value's "contains a carriage return" is a symbolic Boolean, so "every str" includes those that do.
"""
import contextlib
import textwrap

from ujvc.core import EngineSignal
from ujvc.units import get, unit, user_value
from ujvc.vc import BoolS, IntS, SInt
from ujvc.z3env import z3

from .filestore import REL, STORES, GhostFS, Handle, _Self, fs_env
from .times import SDateTime

MOUNT = "stores/_mounted_store.py"


class ReadHandle:
    def __init__(self, gfs, path, mode, kwargs):
        self.gfs, self.path, self.mode, self.kwargs = gfs, path, mode, kwargs

    def __enter__(self):
        return self

    def __exit__(self, *a):
        return False

    def close(self):          # an explicit close() instead of a with-statement
        return None

    def read(self, n=None):
        f = self.gfs.fs[self.path]
        return ReadBack(f, self.mode, self.kwargs, n)


class ReadBack:
    """what a read() of the file returns, as a description to be interpreted at the end"""

    def __init__(self, file, mode, kwargs, n):
        self.file, self.mode, self.kwargs, self.n = file, mode, kwargs, n

    def __bool__(self):  # TouchFileStore: `if inputfile.read(1):`
        if "b" in self.mode and self.n == 1:
            return len(self.file.chunks) > 0
        raise AssertionError("truth value of read data outside the touch-store pattern")


class Loaded:
    def __init__(self, loader, handle):
        self.loader, self.handle = loader, handle


class RoundTripFS(GhostFS):
    """ghost FS without faults (C11 covers those) that also records how files were opened for writing"""

    def __init__(self, ctx, target, with_stale_staging=False):
        super().__init__(ctx, target, with_old=False, with_stale_staging=with_stale_staging, die=False, props=("C12",))
        self.write_kwargs = {}

    def touch(self, p, exist_ok=True):
        super().touch(p, exist_ok=exist_ok)
        self.write_kwargs.setdefault(str(p), ("touch", {}))

    def outcome(self, n, label):
        return 0

    def phi(self, where):
        pass

    def open(self, path, mode="r", **kwargs):
        p = str(path)
        if "w" in mode:
            h = super().open(path, mode, **kwargs)
            self.fs[p].origin = ("written", mode, tuple(sorted(kwargs.items(), key=lambda kv: kv[0])))
            self.write_kwargs[p] = (mode, kwargs)
            return h
        self.open_log.append((p, mode, dict(kwargs), type(path)))
        if p not in self.fs:
            raise FileNotFoundError(p)
        return ReadHandle(self, p, mode, kwargs)


def _rt_env(gfs):
    env = fs_env(gfs)

    class _json:
        dump = staticmethod(lambda value, f, **kw: f.write(("json.dump", value, tuple(sorted(kw.items())))))
        load = staticmethod(lambda f, **kw: Loaded("json.load", f))

    class _pickle:
        dump = staticmethod(lambda value, f, **kw: f.write(("pickle.dump", value, tuple(sorted(kw.items())))))
        load = staticmethod(lambda f, **kw: Loaded("pickle.load", f))

    env["json"], env["pickle"] = _json, _pickle
    return env


def _text_identity(ctx, wmode, wkw, rmode, rkw, has_cr, label):
    """obligations for a text-mode round trip; returns True iff concrete plumbing part holds"""
    ok = "b" not in wmode and "b" not in rmode
    ctx.check(f"{label}/plumbing:text-mode-on-both-sides", bool(ok))
    ctx.check(f"{label}/plumbing:same-encoding-object", bool(wkw.get("encoding") is rkw.get("encoding")),
              info=f"write encoding={wkw.get('encoding')!r} read encoding={rkw.get('encoding')!r}")
    nw, nr = wkw.get("newline"), rkw.get("newline")
    ctx.check(f"{label}/newline:write-side-translation-is-identity", bool(nw in (None, "", "\n")))
    if nr is None:
        ctx.check(f"{label}/newline:read-side-translation-is-identity-on-the-domain", z3.Not(has_cr),
                  info="newline=None on read turns '\\r' and '\\r\\n' into '\\n'")
    else:
        ctx.check(f"{label}/newline:read-side-translation-is-identity-on-the-domain", True)


def _roundtrip_unit(cls):
    rel = STORES[cls]

    def run(ctx):
        pk = ctx.choose(2, "path-kind")
        import pathlib

        from .filestore import GhostPath

        target = "/d/target.txt" if pk == 0 else GhostPath("/d/target.txt")
        # a staging file left behind by a writer that was killed (any content): part of the environment a later write must cope with
        gfs = RoundTripFS(ctx, target, with_stale_staging=ctx.choose(2, "stale-staging") == 1)
        env = _rt_env(gfs)
        write = get(rel, f"{cls}.write").compile_into(env)
        read = get(rel, f"{cls}.read").compile_into(env)
        from ujvc.units import real_method_fallback

        class S(_Self):     # helper methods a refactoring may add to the store class are taken from the real class and verified inline
            __getattr__ = real_method_fallback(rel, cls, env, native_loops="all")

        s = S()
        s.path = target
        s.encoding = object() if ctx.choose(2, "encoding") == 0 else None
        value = None if cls == "TouchFileStore" else user_value("stored")
        has_cr = ctx.fresh(BoolS, "value_contains_CR")
        write(s, value)
        f = gfs.fs.get(gfs.target)
        ctx.check(f"{cls}/write:creates-target", bool(f is not None))
        if f is None:
            return "no-file"
        from .runphys import _catch

        n_before_read = len(gfs.open_log)
        kind, r = _catch(ctx, lambda: read(s))
        n_after_read = len(gfs.open_log)
        ctx.check(f"{cls}/read:succeeds-through-the-modelled-file-operations-after-a-write", bool(kind == "ret"),
                  info=f"read raised {r!r}: the file is not accessed through open() on the path that was written")
        if kind != "ret":
            return "read-failed"
        wpaths = list(gfs.write_kwargs)
        # whatever the staging file is called, it is private to this target: a sibling store whose target differs only in its extension
        # (result.txt / result.dat, the layout the documentation uses) stages somewhere else, and nobody stages into a target
        s2 = S()
        s2.path = type(target)("/d/target.dat")
        s2.encoding = s.encoding
        kind2, _r2 = _catch(ctx, lambda: write(s2, value))
        wpaths2 = [p for p in gfs.write_kwargs if p not in wpaths]
        ctx.check(f"{cls}/write:stages-into-a-file-private-to-this-target(<target>.STAGING)",
                  bool(len(wpaths) == 1 and kind2 == "ret" and len(wpaths2) == 1 and not ({wpaths[0], wpaths2[0]} & {gfs.target, "/d/target.dat"})),
                  info=f"opened for writing: {wpaths} then {wpaths2} for the sibling; two stores whose targets differ must never share a staging file")
        wmode, wkw = gfs.write_kwargs[wpaths[0]] if wpaths else ("", {})
        reads = [e for e in gfs.open_log[n_before_read:n_after_read] if "w" not in e[1]]      # what read() itself opened
        ctx.check(f"{cls}/read:opens-the-same-path-once", bool(len(reads) == 1 and reads[0][0] == gfs.target))
        if cls == "TouchFileStore":
            ctx.check(f"{cls}/roundtrip:None-comes-back", bool(r is None and f.chunks == ()))
            return "ok"
        if cls in ("TextFileStore", "BinaryFileStore"):
            ok = isinstance(r, ReadBack) and r.n is None and r.file is f and f.chunks == (("full", value),)
            ctx.check(f"{cls}/roundtrip:reads-whole-file-holding-exactly-the-value", bool(ok))
            if not ok:
                return "bad"
            if cls == "BinaryFileStore":
                ctx.check(f"{cls}/plumbing:binary-mode-on-both-sides", bool("b" in wmode and "b" in r.mode))
            else:
                _text_identity(ctx, wmode, wkw, r.mode, r.kwargs, has_cr, cls)
            return "ok"
        # json / pickle
        dumper, loader = ("json.dump", "json.load") if cls == "JsonFileStore" else ("pickle.dump", "pickle.load")
        ok = (isinstance(r, Loaded) and r.loader == loader and isinstance(r.handle, ReadHandle) and r.handle.path == gfs.target
              and len(f.chunks) == 1 and f.chunks[0][0] == "full" and f.chunks[0][1][0] == dumper and f.chunks[0][1][1] is value)
        ctx.check(f"{cls}/roundtrip:{loader}-of-the-file-written-by-{dumper}-of-the-value", bool(ok))
        if not ok:
            return "bad"
        if cls == "PickleFileStore":
            ctx.check(f"{cls}/plumbing:binary-mode-on-both-sides", bool("b" in wmode and "b" in r.handle.mode))
        else:
            # T8: json.dump output contains no carriage return
            _text_identity(ctx, wmode, wkw, r.handle.mode, r.handle.kwargs, z3.BoolVal(False), cls)
        return "ok"

    return run


for _cls, _rel in STORES.items():
    unit(
        f"stores.{_cls}.roundtrip",
        props=["C12"],
        functions=[(_rel, f"{_cls}.write"), (_rel, f"{_cls}.read"), (REL, "staged_write"), (REL, "staged_write_path")],
        assumptions=["T8 codecs injective; json/pickle load.dump = id on their domains; text-layer newline translation as documented (POSIX)"],
        min_obligations=3,
    )(_roundtrip_unit(_cls))


@unit("stores.TouchFileStore.read-nonempty", props=["C12"], functions=[(STORES["TouchFileStore"], "TouchFileStore.read")], min_obligations=1)
def touch_read_nonempty(ctx):
    from .filestore import File

    gfs = RoundTripFS(ctx, "/d/target")
    gfs.fs["/d/target"] = File((("full", b"x"),), True, 3, "other")
    env = _rt_env(gfs)
    read = get(STORES["TouchFileStore"], "TouchFileStore.read").compile_into(env)
    s = _Self()
    s.path = "/d/target"
    try:
        read(s)
        ctx.check("non-empty-touch-file-raises-OSError", False)
    except OSError:
        ctx.check("non-empty-touch-file-raises-OSError", True)


# ---------------------------------------------------------------------------------------
# get_modified_time
# ---------------------------------------------------------------------------------------
@unit(
    "stores.get_modified_time",
    props=["C12", "C18"],
    functions=[(REL, "get_modified_time"), (REL, "FileStore.get_modified_time")],
    assumptions=["T8 os.path.getmtime raises OSError iff the path is missing or inaccessible", "T10 datetime.fromtimestamp(t) is the naive local time of instant t with the correct fold"],
    min_obligations=3,
)
def get_modified_time_unit(ctx):
    from .times import localoffset

    o = ctx.choose(3, "getmtime")  # 0 exists, 1 missing, 2 inaccessible
    t = ctx.fresh(IntS, "mtime")
    calls = []

    class _path:
        @staticmethod
        def getmtime(p):
            calls.append(p)
            if o == 1:
                raise FileNotFoundError(p)
            if o == 2:
                raise PermissionError(p)
            return SInt(ctx, t)

    class _StatResult:
        """os.stat(path): only st_mtime is modelled (seconds, like os.path.getmtime); st_mtime_ns etc. are not: undecided"""

        @property
        def st_mtime(self):
            return SInt(ctx, t)

    class _os:
        path = _path

        @staticmethod
        def stat(p, *a, **k):
            _path.getmtime(p)       # same existence / access outcomes, same log entry
            return _StatResult()

    class _datetime:
        @staticmethod
        def fromtimestamp(x, tz=None):
            if tz is not None or not isinstance(x, SInt):
                ctx.unsupported("fromtimestamp with tz")
            fields = ctx.fresh(IntS, "fields")
            fold = ctx.fresh(BoolS, "fold")
            ctx.assume(fields - localoffset(fields, fold) == x.t)  # T10
            return SDateTime(ctx, fields, False, None, fold)

    class _dt:
        datetime = _datetime

    env = {"os": _os, "dt": _dt}
    gmt = get(REL, "get_modified_time").compile_into(env)
    menv = dict(env)
    method = get(REL, "FileStore.get_modified_time").compile_into(menv)
    menv["get_modified_time"] = gmt  # the method's body refers to the module-level function of the same name
    s = _Self()
    s.path = "/d/target"
    r = method(s)
    ctx.check("FileStore.get_modified_time/queries-its-own-path-once", bool(calls == ["/d/target"]))
    if o == 0:
        ok = isinstance(r, SDateTime)
        ctx.check("get_modified_time/stored=>not-None", bool(ok))
        if ok:
            ctx.check("get_modified_time/denotes-the-file's-mtime-instant", r.instant() == t)
    else:
        ctx.check("get_modified_time/missing-or-inaccessible=>None", bool(r is None))


# ---------------------------------------------------------------------------------------
# MountedStore
# ---------------------------------------------------------------------------------------
@unit(
    "stores.MountedStore",
    props=["C12"],
    functions=[(MOUNT, "MountedStore.read"), (MOUNT, "MountedStore.write"), (MOUNT, "_path_context")],
    assumptions=["T7 copy_to_local / copy_from_local copy faithfully; create_store(path) returns a store satisfying its own round-trip contract",
                 "T8 tempfile.TemporaryDirectory / mkdtemp / mkstemp / NamedTemporaryFile give a fresh name on every call",
                 "store operations of one run execute concurrently (C10), so a local path shared between two operations can carry another store's bytes"],
    min_obligations=6,
)
def mounted_store_unit(ctx):
    """two operations in a row (each a read or a write); per operation: the underlying store is created on a local path, used once, the
    copy happens on the right side of it with the SAME path, and that path lies in a directory (or is a file) that tempfile created
    during THIS operation - private to it"""
    import os as real_os

    from ujvc.units import base_env

    log = []
    made = []  # (operation index, name) of every fresh temp name
    cur = {"op": None}

    def fresh(kind):
        d = f"/tmp/{kind}{len(made)}"
        made.append((cur["op"], d))
        log.append(("tempfile." + kind, d))
        return d

    class _TD:
        def __init__(self, *a, **k):
            self.name = fresh("TemporaryDirectory")

        def __enter__(self):
            return self.name

        def __exit__(self, *a):
            log.append(("tempdir-exit", self.name))
            return False

        def cleanup(self):
            log.append(("tempdir-exit", self.name))

    class _NTF:
        def __init__(self, *a, **k):
            self.name = fresh("NamedTemporaryFile")

        def __enter__(self):
            return self

        def __exit__(self, *a):
            return False

        def close(self):
            pass

    class _tempfile:
        TemporaryDirectory = _TD
        NamedTemporaryFile = _NTF
        mkdtemp = staticmethod(lambda *a, **k: fresh("mkdtemp"))
        mkstemp = staticmethod(lambda *a, **k: (99, fresh("mkstemp")))
        gettempdir = staticmethod(lambda: "/tmp")

    class _os:
        path = real_os.path
        sep = real_os.sep
        getpid = staticmethod(lambda: 4242)
        remove = staticmethod(lambda p_: log.append(("os.remove", p_)))
        unlink = staticmethod(lambda p_: log.append(("os.remove", p_)))
        close = staticmethod(lambda fd: None)
        rmdir = staticmethod(lambda p_: log.append(("os.rmdir", p_)))
        makedirs = staticmethod(lambda p_, **k: log.append(("os.makedirs", p_)))

    class _atexit:
        register = staticmethod(lambda f, *a, **k: f)

    class _shutil:
        rmtree = staticmethod(lambda p_, **k: log.append(("shutil.rmtree", p_)))

    import threading as _threading

    env = base_env(MOUNT)
    env.update({"tempfile": _tempfile, "os": _os, "contextmanager": contextlib.contextmanager, "atexit": _atexit, "shutil": _shutil, "threading": _threading})
    try:
        get(MOUNT, "_path_context").compile_into(env)
    except Exception as e:  # noqa: BLE001  (the helper may have been inlined into read / write: then there is nothing to supply)
        if type(e).__name__ != "ExtractionError":
            raise
    read = get(MOUNT, "MountedStore.read").compile_into(env)
    write = get(MOUNT, "MountedStore.write").compile_into(env)
    RESULT, VALUE = user_value("result"), user_value("value")

    class Under:
        def __init__(self, p):
            self.p = p

        def read(self):
            log.append(("under.read", self.p))
            return RESULT

        def write(self, v):
            log.append(("under.write", self.p, v))

    def mk_store():
        s = _Self()
        s.copy_to_local = lambda p: log.append(("copy_to_local", p))
        s.copy_from_local = lambda p: log.append(("copy_from_local", p))
        s.create_store = lambda p: (log.append(("create_store", p)), Under(p))[1]
        return s

    locals_used = []
    for op in (0, 1):
        cur["op"] = op
        which = ctx.choose(2, f"op{op}")
        del log[:]
        s = mk_store()
        name = "write" if which == 0 else "read"
        r = write(s, VALUE) if which == 0 else read(s)
        core = [e for e in log if e[0] in ("create_store", "under.write", "under.read", "copy_from_local", "copy_to_local")]
        p = core[0][1] if core else None
        if which == 0:
            ok = core == [("create_store", p), ("under.write", p, VALUE), ("copy_from_local", p)]
            ctx.check("MountedStore.write/stage-locally-then-copy-out:create_store(p).write(value)-then-copy_from_local(p)-same-path-each-once", bool(ok), info=str(log))
            ctx.check("MountedStore.write/returns-None", bool(r is None))
        else:
            ok = core == [("copy_to_local", p), ("create_store", p), ("under.read", p)]
            ctx.check("MountedStore.read/copy-in-then-read:copy_to_local(p)-then-create_store(p).read()-same-path-each-once", bool(ok), info=str(log))
            ctx.check("MountedStore.read/returns-what-the-underlying-store-read", bool(r is RESULT))
        mine = [d for o, d in made if o == op]
        private = isinstance(p, str) and any(p == d or p.startswith(d + "/") for d in mine)
        ctx.check(f"MountedStore.{name}/local-path-is-private-to-this-operation(inside-a-temp-name-created-during-it)", bool(private),
                  info=f"local path {p!r}; temp names created during this operation: {mine}; earlier: {[d for o, d in made if o != op]}")
        locals_used.append(p)
    ctx.check("MountedStore/two-operations-never-share-a-local-path", bool(locals_used[0] != locals_used[1]), info=str(locals_used))


MOUNTED_SCRIPT = textwrap.dedent(
    """
    import os, sys, threading
    import uberjob
    from uberjob.stores import JsonFileStore
    from uberjob.stores._mounted_store import MountedStore

    remote = {}
    a_in_copy, b_written = threading.Event(), threading.Event()

    class Mem(MountedStore):
        def __init__(self, name):
            super().__init__(JsonFileStore); self.name = name
        def copy_from_local(self, local_path):
            if self.name == "A":
                a_in_copy.set(); b_written.wait(5)      # B's local write lands while A is copying out
            else:
                b_written.set()
            with open(local_path, "rb") as f: remote[self.name] = f.read()
        def copy_to_local(self, local_path):
            with open(local_path, "wb") as f: f.write(remote[self.name])
        def get_modified_time(self): return None

    A, B = Mem("A"), Mem("B")
    def write_b():
        a_in_copy.wait(5); B.write({"value": "B"})
    t = threading.Thread(target=write_b); t.start()
    A.write({"value": "A"}); t.join()
    got_a, got_b = A.read(), B.read()
    if got_a != {"value": "A"} or got_b != {"value": "B"}:
        print("C12 violated: two mounted stores written concurrently: A reads back", got_a, "B reads back", got_b); sys.exit(1)
    print("ok"); sys.exit(0)
    """
)


def _replay_mounted(ob):
    import os
    import subprocess

    from ujvc.z3env import REPO_SRC

    p = __import__('ujvc.units', fromlist=['run_native_p']).run_native_p(["/venv/bin/python", "-c", MOUNTED_SCRIPT], env=dict(os.environ, PYTHONPATH=REPO_SRC), timeout=120)
    return {"reproduced": p.returncode == 1, "detail": (p.stdout + p.stderr)[-2000:], "script": MOUNTED_SCRIPT}


# ---------------------------------------------------------------------------------------
# native replay / bounded validation of the assumed stdlib contracts
# ---------------------------------------------------------------------------------------
REPLAY_SCRIPT = textwrap.dedent(
    '''
    import os, sys, tempfile, pathlib, random
    from uberjob.stores import JsonFileStore, PickleFileStore, TextFileStore, BinaryFileStore, TouchFileStore
    rnd = random.Random(int(os.environ.get("VERIF_SEED", "0")))
    bad = []
    def texts():
        yield from ["", "a\\rb\\r\\nc", "\\r", "\\n", "\\r\\n", "x\\x85y\\u2028z", "\\x00\\x1a", "\\ud7ff\\ue000", "é" * 1000]
        for _ in range(300):
            yield "".join(rnd.choice("ab\\r\\n\\t\\x0b\\x0c\\x1c\\x85\\u2028\\u2029é\\U0001F600 ") for _ in range(rnd.randrange(0, 12)))
    def jsons(d=0):
        base = [None, True, False, 0, -1, 2**70, 1.5, "", "a\\rb", "\\u2028", [], {}]
        yield from base
        for _ in range(100):
            v = rnd.choice(base)
            for _ in range(rnd.randrange(0, 4)):
                v = rnd.choice([[v, 1], {"k\\r": v}, {"a": v, "b": [v]}])
            yield v
    with tempfile.TemporaryDirectory() as d:
        for mk in (str, pathlib.Path):
            p = mk(os.path.join(d, "f"))
            for enc in (None, "utf-8", "utf-16", "latin-1"):
                for s in texts():
                    try: s.encode(enc or "utf-8")
                    except UnicodeError: continue
                    st = TextFileStore(p, encoding=enc); st.write(s); r = st.read()
                    if r != s or type(r) is not str: bad.append(("TextFileStore", enc, s, r)); break
                for v in jsons():
                    st = JsonFileStore(p, encoding=enc); st.write(v); r = st.read()
                    if r != v or type(r) is not type(v): bad.append(("JsonFileStore", enc, v, r)); break
            for b in [b"", b"\\r\\n", bytes(range(256))]:
                st = BinaryFileStore(p); st.write(b); r = st.read()
                if r != b or type(r) is not bytes: bad.append(("BinaryFileStore", b, r))
            for v in [None, (1, "a\\r"), {"x": [1, 2.5, b"\\r"]}, frozenset([1]), "a\\rb"]:
                st = PickleFileStore(p); st.write(v); r = st.read()
                if r != v or type(r) is not type(v): bad.append(("PickleFileStore", v, r))
            st = TouchFileStore(mk(os.path.join(d, "t" + mk.__name__)))
            if st.get_modified_time() is not None: bad.append(("TouchFileStore", "mtime before write"))
            st.write(None)
            if st.read() is not None or st.get_modified_time() is None: bad.append(("TouchFileStore", "roundtrip"))
            m1 = st.get_modified_time(); st.write(None); m2 = st.get_modified_time()
            if m2 < m1: bad.append(("TouchFileStore", "mtime decreased", m1, m2))
            # "None exactly when nothing is stored": whatever the file's modified time is (epoch 0, far past, far future, fractional)
            jp = mk(os.path.join(d, "m" + mk.__name__)); js = JsonFileStore(jp); js.write([1])
            prev = None
            for ts in (0, 0.0, 0.5, 1, 86400 * 365.25 * 30 + 0.25, 2**31 + 0.75, 4102444800):
                os.utime(jp, (ts, ts)); m = js.get_modified_time()
                if m is None: bad.append(("get_modified_time", "None although a value is stored; file mtime", ts)); break
                if js.read() != [1]: bad.append(("read", "after utime", ts))
                if prev is not None and m < prev: bad.append(("get_modified_time", "not monotone in the file's mtime", ts, prev, m))
                prev = m
            os.remove(jp)
            if js.get_modified_time() is not None: bad.append(("get_modified_time", "not None although nothing is stored"))
    # through a MountedStore (a directory stands for the remote side): the same domain, including the values whose file is EMPTY
    import shutil, datetime
    from uberjob.stores import MountedStore
    class DirMounted(MountedStore):
        def __init__(self, create_store, remote):
            super().__init__(create_store); self.remote = remote
        def copy_to_local(self, local_path): shutil.copyfile(self.remote, local_path)
        def copy_from_local(self, local_path): shutil.copyfile(local_path, self.remote)
        def get_modified_time(self):
            try: return datetime.datetime.fromtimestamp(os.path.getmtime(self.remote))
            except OSError: return None
    with tempfile.TemporaryDirectory() as d:
        cases = [(TextFileStore, ["", "x", "a\\rb\\r\\nc", "\\n"]), (BinaryFileStore, [b"", b"\\x00", b"\\r\\n"]), (TouchFileStore, [None]),
                 (JsonFileStore, [None, 0, False, "", [], {}, [0], {"a": ""}]), (PickleFileStore, [None, 0, "", (), [], {}, b""])]
        for cls, values in cases:
            for i, v in enumerate(values):
                m = DirMounted(cls, os.path.join(d, "%s%d" % (cls.__name__, i)))
                if m.get_modified_time() is not None: bad.append(("MountedStore", cls.__name__, "mtime before write")); continue
                try:
                    m.write(v); r = m.read()
                except Exception as e:
                    bad.append(("MountedStore", cls.__name__, v, "raised " + repr(e))); continue
                if r != v or type(r) is not type(v): bad.append(("MountedStore", cls.__name__, v, r))
                if m.get_modified_time() is None: bad.append(("MountedStore", cls.__name__, v, "mtime None after write"))
    # the same path written again and again with values that are EQUAL but not the same (True == 1 == 1.0, 0 == False, [1] == [1.0], "" ...)
    with tempfile.TemporaryDirectory() as d:
        for cls, seq in ((JsonFileStore, [True, 1, 1.0, True, 0, False, 0.0, [1, 2], [1.0, 2.0], [True, 2], {"a": 1}, {"a": True}, "", None, [], {}]),
                         (PickleFileStore, [True, 1, 1.0, (1,), [1], (1.0,), 0, False, "", b"", None, frozenset(), set()])):
            st = cls(os.path.join(d, cls.__name__))
            for v in seq:
                st.write(v); r = st.read()
                if r != v or type(r) is not type(v) or repr(r) != repr(v): bad.append((cls.__name__, "rewrite with an equal value of another type", v, r))
    for b in bad[:5]: print("C12 violated:", repr(b)[:300])
    sys.exit(1 if bad else 0)
    '''
)


def _replay(ob):
    import os
    import subprocess

    from ujvc.z3env import REPO_SRC

    p = __import__('ujvc.units', fromlist=['run_native_p']).run_native_p(["/venv/bin/python", "-c", REPLAY_SCRIPT], env=dict(os.environ, PYTHONPATH=REPO_SRC), timeout=300)
    return {"reproduced": p.returncode == 1, "detail": (p.stdout + p.stderr)[-3000:], "script": REPLAY_SCRIPT}


REPLAYS = [("stores.MountedStore*", _replay_mounted), ("stores.*", _replay)]


@unit("stores.native-roundtrip[bounded]", props=["C12"],
      functions=[(REL, "get_modified_time"), (REL, "FileStore.get_modified_time"), (MOUNT, "MountedStore.read"), (MOUNT, "MountedStore.write")]
      + [(STORES[c], f"{c}.read") for c in STORES] + [(STORES[c], f"{c}.write") for c in STORES],
      assumptions=["bounded stand-in: generated values (texts with every line terminator, JSON trees, pickles, bytes), 4 encodings, str and pathlib paths"],
      min_obligations=1, kind="bounded")
def stores_bounded(ctx):
    """bounded: real stores in a temporary directory over generated values; validates the assumed stdlib contracts (T8)"""
    r = _replay({})
    ctx.check("bounded/read-after-write-returns-an-equal-value-of-the-same-type", bool(not r["reproduced"]), info=r["detail"][-2000:])
