"""Sidecar contracts for the file stores' read/write pairs, MountedStore and get_modified_time
(property C12).

What is proved about the repository is the *plumbing*: the real ``write`` is executed on the ghost file
system (no faults), then the real ``read`` on the result, and the value that comes back is computed from
the arguments the real code passed to ``open`` and to the (de)serialiser:

    read_back = Rd[mode_r, encoding_r, newline_r, loader]( W[mode_w, encoding_w, newline_w, dumper](v) )

Obligation: read_back == v for every v in the store's domain.  Assumed (T8; the stdlib is not under
contract): codecs are injective on their domain, so text survives iff the same encoding object is passed
on both sides; ``json.load . json.dump`` and ``pickle.load . pickle.dump`` are the identity on their
domains; the text layer translates as documented for the ``newline`` argument on POSIX:
    write: newline in (None, "", "\\n") -> no translation;  "\\r" / "\\r\\n" -> "\\n" replaced
    read:  newline=None -> "\\r" and "\\r\\n" become "\\n" (identity iff the text contains no "\\r");
           any other value -> no translation
``json.dump`` output contains no "\\r" (control characters are escaped, indentation uses "\\n").
The value's "contains a carriage return" is a symbolic Boolean, so "every str" includes those that do.
"""
import contextlib
import textwrap

from ujvc.core import EngineSignal
from ujvc.units import get, unit
from ujvc.vc import BoolS, IntS, SInt
from ujvc.z3env import z3

from .filestore import REL, STORES, GhostFS, Handle, _Self, fs_env
from .times import SDateTime

MOUNT = "stores/_mounted_store.py"


class ReadHandle:
    def __init__(self, gfs, path, mode, kwargs):
        self.gfs, self.path, self.mode, self.kwargs = gfs, path, mode, kwargs

    def __enter__(self):
        return self

    def __exit__(self, *a):
        return False

    def read(self, n=None):
        f = self.gfs.fs[self.path]
        return ReadBack(f, self.mode, self.kwargs, n)


class ReadBack:
    """what a read() of the file returns, as a description to be interpreted at the end"""

    def __init__(self, file, mode, kwargs, n):
        self.file, self.mode, self.kwargs, self.n = file, mode, kwargs, n

    def __bool__(self):  # TouchFileStore: `if inputfile.read(1):`
        if "b" in self.mode and self.n == 1:
            return len(self.file.chunks) > 0
        raise AssertionError("truth value of read data outside the touch-store pattern")


class Loaded:
    def __init__(self, loader, handle):
        self.loader, self.handle = loader, handle


class RoundTripFS(GhostFS):
    """ghost FS without faults (C11 covers those) that also records how files were opened for writing"""

    def __init__(self, ctx, target):
        super().__init__(ctx, target, with_old=False, with_stale_staging=False, die=False, props=("C12",))
        self.write_kwargs = {}

    def outcome(self, n, label):
        return 0

    def phi(self, where):
        pass

    def open(self, path, mode="r", **kwargs):
        p = str(path)
        if "w" in mode:
            h = super().open(path, mode, **kwargs)
            self.fs[p].origin = ("written", mode, tuple(sorted(kwargs.items(), key=lambda kv: kv[0])))
            self.write_kwargs[p] = (mode, kwargs)
            return h
        self.open_log.append((p, mode, dict(kwargs), type(path)))
        if p not in self.fs:
            raise FileNotFoundError(p)
        return ReadHandle(self, p, mode, kwargs)


def _rt_env(gfs):
    env = fs_env(gfs)

    class _json:
        dump = staticmethod(lambda value, f, **kw: f.write(("json.dump", value, tuple(sorted(kw.items())))))
        load = staticmethod(lambda f, **kw: Loaded("json.load", f))

    class _pickle:
        dump = staticmethod(lambda value, f, **kw: f.write(("pickle.dump", value, tuple(sorted(kw.items())))))
        load = staticmethod(lambda f, **kw: Loaded("pickle.load", f))

    env["json"], env["pickle"] = _json, _pickle
    return env


def _text_identity(ctx, wmode, wkw, rmode, rkw, has_cr, label):
    """obligations for a text-mode round trip; returns True iff concrete plumbing part holds"""
    ok = "b" not in wmode and "b" not in rmode
    ctx.check(f"{label}/plumbing:text-mode-on-both-sides", bool(ok))
    ctx.check(f"{label}/plumbing:same-encoding-object", bool(wkw.get("encoding") is rkw.get("encoding")),
              info=f"write encoding={wkw.get('encoding')!r} read encoding={rkw.get('encoding')!r}")
    nw, nr = wkw.get("newline"), rkw.get("newline")
    ctx.check(f"{label}/newline:write-side-translation-is-identity", bool(nw in (None, "", "\n")))
    if nr is None:
        ctx.check(f"{label}/newline:read-side-translation-is-identity-on-the-domain", z3.Not(has_cr),
                  info="newline=None on read turns '\\r' and '\\r\\n' into '\\n'")
    else:
        ctx.check(f"{label}/newline:read-side-translation-is-identity-on-the-domain", True)


def _roundtrip_unit(cls):
    rel = STORES[cls]

    def run(ctx):
        pk = ctx.choose(2, "path-kind")
        import pathlib

        target = "/d/target.txt" if pk == 0 else pathlib.Path("/d/target.txt")
        gfs = RoundTripFS(ctx, target)
        env = _rt_env(gfs)
        write = get(rel, f"{cls}.write").compile_into(env)
        read = get(rel, f"{cls}.read").compile_into(env)
        s = _Self()
        s.path = target
        s.encoding = object() if ctx.choose(2, "encoding") == 0 else None
        value = None if cls == "TouchFileStore" else object()
        has_cr = ctx.fresh(BoolS, "value_contains_CR")
        write(s, value)
        f = gfs.fs.get(gfs.target)
        ctx.check(f"{cls}/write:creates-target", bool(f is not None))
        if f is None:
            return "no-file"
        from .runphys import _catch

        kind, r = _catch(ctx, lambda: read(s))
        ctx.check(f"{cls}/read:succeeds-through-the-modelled-file-operations-after-a-write", bool(kind == "ret"),
                  info=f"read raised {r!r}: the file is not accessed through open() on the path that was written")
        if kind != "ret":
            return "read-failed"
        wpaths = list(gfs.write_kwargs)
        ctx.check(f"{cls}/write:stages-into-a-file-private-to-this-target(<target>.STAGING)", bool(wpaths == [gfs.staging]),
                  info=f"opened for writing: {wpaths}; two stores whose targets differ must never share a staging file")
        wmode, wkw = gfs.write_kwargs[wpaths[0]] if wpaths else ("", {})
        reads = [e for e in gfs.open_log if "w" not in e[1]]
        ctx.check(f"{cls}/read:opens-the-same-path-once", bool(len(reads) == 1 and reads[0][0] == gfs.target))
        if cls == "TouchFileStore":
            ctx.check(f"{cls}/roundtrip:None-comes-back", bool(r is None and f.chunks == ()))
            return "ok"
        if cls in ("TextFileStore", "BinaryFileStore"):
            ok = isinstance(r, ReadBack) and r.n is None and r.file is f and f.chunks == (("full", value),)
            ctx.check(f"{cls}/roundtrip:reads-whole-file-holding-exactly-the-value", bool(ok))
            if not ok:
                return "bad"
            if cls == "BinaryFileStore":
                ctx.check(f"{cls}/plumbing:binary-mode-on-both-sides", bool("b" in wmode and "b" in r.mode))
            else:
                _text_identity(ctx, wmode, wkw, r.mode, r.kwargs, has_cr, cls)
            return "ok"
        # json / pickle
        dumper, loader = ("json.dump", "json.load") if cls == "JsonFileStore" else ("pickle.dump", "pickle.load")
        ok = (isinstance(r, Loaded) and r.loader == loader and isinstance(r.handle, ReadHandle) and r.handle.path == gfs.target
              and len(f.chunks) == 1 and f.chunks[0][0] == "full" and f.chunks[0][1][0] == dumper and f.chunks[0][1][1] is value)
        ctx.check(f"{cls}/roundtrip:{loader}-of-the-file-written-by-{dumper}-of-the-value", bool(ok))
        if not ok:
            return "bad"
        if cls == "PickleFileStore":
            ctx.check(f"{cls}/plumbing:binary-mode-on-both-sides", bool("b" in wmode and "b" in r.handle.mode))
        else:
            # T8: json.dump output contains no carriage return
            _text_identity(ctx, wmode, wkw, r.handle.mode, r.handle.kwargs, z3.BoolVal(False), cls)
        return "ok"

    return run


for _cls, _rel in STORES.items():
    unit(
        f"stores.{_cls}.roundtrip",
        props=["C12"],
        functions=[(_rel, f"{_cls}.write"), (_rel, f"{_cls}.read"), (REL, "staged_write"), (REL, "staged_write_path")],
        assumptions=["T8 codecs injective; json/pickle load.dump = id on their domains; text-layer newline translation as documented (POSIX)"],
        min_obligations=3,
    )(_roundtrip_unit(_cls))


@unit("stores.TouchFileStore.read-nonempty", props=["C12"], functions=[(STORES["TouchFileStore"], "TouchFileStore.read")], min_obligations=1)
def touch_read_nonempty(ctx):
    from .filestore import File

    gfs = RoundTripFS(ctx, "/d/target")
    gfs.fs["/d/target"] = File((("full", b"x"),), True, 3, "other")
    env = _rt_env(gfs)
    read = get(STORES["TouchFileStore"], "TouchFileStore.read").compile_into(env)
    s = _Self()
    s.path = "/d/target"
    try:
        read(s)
        ctx.check("non-empty-touch-file-raises-OSError", False)
    except OSError:
        ctx.check("non-empty-touch-file-raises-OSError", True)


# ---------------------------------------------------------------------------------------
# get_modified_time
# ---------------------------------------------------------------------------------------
@unit(
    "stores.get_modified_time",
    props=["C12", "C18"],
    functions=[(REL, "get_modified_time"), (REL, "FileStore.get_modified_time")],
    assumptions=["T8 os.path.getmtime raises OSError iff the path is missing or inaccessible", "T10 datetime.fromtimestamp(t) is the naive local time of instant t with the correct fold"],
    min_obligations=3,
)
def get_modified_time_unit(ctx):
    from .times import localoffset

    o = ctx.choose(3, "getmtime")  # 0 exists, 1 missing, 2 inaccessible
    t = ctx.fresh(IntS, "mtime")
    calls = []

    class _path:
        @staticmethod
        def getmtime(p):
            calls.append(p)
            if o == 1:
                raise FileNotFoundError(p)
            if o == 2:
                raise PermissionError(p)
            return SInt(ctx, t)

    class _os:
        path = _path

    class _datetime:
        @staticmethod
        def fromtimestamp(x, tz=None):
            if tz is not None or not isinstance(x, SInt):
                ctx.unsupported("fromtimestamp with tz")
            fields = ctx.fresh(IntS, "fields")
            fold = ctx.fresh(BoolS, "fold")
            ctx.assume(fields - localoffset(fields, fold) == x.t)  # T10
            return SDateTime(ctx, fields, False, None, fold)

    class _dt:
        datetime = _datetime

    env = {"os": _os, "dt": _dt}
    gmt = get(REL, "get_modified_time").compile_into(env)
    menv = dict(env)
    method = get(REL, "FileStore.get_modified_time").compile_into(menv)
    menv["get_modified_time"] = gmt  # the method's body refers to the module-level function of the same name
    s = _Self()
    s.path = "/d/target"
    r = method(s)
    ctx.check("FileStore.get_modified_time/queries-its-own-path-once", bool(calls == ["/d/target"]))
    if o == 0:
        ok = isinstance(r, SDateTime)
        ctx.check("get_modified_time/stored=>not-None", bool(ok))
        if ok:
            ctx.check("get_modified_time/denotes-the-file's-mtime-instant", r.instant() == t)
    else:
        ctx.check("get_modified_time/missing-or-inaccessible=>None", bool(r is None))


# ---------------------------------------------------------------------------------------
# MountedStore
# ---------------------------------------------------------------------------------------
@unit(
    "stores.MountedStore",
    props=["C12"],
    functions=[(MOUNT, "MountedStore.read"), (MOUNT, "MountedStore.write"), (MOUNT, "_path_context")],
    assumptions=["T7 copy_to_local / copy_from_local copy faithfully; create_store(path) returns a store satisfying its own round-trip contract",
                 "T8 tempfile.TemporaryDirectory gives a fresh directory"],
    min_obligations=4,
)
def mounted_store_unit(ctx):
    import os as real_os

    log = []
    dirs = []

    class _TD:
        def __enter__(self):
            d = f"/tmp/fresh{len(dirs)}"
            dirs.append(d)
            log.append(("tempdir-enter", d))
            return d

        def __exit__(self, *a):
            log.append(("tempdir-exit", dirs[-1]))
            return False

    class _tempfile:
        TemporaryDirectory = _TD

    env = {"tempfile": _tempfile, "os": real_os, "contextmanager": contextlib.contextmanager}
    get(MOUNT, "_path_context").compile_into(env)
    read = get(MOUNT, "MountedStore.read").compile_into(env)
    write = get(MOUNT, "MountedStore.write").compile_into(env)
    RESULT, VALUE = object(), object()

    class Under:
        def __init__(self, p):
            self.p = p

        def read(self):
            log.append(("under.read", self.p))
            return RESULT

        def write(self, v):
            log.append(("under.write", self.p, v))

    s = _Self()
    s.copy_to_local = lambda p: log.append(("copy_to_local", p))
    s.copy_from_local = lambda p: log.append(("copy_from_local", p))
    s.create_store = lambda p: (log.append(("create_store", p)), Under(p))[1]
    which = ctx.choose(2, "op")
    if which == 0:
        r = write(s, VALUE)
        p = "/tmp/fresh0/temp"
        want = [("tempdir-enter", "/tmp/fresh0"), ("create_store", p), ("under.write", p, VALUE), ("copy_from_local", p), ("tempdir-exit", "/tmp/fresh0")]
        ctx.check("MountedStore.write/stage-locally-then-copy-out-same-path-in-fresh-dir", bool(log == want), info=str(log))
        ctx.check("MountedStore.write/returns-None", bool(r is None))
    else:
        r = read(s)
        p = "/tmp/fresh0/temp"
        want = [("tempdir-enter", "/tmp/fresh0"), ("copy_to_local", p), ("create_store", p), ("under.read", p), ("tempdir-exit", "/tmp/fresh0")]
        ctx.check("MountedStore.read/copy-in-then-read-same-path-in-fresh-dir", bool(log == want), info=str(log))
        ctx.check("MountedStore.read/returns-what-the-underlying-store-read", bool(r is RESULT))


# ---------------------------------------------------------------------------------------
# native replay / bounded validation of the assumed stdlib contracts
# ---------------------------------------------------------------------------------------
REPLAY_SCRIPT = textwrap.dedent(
    '''
    import os, sys, tempfile, pathlib, random
    from uberjob.stores import JsonFileStore, PickleFileStore, TextFileStore, BinaryFileStore, TouchFileStore
    rnd = random.Random(int(os.environ.get("VERIF_SEED", "0")))
    bad = []
    def texts():
        yield from ["", "a\\rb\\r\\nc", "\\r", "\\n", "\\r\\n", "x\\x85y\\u2028z", "\\x00\\x1a", "\\ud7ff\\ue000", "é" * 1000]
        for _ in range(300):
            yield "".join(rnd.choice("ab\\r\\n\\t\\x0b\\x0c\\x1c\\x85\\u2028\\u2029é\\U0001F600 ") for _ in range(rnd.randrange(0, 12)))
    def jsons(d=0):
        base = [None, True, False, 0, -1, 2**70, 1.5, "", "a\\rb", "\\u2028", [], {}]
        yield from base
        for _ in range(100):
            v = rnd.choice(base)
            for _ in range(rnd.randrange(0, 4)):
                v = rnd.choice([[v, 1], {"k\\r": v}, {"a": v, "b": [v]}])
            yield v
    with tempfile.TemporaryDirectory() as d:
        for mk in (str, pathlib.Path):
            p = mk(os.path.join(d, "f"))
            for enc in (None, "utf-8", "utf-16", "latin-1"):
                for s in texts():
                    try: s.encode(enc or "utf-8")
                    except UnicodeError: continue
                    st = TextFileStore(p, encoding=enc); st.write(s); r = st.read()
                    if r != s or type(r) is not str: bad.append(("TextFileStore", enc, s, r)); break
                for v in jsons():
                    st = JsonFileStore(p, encoding=enc); st.write(v); r = st.read()
                    if r != v or type(r) is not type(v): bad.append(("JsonFileStore", enc, v, r)); break
            for b in [b"", b"\\r\\n", bytes(range(256))]:
                st = BinaryFileStore(p); st.write(b); r = st.read()
                if r != b or type(r) is not bytes: bad.append(("BinaryFileStore", b, r))
            for v in [None, (1, "a\\r"), {"x": [1, 2.5, b"\\r"]}, frozenset([1]), "a\\rb"]:
                st = PickleFileStore(p); st.write(v); r = st.read()
                if r != v or type(r) is not type(v): bad.append(("PickleFileStore", v, r))
            st = TouchFileStore(mk(os.path.join(d, "t" + mk.__name__)))
            if st.get_modified_time() is not None: bad.append(("TouchFileStore", "mtime before write"))
            st.write(None)
            if st.read() is not None or st.get_modified_time() is None: bad.append(("TouchFileStore", "roundtrip"))
            m1 = st.get_modified_time(); st.write(None); m2 = st.get_modified_time()
            if m2 < m1: bad.append(("TouchFileStore", "mtime decreased", m1, m2))
    for b in bad[:5]: print("C12 violated:", repr(b)[:300])
    sys.exit(1 if bad else 0)
    '''
)


def _replay(ob):
    import os
    import subprocess

    from ujvc.z3env import REPO_SRC

    p = subprocess.run(["/venv/bin/python", "-c", REPLAY_SCRIPT], env=dict(os.environ, PYTHONPATH=REPO_SRC), capture_output=True, text=True, timeout=300)
    return {"reproduced": p.returncode == 1, "detail": (p.stdout + p.stderr)[-3000:], "script": REPLAY_SCRIPT}


REPLAYS = [("stores.*", _replay)]


@unit("stores.native-roundtrip[bounded]", props=["C12"], assumptions=["bounded stand-in: generated values (texts with every line terminator, JSON trees, pickles, bytes), 4 encodings, str and pathlib paths"],
      min_obligations=1, kind="bounded")
def stores_bounded(ctx):
    """bounded: real stores in a temporary directory over generated values; validates the assumed stdlib contracts (T8)"""
    r = _replay({})
    ctx.check("bounded/read-after-write-returns-an-equal-value-of-the-same-type", bool(not r["reproduced"]), info=r["detail"][-2000:])
