"""Sidecar contract for caching._add_value_store (+ nested nested_call): the whole-graph rewrite that puts a
value store into the physical plan (properties C09, C05, C03, C08, C13, C14, C19).

With  n = node,  O = the out-edges of n on entry,  L = the new literal holding the store,  R = the new read call,
W = the new write call (stale, not a source) or Barrier literal (stale source):

  N' = N + {L, R} (+ {W} if stale)
  E'(u,v,k)  <=>   E(u,v,k) and u != n                                     -- everything but n's out-edges
               or  (u,v,k) = (L, R, Pos 0)
               or  u = R and E(n,v,k) and k is Pos/Kw                      -- argument consumers re-pointed, SAME key
               or  stale and (   (u,v,k) = (W, R, Dep)                      -- write before read-back
                              or u = W and E(n,v,k) and k is Dep            -- plain dependents wait for the write
                              or is_source and v = W and k = Dep and u is a predecessor of n   -- Barrier inherits them
                              or not is_source and ((u,v,k) = (L, W, Pos 0) or (u,v,k) = (n, W, Pos 1)) )
  fn(R) is type(store).read;  fn(W) is type(store).write;  value(L) is the store;  W's value is Barrier (source)
  scope(R) = scope(W) = full_call_scope(n) if n is a Call;  stack_frame(R) = stack_frame(W) = registry_value.stack_frame
  returns (W or None, R);  plan._scope restored;  n's own attributes untouched;  nothing else changed.
(An up-to-date stored node gets NO write node and its plain dependents are released: the 'not stale' reading of
the formula.)  The top-level formula is the statement's ordering requirements turned into edges (DESIGN 5, C09); it
is not derived from the code.

Loops (matched by what they iterate):
  over graph.predecessors(n)   invariant  E = E_start + {(p, W, Dep) | p visited}
  over the out-edge snapshot   invariant  the formula above with O replaced by the visited part of O
Plan.lit / Plan._call are stubs carrying their contracts (proved on the real code in contracts/plumbing.py).
"""
import contextlib

from ujvc.core import EngineSignal, Unsupported
from ujvc.units import get, unit
from ujvc.vc import VC, LoopContract
from ujvc.z3env import z3

from . import gstate as G
from . import mgraph as M
from .gstate import Node, member, insert
from .mgraph import DEP, Key, esel, kind, pos_key

REL = "_transformations/caching.py"


def real_classes():
    from ujvc.z3env import ensure_repo_first

    ensure_repo_first()
    import importlib

    g = importlib.import_module("uberjob.graph")
    return {"Call": g.Call, "Literal": g.Literal, "Dependency": g.Dependency, "PositionalArg": g.PositionalArg, "KeywordArg": g.KeywordArg, "Node": g.Node}


class PlanProxy:
    """the run's own mutable plan; lit/_call/scope carry the contracts of the real Plan methods"""

    def __init__(self, ctx, objs, graph):
        self.ctx, self.objs, self.graph = ctx, objs, graph
        self._scope = ()
        self.created = []
        self.scope_log = []

    def _fresh_node(self, cls, hint, **slots):
        o = self.objs.new_node(cls, hint, **slots)
        t = self.objs.nt(o)
        g = self.graph
        # a new object: not in the graph, no edges
        self.ctx.assume(z3.Not(member(g.N, t)))
        for c in self.created:
            self.ctx.assume(t != self.objs.nt(c))
        self.created.append(o)
        return o

    def lit(self, value):
        if isinstance(value, self.objs.cls["Node"]):
            raise TypeError("The value is already a Node.")
        o = self._fresh_node("Literal", "lit", value=value, scope=self._scope)
        self.graph.add_node(o)
        return o

    def _call(self, stack_frame, fn, *args, **kwargs):
        if kwargs:
            raise Unsupported("_call stub with keyword arguments")
        o = self._fresh_node("Call", "call", fn=fn, scope=self._scope, stack_frame=stack_frame)
        self.graph.add_node(o)
        PA = self.objs.cls["PositionalArg"]
        for i, a in enumerate(args):
            if not isinstance(a, self.objs.cls["Node"]):
                raise Unsupported("_call stub with a non-node argument")
            self.graph.add_edge(a, o, PA(i))
        return o

    @contextlib.contextmanager
    def scope(self, *args):
        parent = self._scope
        self._scope = parent + args
        self.scope_log.append(("enter", args))
        try:
            yield
        finally:
            self._scope = parent
            self.scope_log.append(("exit", args))


class PredLoop(LoopContract):
    """for predecessor in plan.graph.predecessors(node): graph.add_edge(predecessor, write_node, Dependency())"""

    def __init__(self, u):
        self.u = u

    def inv(self, P):
        u = self.u
        g = u["plan"].graph
        a, b, k = z3.Const("a!pl", Node), z3.Const("b!pl", Node), z3.Const("k!pl", Key)
        Wt = self.Wt
        return z3.And(
            z3.ForAll([a, b, k], esel(g.E, a, b, k) == z3.Or(esel(self.E_s, a, b, k), z3.And(member(P, a), b == Wt, k == DEP))),
            g.N == self.N_s,
        )

    def establish(self, ctx, it, locs):
        u = self.u
        g = u["plan"].graph
        self.it = it
        self.E_s, self.N_s = g.E, g.N
        w = [o for o in u["plan"].created if type(o) is u["objs"].cls["Literal"] and getattr(o, "value", None) is u["Barrier"]]
        if len(w) != 1:
            raise Unsupported("predecessor loop without exactly one Barrier literal created before it")
        self.Wt = u["objs"].nt(w[0])
        if it.node_t is not u["n"] or it.direction != "pred" or it.E is not g.E:
            raise Unsupported("loop does not iterate the current predecessors of the node")
        ctx.check("pred-loop/establish", self.inv(G.EMPTY), props=["C09"])

    def havoc(self, ctx, it, locs):
        g = self.u["plan"].graph
        self.P = ctx.fresh(G.SetN, "P")
        x = z3.Const("x!ph", Node)
        ctx.assume(z3.ForAll([x], z3.Implies(member(self.P, x), it.has(x))))
        g.E = ctx.fresh(M.EdgeS, "E.pl")
        g.N = self.N_s
        ctx.assume(self.inv(self.P))
        return {}

    def iterate(self, ctx, it):
        if ctx.choose(2, "pred-loop") == 0:
            # a predecessor is any node: a call, or a literal (a plain literal, or the Barrier / read literal that an earlier rewrite put in front of
            # this source) - the code may well look at its type, so the element is split eagerly into real instances of both classes
            if ctx.choose(2, "predecessor-kind") == 0:
                p = self.u["objs"].new_node("Call", "pred")
            else:
                p = self.u["objs"].new_node("Literal", "pred", value=self.u["Barrier"] if ctx.choose(2, "predecessor-literal-is-a-Barrier") == 0 else object(), scope=())
            pt = self.u["objs"].nt(p)
            k = ctx.fresh(Key, "k.pred")
            ctx.assume(esel(self.E_s, pt, self.u["n"], k))
            ctx.assume(z3.Not(member(self.P, pt)))
            ctx.assume(member(self.N_s, pt))
            self.pt = pt
            self.current = p
            return True
        return False

    def preserve(self, ctx, locs):
        ctx.check("pred-loop/preserve", self.inv(insert(self.P, self.pt)), props=["C09"])

    def at_exit(self, ctx, it):
        x = z3.Const("x!pe", Node)
        ctx.assume(z3.ForAll([x], member(self.P, x) == it.has(x)))
        self.u["pred_loop_done"] = True


VisS = z3.ArraySort(Node, M.KeySet)


class OutLoop(LoopContract):
    """for _, successor, dependency in out_edges: re-point / drop / re-attach"""

    def __init__(self, u):
        self.u = u

    def spec(self, E1, vis, E):
        """E == E1 with the visited out-edges of n rewritten"""
        u = self.u
        n, R, W, stale = u["n"], u["R"](), u["W"](), u["stale"]
        a, b, k = z3.Const("a!ol", Node), z3.Const("b!ol", Node), z3.Const("k!ol", Key)
        v = z3.Select(z3.Select(vis, b), k)
        clauses = [z3.And(esel(E1, a, b, k), z3.Not(z3.And(a == n, v))), z3.And(a == R, v, kind(k) != 0)]
        if stale:
            clauses.append(z3.And(a == W, v, kind(k) == 0))
        return z3.ForAll([a, b, k], esel(E, a, b, k) == z3.Or(clauses))

    def establish(self, ctx, it, locs):
        u = self.u
        g = u["plan"].graph
        if not isinstance(it, M.EdgeList) or it.direction != "out" or it.node_t is not u["n"] or it.E is not u["E0"]:
            raise Unsupported("loop does not iterate the snapshot of the node's out-edges taken on entry")
        self.E1, self.N1 = g.E, g.N
        self.empty = z3.K(Node, z3.K(Key, z3.BoolVal(False)))
        ctx.check("out-loop/establish", self.spec(self.E1, self.empty, g.E), props=["C09"])

    def havoc(self, ctx, it, locs):
        u = self.u
        g = u["plan"].graph
        self.vis = ctx.fresh(VisS, "vis")
        b, k = z3.Const("b!oh", Node), z3.Const("k!oh", Key)
        ctx.assume(z3.ForAll([b, k], z3.Implies(z3.Select(z3.Select(self.vis, b), k), esel(u["E0"], u["n"], b, k))))
        g.E = ctx.fresh(M.EdgeS, "E.ol")
        g.N = self.N1
        ctx.assume(self.spec(self.E1, self.vis, g.E))
        return {}

    def iterate(self, ctx, it):
        u = self.u
        if ctx.choose(2, "out-loop") == 0:
            s = u["objs"].new_node("Call", "succ")
            st = u["objs"].nt(s)
            ko = u["objs"].generic_key("edge-key")
            kt = u["objs"].kt(ko)
            ctx.assume(esel(u["E0"], u["n"], st, kt))
            ctx.assume(z3.Not(z3.Select(z3.Select(self.vis, st), kt)))
            ctx.assume(member(self.N1, st))
            self.st, self.kt = st, kt
            self.current = (u["n_obj"], s, ko)
            return True
        return False

    def preserve(self, ctx, locs):
        g = self.u["plan"].graph
        vis2 = z3.Store(self.vis, self.st, z3.Store(z3.Select(self.vis, self.st), self.kt, z3.BoolVal(True)))
        ctx.check("out-loop/preserve", self.spec(self.E1, vis2, g.E), props=["C09", "C05"])
        ctx.check("out-loop/nodes-unchanged", g.N == self.N1, props=["C09"])

    def at_exit(self, ctx, it):
        u = self.u
        b, k = z3.Const("b!oe", Node), z3.Const("k!oe", Key)
        ctx.assume(z3.ForAll([b, k], z3.Select(z3.Select(self.vis, b), k) == esel(u["E0"], u["n"], b, k)))


class RVC(VC):
    def __init__(self, ctx, u):
        super().__init__(ctx)
        self.u = u

    def resolve_loop(self, key, it):
        if isinstance(it, M.NeighbourIter):
            return PredLoop(self.u)
        if isinstance(it, M.EdgeList):
            return OutLoop(self.u)
        return None


def run_add_value_store(ctx, node_is_call, is_source, is_stale):
    cls = real_classes()
    import importlib

    caching = importlib.import_module("uberjob._transformations.caching")
    _graph = importlib.import_module("uberjob._graph")
    objs = M.Objects(ctx, cls)
    for a in M.key_axioms():
        ctx.assume(a)
    g = M.MGraph(ctx, objs, tag="plan.graph")
    ctx.assume(g.wf())
    plan = PlanProxy(ctx, objs, g)

    def user_fn():
        pass

    SF_NODE, SF_REG = object(), object()
    scope0 = ("sc", 3)
    if node_is_call:
        n_obj = objs.new_node("Call", "n", fn=user_fn, scope=scope0, stack_frame=SF_NODE)
    else:
        n_obj = objs.new_node("Literal", "n", value=object(), scope=scope0)
    n = objs.nt(n_obj)
    ctx.assume(member(g.N, n))
    k0 = z3.Const("k!self", Key)
    ctx.assume(z3.ForAll([k0], z3.Not(esel(g.E, n, n, k0))))  # acyclic plan: no self loop
    N0, E0 = g.N, g.E

    class Store:
        def __len__(self):      # a value store is a user object: it may well be falsy (the library must test 'is None', never truth)
            return 0

        def read(self):
            raise AssertionError("stores must not be touched by the transformation")

        def write(self, v):
            raise AssertionError("stores must not be touched by the transformation")

        def get_modified_time(self):
            raise AssertionError

    store = Store()

    class RV:
        value_store = store
        stack_frame = SF_REG

    RV.is_source = is_source
    u = {"plan": plan, "objs": objs, "n": n, "n_obj": n_obj, "E0": E0, "stale": is_stale, "Barrier": caching.Barrier}

    def of_kind(pred):
        xs = [o for o in plan.created if pred(o)]
        return xs

    def R_t():
        xs = of_kind(lambda o: type(o) is cls["Call"] and o.fn is Store.read)
        if len(xs) != 1:
            raise Unsupported("not exactly one read call created")
        return objs.nt(xs[0])

    def W_t():
        xs = of_kind(lambda o: (type(o) is cls["Call"] and o.fn is Store.write) or (type(o) is cls["Literal"] and o.value is caching.Barrier))
        if len(xs) != 1:
            if not is_stale:
                return z3.Const("W!none", Node)
            raise Unsupported("not exactly one write node / Barrier created")
        return objs.nt(xs[0])

    u["R"], u["W"] = R_t, W_t
    vc = RVC(ctx, u)
    env = {"__vc": vc, "Call": cls["Call"], "Dependency": cls["Dependency"], "PositionalArg": cls["PositionalArg"], "KeywordArg": cls["KeywordArg"],
           "get_full_call_scope": _graph.get_full_call_scope, "Barrier": caching.Barrier, "list": lambda x: x if isinstance(x, M.EdgeList) else list(x)}
    f = get(REL, "_add_value_store", cut_loops="auto").compile_into(env)
    before = (n_obj.scope, getattr(n_obj, "fn", None), getattr(n_obj, "stack_frame", None), getattr(n_obj, "value", None))
    try:
        ret = f(plan, n_obj, RV, is_stale=is_stale)
    except AssertionError as e:
        if ctx.dead is not None:
            raise ctx.dead
        ctx.check("no-assertion-fails", False, info=repr(e), props=["C09"])
        return "assert"
    # ---- postcondition ----
    Ls = of_kind(lambda o: type(o) is cls["Literal"] and o.value is store)
    Rs = of_kind(lambda o: type(o) is cls["Call"] and o.fn is Store.read)
    Ws = of_kind(lambda o: (type(o) is cls["Call"] and o.fn is Store.write) or (type(o) is cls["Literal"] and o.value is caching.Barrier))
    want_w = 1 if is_stale else 0
    ok_created = len(Ls) == 1 and len(Rs) == 1 and len(Ws) == want_w and len(plan.created) == 2 + want_w
    ctx.check("post:creates-exactly-store-literal,read-call(+write-call/Barrier-iff-stale)", bool(ok_created), props=["C09", "C05", "C14"],
              info=str([(type(o).__name__, getattr(o, "fn", getattr(o, "value", None))) for o in plan.created]))
    if not ok_created:
        return "bad"
    L, R = objs.nt(Ls[0]), objs.nt(Rs[0])
    W = objs.nt(Ws[0]) if Ws else None
    if is_stale:
        if is_source:
            ctx.check("post:stale-source=>write-node-is-the-Barrier-literal", bool(type(Ws[0]) is cls["Literal"]), props=["C09"])
        else:
            ctx.check("post:stale-non-source=>write-node-is-a-call-of-type(store).write", bool(type(Ws[0]) is cls["Call"]), props=["C09", "C05"])
    ctx.check("post:returns-(write-node-or-None,read-node)", bool(isinstance(ret, tuple) and len(ret) == 2 and ret[1] is Rs[0] and ret[0] is (Ws[0] if Ws else None)),
              props=["C09", "C05"])
    full = _graph.get_full_call_scope(n_obj) if node_is_call else scope0
    for nm, o in [("read", Rs[0])] + ([("write", Ws[0])] if Ws and type(Ws[0]) is cls["Call"] else []):
        ctx.check(f"post:{nm}-node-scope==full-call-scope-of-the-node(user-scope-for-literals)", bool(o.scope == full), props=["C15"])
        ctx.check(f"post:{nm}-node-stack_frame-is-the-registry-entry's", bool(o.stack_frame is SF_REG), props=["C19"])
    ctx.check("post:plan._scope-restored", bool(plan._scope == ()), props=["C13"])
    after = (n_obj.scope, getattr(n_obj, "fn", None), getattr(n_obj, "stack_frame", None), getattr(n_obj, "value", None))
    ctx.check("frame:the-node's-own-attributes-untouched", bool(all(x is y for x, y in zip(before, after))), props=["C13"])
    # nodes
    x = z3.Const("x!pn", Node)
    newN = z3.Or([x == L, x == R] + ([x == W] if W is not None else []))
    ctx.check("post:N'==N+{L,R}(+{W})", z3.ForAll([x], member(g.N, x) == z3.Or(member(N0, x), newN)), props=["C09", "C05"])
    # edges
    a, b, k, k2 = z3.Const("a!pe", Node), z3.Const("b!pe", Node), z3.Const("k!pe", Key), z3.Const("k2!pe", Key)
    cl = [z3.And(esel(E0, a, b, k), a != n), z3.And(a == L, b == R, k == pos_key(ctx, z3.IntVal(0))), z3.And(a == R, esel(E0, n, b, k), kind(k) != 0)]
    if is_stale:
        cl.append(z3.And(a == W, b == R, k == DEP))
        cl.append(z3.And(a == W, esel(E0, n, b, k), kind(k) == 0))
        if is_source:
            cl.append(z3.And(b == W, k == DEP, z3.Exists([k2], esel(E0, a, n, k2))))
        else:
            cl.append(z3.And(a == L, b == W, k == pos_key(ctx, z3.IntVal(0))))
            cl.append(z3.And(a == n, b == W, k == pos_key(ctx, z3.IntVal(1))))
    ctx.check("post:E'-is-exactly-the-specified-rewrite(whole-graph)", z3.ForAll([a, b, k], esel(g.E, a, b, k) == z3.Or(cl)), props=["C09", "C05", "C03", "C08"])
    # ---- WF_args (precondition of get_argument_nodes, established by Plan._call) survives the rewrite: consequences of the formula above ----
    a2 = z3.Const("a2!pe", Node)
    v = ctx.fresh(Node, "v")          # an arbitrary node that existed before
    kk = ctx.fresh(Key, "kk")         # an arbitrary argument key
    ctx.assume(z3.And(member(N0, v), kind(kk) != 0))
    wa = ctx.fresh(Node, "wa")        # a witness predecessor
    ctx.check("WF_args:an-argument-edge-into-an-existing-node-comes-from-an-old-one-with-the-same-key",
              z3.Implies(esel(g.E, wa, v, kk), z3.Or(z3.And(esel(E0, wa, v, kk), wa != n), z3.And(wa == R, esel(E0, n, v, kk)))), props=["C02", "C09"])
    ctx.check("WF_args:every-old-argument-edge-into-an-existing-node-survives-with-the-same-key(from-the-read-node-if-it-came-from-the-rewritten-node)",
              z3.Implies(esel(E0, wa, v, kk), esel(g.E, z3.If(wa == n, R, wa), v, kk)), props=["C02", "C09"])
    ctx.check("WF_args:an-argument-key-that-had-one-predecessor-still-has-one",
              z3.Implies(z3.ForAll([a, a2], z3.Implies(z3.And(esel(E0, a, v, kk), esel(E0, a2, v, kk)), a == a2)),
                         z3.ForAll([a, a2], z3.Implies(z3.And(esel(g.E, a, v, kk), esel(g.E, a2, v, kk)), a == a2))), props=["C02", "C09"])
    p0, p1 = pos_key(ctx, z3.IntVal(0)), pos_key(ctx, z3.IntVal(1))
    ctx.check("WF_args:the-read-call's-only-argument-edge-is-(store-literal,Pos0)",
              z3.ForAll([a, k], z3.Implies(z3.And(esel(g.E, a, R, k), kind(k) != 0), z3.And(a == L, k == p0))), props=["C02", "C09"])
    if W is not None and type(Ws[0]) is cls["Call"]:
        ctx.check("WF_args:the-write-call's-argument-edges-are-exactly-(store-literal,Pos0),(node,Pos1)",
                  z3.And(esel(g.E, L, W, p0), esel(g.E, n, W, p1),
                         z3.ForAll([a, k], z3.Implies(z3.And(esel(g.E, a, W, k), kind(k) != 0), z3.Or(z3.And(a == L, k == p0), z3.And(a == n, k == p1))))), props=["C02", "C09"])
    return "ok"


def _mk(node_is_call, is_source, is_stale):
    def run(ctx):
        return run_add_value_store(ctx, node_is_call, is_source, is_stale)

    return run


for _c in (True, False):
    for _s in (True, False):
        for _st in (True, False):
            unit(
                f"rewrite._add_value_store[{'call' if _c else 'literal'},{'source' if _s else 'stored'},{'stale' if _st else 'fresh'}]",
                props=["C09", "C05", "C03", "C08", "C13", "C14", "C15", "C19", "C02"],
                functions=[(REL, "_add_value_store")],
                assumptions=["T5 networkx MultiDiGraph operations as in contracts/mgraph.py", "contracts of Plan.lit / Plan._call / Plan.scope (contracts/plumbing.py)",
                             "acyclic plan: the node has no edge to itself"],
                min_obligations=6,
            )(_mk(_c, _s, _st))


# ---------------------------------------------------------------------------------------------------
# plan_with_value_stores: loop over the registry entries (cut), composition over callee contracts
# ---------------------------------------------------------------------------------------------------
NodeMapS = z3.ArraySort(Node, Node)
write_of = z3.Function("write_of", Node, Node)
read_of = z3.Function("read_of", Node, Node)


class NodeMap:
    """python dict node -> node"""

    def __init__(self, ctx, objs):
        self.ctx, self.objs = ctx, objs
        self.dom = G.EMPTY
        self.val = ctx.fresh(NodeMapS, "lookup0")
        self.out_result = None

    def __setitem__(self, k, v):
        kt, vt = self.objs.nt(k), self.objs.nt(v)
        self.dom = insert(self.dom, kt)
        self.val = z3.Store(self.val, kt, vt)

    def get(self, k, default=None):
        kt = self.objs.nt(k)
        if self.ctx.branch(member(self.dom, kt), "output-node-is-registered"):
            o = self.objs.new_node("Call", "looked-up")
            self.ctx.assume(self.objs.nt(o) == z3.Select(self.val, kt))
            return o
        return default


class NodeSet:
    def __init__(self, ctx, objs):
        self.ctx, self.objs = ctx, objs
        self.t = G.EMPTY

    def add(self, x):
        self.t = insert(self.t, self.objs.nt(x))


class RegItems:
    pass


class RegLoop(LoopContract):
    """for node, registry_value in registry.mapping.items():"""

    def __init__(self, u):
        self.u = u

    def inv(self, vis):
        u = self.u
        req, lk = u["vc"].sets[0], u["vc"].maps[0]
        x, n = z3.Const("x!rl", Node), z3.Const("n!rl", Node)
        return z3.And(
            z3.ForAll([x], member(req.t, x) == z3.Exists([n], z3.And(member(vis, n), member(u["stale"], n), x == write_of(n)))),
            z3.ForAll([n], member(lk.dom, n) == member(vis, n)),
            z3.ForAll([n], z3.Implies(member(vis, n), z3.Select(lk.val, n) == read_of(n))),
        )

    def establish(self, ctx, it, locs):
        if not isinstance(it, RegItems):
            raise Unsupported("loop does not iterate registry.mapping.items()")
        if len(self.u["vc"].sets) != 1 or len(self.u["vc"].maps) != 1:
            raise Unsupported("plan_with_value_stores no longer creates exactly one set and one dict before its loop")
        ctx.check("registry-loop/establish", self.inv(G.EMPTY), props=["C05"])

    def havoc(self, ctx, it, locs):
        u = self.u
        req, lk = u["vc"].sets[0], u["vc"].maps[0]
        self.vis = ctx.fresh(G.SetN, "vis")
        ctx.assume(G.subset(self.vis, u["R"], "vr"))
        req.t = ctx.fresh(G.SetN, "required")
        lk.dom, lk.val = ctx.fresh(G.SetN, "lkdom"), ctx.fresh(NodeMapS, "lkval")
        ctx.assume(self.inv(self.vis))
        u["log"][:] = [e for e in u["log"] if e[0] != "_add_value_store"]
        return {}

    def iterate(self, ctx, it):
        u = self.u
        if ctx.choose(2, "registry-loop") == 0:
            n = u["objs"].new_node("Call", "regnode")
            nt = u["objs"].nt(n)
            ctx.assume(member(u["R"], nt))
            ctx.assume(z3.Not(member(self.vis, nt)))
            self.nt = nt
            rv = object()
            u["rv_of"][id(n)] = rv
            self.current = (n, rv)
            return True
        return False

    def preserve(self, ctx, locs):
        u = self.u
        avs = [e for e in u["log"] if e[0] == "_add_value_store"]
        ctx.check("registry-loop/exactly-one-_add_value_store-per-entry", bool(len(avs) == 1), props=["C05", "C09"])
        ctx.check("registry-loop/preserve", self.inv(insert(self.vis, self.nt)), props=["C05"])

    def at_exit(self, ctx, it):
        ctx.assume(G.seteq(self.vis, self.u["R"], "ve"))


@unit("rewrite.plan_with_value_stores", props=["C05", "C09", "C03", "C10", "C13", "C14", "C15"], functions=[(REL, "plan_with_value_stores")],
      assumptions=["contracts of _update_stale_totals, _get_stale_nodes, _add_value_store, prune_plan, get_mutable_plan (own units)",
                   "write_of / read_of: the (fresh, pairwise distinct) write and read nodes _add_value_store returns for a registry entry"],
      min_obligations=8)
def pwvs_unit(ctx):
    cls = real_classes()
    objs = M.Objects(ctx, cls)
    log = []
    R = ctx.fresh(G.SetN, "registered")
    stale = ctx.fresh(G.SetN, "stale")
    u = {"objs": objs, "R": R, "stale": stale, "log": log, "rv_of": {}}

    class PVC2(VC):
        def __init__(self, ctx):
            super().__init__(ctx)
            self.sets, self.maps = [], []

        def new_set(self):
            s = NodeSet(ctx, objs)
            self.sets.append(s)
            return s

        def new_dict(self):
            m = NodeMap(ctx, objs)
            self.maps.append(m)
            return m

        def resolve_loop(self, key, it):
            return RegLoop(u) if isinstance(it, RegItems) else None

    vc = PVC2(ctx)
    u["vc"] = vc

    class Mapping:
        def items(self):
            return RegItems()

    class Registry:
        mapping = Mapping()

    registry = Registry()

    class Plan:
        def __init__(self, tag):
            self.tag = tag

    given, work = Plan("given"), Plan("work")
    inplace = ctx.choose(2, "inplace") == 0
    OBS, MW, FRESH = object(), object(), object()

    def RETRY(f):      # a decorator (callable), identified by identity
        return f


    def _update_stale_totals(plan, reg, obs):
        log.append(("_update_stale_totals", plan, reg, obs))

    def get_mutable_plan(p, *, inplace):
        log.append(("get_mutable_plan", p, inplace))
        return p if inplace else work

    class StaleSet:
        def __contains__(self, n):
            return ctx.branch(member(stale, objs.nt(n)), "node-in-stale-set")

    def _get_stale_nodes(plan, reg, *, max_workers=None, retry, fresh_time=None, progress_observer):
        log.append(("_get_stale_nodes", plan, reg, max_workers, retry, fresh_time, progress_observer))
        return StaleSet()

    def _add_value_store(plan, node, rv, *, is_stale):
        nt = objs.nt(node)
        log.append(("_add_value_store", plan, node, rv, is_stale))
        ctx.check("_add_value_store:is_stale==(node-in-stale-set)", member(stale, nt) if is_stale is True else z3.Not(member(stale, nt)) if is_stale is False else False,
                  props=["C05", "C09"])
        ctx.check("_add_value_store:gets-the-working-plan-and-the-entry's-own-registry-value",
                  bool(plan is (given if inplace else work) and rv is u["rv_of"].get(id(node))), props=["C13", "C05"])
        r = objs.new_node("Call", "readnode")
        ctx.assume(objs.nt(r) == read_of(nt))
        w = None
        if is_stale:
            w = objs.new_node("Call", "writenode")
            ctx.assume(objs.nt(w) == write_of(nt))
        return w, r

    pruned = []

    def prune_plan(plan, *, required_nodes, output_node, inplace):
        pruned.append((plan, required_nodes, output_node, inplace))
        return plan

    env = {"__vc": vc, "_update_stale_totals": _update_stale_totals, "get_mutable_plan": get_mutable_plan, "_get_stale_nodes": _get_stale_nodes,
           "_add_value_store": _add_value_store, "prune_plan": prune_plan}
    f = get(REL, "plan_with_value_stores", cut_loops="auto", sym_containers=True).compile_into(env)
    has_out = ctx.choose(2, "output-node") == 0
    out = objs.new_node("Call", "out") if has_out else None
    r = f(given, registry, output_node=out, max_workers=MW, retry=RETRY, fresh_time=FRESH, inplace=inplace, progress_observer=OBS)
    wk = given if inplace else work
    names = [e[0] for e in log]
    ctx.check("C15:stale-totals-announced-first(from-the-plan-as-given,before-the-check-runs)",
              bool(names[:1] == ["_update_stale_totals"] and log[0][1] is given and log[0][2] is registry and log[0][3] is OBS), props=["C15"])
    ctx.check("works-on-a-copy-unless-inplace", bool(("get_mutable_plan", given, inplace) in log), props=["C13"])
    s = next((e for e in log if e[0] == "_get_stale_nodes"), None)
    ctx.check("C10:stale-check-gets-(working-plan,registry,max_workers,retry,fresh_time,observer)",
              bool(s is not None and s[1] is wk and s[2] is registry and s[3] is MW and s[4] is RETRY and s[5] is FRESH and s[6] is OBS), props=["C10", "C05", "C18"])
    ok = len(pruned) == 1 and pruned[0][0] is wk and pruned[0][3] is True and isinstance(pruned[0][1], NodeSet)
    ctx.check("prune_plan(working-plan,required,output,inplace=True)-once-at-the-end", bool(ok), props=["C05", "C04"])
    if ok:
        req = pruned[0][1]
        x, n = z3.Const("x!pq", Node), z3.Const("n!pq", Node)
        ctx.check("C05:required=={write-node(n)|n-registered-and-stale}",
                  z3.ForAll([x], member(req.t, x) == z3.Exists([n], z3.And(member(R, n), member(stale, n), x == write_of(n)))), props=["C05", "C03", "C08"])
        po = pruned[0][2]
        if not has_out:
            ctx.check("no-output=>prune-without-output-node", bool(po is None), props=["C05"])
        else:
            ot = objs.nt(out)
            ctx.check("C09:output-redirected-to-the-read-node-iff-the-output-node-is-registered",
                      bool(po is not None) and z3.If(member(R, ot), objs.nt(po) == read_of(ot), objs.nt(po) == ot), props=["C09", "C14"])
            ctx.check("returns-(working-plan,redirected-output)", bool(isinstance(r, tuple) and r[0] is wk and r[1] is po), props=["C09", "C14"])
    if not has_out:
        ctx.check("returns-(working-plan,None)", bool(isinstance(r, tuple) and r[0] is wk and r[1] is None), props=["C14"])
    return "ok"


from .sysprobe import replay_for as _replay_for  # noqa: E402

REPLAYS = [("rewrite.*", _replay_for(['C03', 'C05', 'C09', 'C14', 'C13'], 1500))]
