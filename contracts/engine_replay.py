"""Native replay harness for the execution engine: drives the REAL uberjob.run /
run_function_on_graph from /repo/src on small graphs (the shapes of the finite countermodels: diamonds,
joins with parallel edges, chains behind a failing node) under adversarial schedules, and checks the
top-level ghost assertions directly: a call starts only after all its predecessors completed (C01), no
call starts twice (C04), nothing downstream of a failed call starts and the raised CallError names a call
that really raised with its very exception (C06), run terminates and leaves no thread behind (C07),
in-flight calls never exceed max_workers and failures never exceed max_errors + max_workers (C10).

Schedules are forced without touching /repo: call functions rendezvous on barriers so that both
predecessors of a join finish together, the switch interval is set to 1 microsecond, and the counter dict
returned by prepare_nodes is wrapped (monkeypatch in this process only) in a dict subclass that yields the
GIL after every store - on correct code the lock serialises the critical section and nothing changes.
"""
import textwrap

SCRIPT = textwrap.dedent(
    r'''
    import os, sys, threading, time, itertools, random
    sys.setswitchinterval(1e-6)
    import uberjob
    from uberjob import Plan
    import uberjob._execution.run_function_on_graph as rfg

    rnd = random.Random(int(os.environ.get("VERIF_SEED", "0")))
    _orig_prepare = rfg.prepare_nodes
    class SlowDict(dict):
        def __setitem__(self, k, v):
            dict.__setitem__(self, k, v); time.sleep(0.001)
        def __getitem__(self, k):
            time.sleep(0.004); return dict.__getitem__(self, k)
    def slow_prepare(graph):
        a, b, c = _orig_prepare(graph)
        return rfg.PreparedNodes(a, b, SlowDict(c))
    rfg.prepare_nodes = slow_prepare

    problems = []
    class BaseBoom(BaseException): pass

    def finish():
        seen = []
        for p in problems:
            key = p.split(":")[0] + p.split(":")[1][:5]
            if key not in seen:
                seen.append(key); print("VIOLATED", p)
        print(f"{len(problems)} problem(s)")
        sys.stdout.flush()
        os._exit(1 if problems else 0)

    def run_case(name, build, **run_kw):
        if problems: finish()   # one failing input is enough
        """build(plan, rec) -> (output, preds: {label: [labels]}, fails: {label: exc}); rec(label) wraps a function"""
        lock = threading.Lock()
        started, completed, failed_nodes, order = {}, set(), {}, []
        inflight = [0, 0]
        before = threading.active_count()
        def rec(label, preds=(), fail=None, barrier=None, delay=0.0):
            def f(*a, **k):
                with lock:
                    started[label] = started.get(label, 0) + 1
                    order.append(("start", label))
                    inflight[0] += 1; inflight[1] = max(inflight[1], inflight[0])
                    missing = [p for p in preds if p not in completed]
                    if missing: problems.append(f"{name}: C01 {label} started before {missing} completed")
                    if started[label] > 1: problems.append(f"{name}: C04 {label} started {started[label]} times")
                    bad = [p for p in preds if p in failed_nodes]
                    if bad: problems.append(f"{name}: C06 {label} started although {bad} failed")
                try:
                    if barrier is not None:
                        try: barrier.wait(timeout=0.5)
                        except threading.BrokenBarrierError: pass
                    if delay: time.sleep(delay)
                    if fail is not None:
                        e = fail(f"boom in {label}")
                        with lock: failed_nodes[label] = e
                        raise e
                    with lock: completed.add(label)
                    return label
                finally:
                    with lock: inflight[0] -= 1
            f.__name__ = label
            return f
        plan = Plan()
        out, all_preds = build(plan, rec)
        t0 = time.time()
        result, err = None, None
        def target():
            nonlocal result, err
            try: result = uberjob.run(plan, output=out, progress=None, **run_kw)
            except BaseException as e: err = e
        th = threading.Thread(target=target, daemon=True); th.start(); th.join(15)
        if th.is_alive():
            problems.append(f"{name}: C07 run did not return within 15 s"); return
        time.sleep(0.01)
        if threading.active_count() > before: problems.append(f"{name}: C07 {threading.active_count()-before} thread(s) left running")
        # transitive containment
        def anc(l, seen=None):
            seen = set() if seen is None else seen
            for p in all_preds.get(l, ()):
                if p not in seen: seen.add(p); anc(p, seen)
            return seen
        for l in started:
            bad = [p for p in anc(l) if p in failed_nodes]
            if bad: problems.append(f"{name}: C06 {l} ran downstream of failed {bad}")
        if failed_nodes:
            if not isinstance(err, uberjob.CallError):
                problems.append(f"{name}: C06 calls {sorted(failed_nodes)} raised but run returned {result!r} / raised {err!r}")
            else:
                lbl = getattr(err.call.fn, "__name__", None)
                if lbl not in failed_nodes: problems.append(f"{name}: C06 CallError names {lbl}, which did not raise")
                elif err.__cause__ is not failed_nodes[lbl]: problems.append(f"{name}: C06 CallError cause is not the exception {lbl} raised")
                if run_kw.get("max_workers") == 1:
                    first = next(l for (k, l) in order if k == "start" and l in failed_nodes)
                    if lbl != first: problems.append(f"{name}: C06 one worker: first failure was {first}, reported {lbl}")
        elif err is not None:
            problems.append(f"{name}: no call raised but run raised {err!r}")
        mw = run_kw.get("max_workers")
        if mw and inflight[1] > mw: problems.append(f"{name}: C10 {inflight[1]} calls in flight with max_workers={mw}")
        k = run_kw.get("max_errors", 0)
        if k is not None and mw and len(failed_nodes) > k + mw: problems.append(f"{name}: C10 {len(failed_nodes)} failures with max_errors={k}, max_workers={mw}")
        if k is not None and mw == 1 and failed_nodes and len(failed_nodes) != min(k + 1, run_kw.get("_nfail", len(failed_nodes))):
            pass
        return result

    def diamond(width, parallel_edges=False):
        def build(plan, rec):
            b = threading.Barrier(width)
            tops = [plan.call(rec(f"p{i}", barrier=b)) for i in range(width)]
            preds = {"join": [f"p{i}" for i in range(width)], "after": ["join"]}
            j = plan.call(rec("join", preds["join"]), *tops, *(tops[:1] if parallel_edges else []))
            a = plan.call(rec("after", ["join"]), j)
            for i in range(width): preds[f"p{i}"] = []
            return a, preds
        return build

    def fail_chain(exc, depth=2, extra=3):
        def build(plan, rec):
            preds = {"bad": [], "ok": []}
            bad = plan.call(rec("bad", fail=exc)); ok = plan.call(rec("ok", delay=0.002))
            prev, prevl = bad, "bad"
            for i in range(depth):
                l = f"d{i}"; preds[l] = [prevl, "ok"] if i == 0 else [prevl]
                prev = plan.call(rec(l, preds[l]), prev, *( [ok] if i == 0 else [])); prevl = l
            dep = plan.call(rec("dep", ["bad"])); plan.add_dependency(bad, dep); preds["dep"] = ["bad"]
            outs = [prev, dep]
            for i in range(extra):
                l = f"x{i}"; preds[l] = []; outs.append(plan.call(rec(l, delay=0.001)))
            return outs, preds
        return build

    def many_fail(n, exc):
        def build(plan, rec):
            preds, outs = {}, []
            for i in range(n):
                l = f"f{i}"; preds[l] = []; outs.append(plan.call(rec(l, fail=exc, delay=0.001)))
            return outs, preds
        return build

    # exceptional exit of queue.join() (what an interrupt of the coordinating thread amounts to at a call boundary):
    # run must still stop the workers, wait for the calls in flight and leave no thread behind
    import queue as _q
    class JoinBoom(BaseException): pass
    def join_raises_case(mw):
        running = [0]; lk = threading.Lock(); before = threading.active_count()
        def slow():
            with lk: running[0] += 1
            time.sleep(0.3)
            with lk: running[0] -= 1
        plan = Plan(); outs = [plan.call(slow) for _ in range(mw)]
        real_join = _q.Queue.join
        def bad_join(self):
            time.sleep(0.05); raise JoinBoom()
        _q.Queue.join = bad_join
        try:
            try: uberjob.run(plan, output=outs, max_workers=mw, progress=None)
            except JoinBoom: pass
            except BaseException as e: problems.append(f"join-raises/w{mw}: C07 unexpected {e!r}")
            else: problems.append(f"join-raises/w{mw}: C07 exception from queue.join() was swallowed")
        finally:
            _q.Queue.join = real_join
        with lk: r = running[0]
        alive = threading.active_count() - before
        if r or alive > 0: problems.append(f"join-raises/w{mw}: C07 run raised while {r} plan function(s) still executing and {alive} thread(s) alive")
        time.sleep(0.4)
    for mw in (1, 3):
        if problems: finish()
        join_raises_case(mw)

    reps = int(os.environ.get("UJVC_REPLAY_REPS", "6"))
    for sched in ("default", "random"):
        for mw in (1, 2, 4, 8):
            for r in range(reps if mw > 1 else 1):
                run_case(f"diamond2/{sched}/w{mw}", diamond(2), max_workers=mw, scheduler=sched)
                run_case(f"diamond3par/{sched}/w{mw}", diamond(3, True), max_workers=mw, scheduler=sched)
            for exc in (ValueError, BaseBoom):
                for k in (0, 1, None):
                    run_case(f"failchain[{exc.__name__}]/{sched}/w{mw}/k{k}", fail_chain(exc), max_workers=mw, scheduler=sched, max_errors=k)
                    run_case(f"manyfail[{exc.__name__}]/{sched}/w{mw}/k{k}", many_fail(6, exc), max_workers=mw, scheduler=sched, max_errors=k)
    finish()
    '''
)


def replay(ob):
    import os
    import subprocess

    from ujvc.z3env import REPO_SRC

    from ujvc.units import run_native

    reps = int(os.environ.setdefault("UJVC_REPLAY_REPS", "2"))      # quick unit: 1, thorough unit: 6, as a replay: 2
    limit = 60 + 60 * reps
    r = run_native(SCRIPT, limit)
    # a run that never returns is itself the finding (C07): the script has a 15 s watchdog per case, so not finishing at all means even that was blocked
    return {"reproduced": r["rc"] == 1 or r["timed_out"], "detail": r["out"], "script": SCRIPT, "timed_out": r["timed_out"], "rc": r["rc"]}
