"""Bounded stand-ins driven by the native probes (contracts/sysprobe.py, contracts/engine_replay.py): the REAL
uberjob from the tree under test is run on generated small plans / registries / histories and the statements of the
properties are checked directly.  These units are labelled ``bounded``: their checks are reported separately in the
evidence and are never counted as proved obligations.  Their purpose is (i) to keep a property decided when a
function was restructured so that its sidecar contract no longer applies (the contract unit then reports
'undecided', the bounded unit may still find the violation), and (ii) to validate the contracts against CPython.
Bounds: plans <= 6 nodes, histories <= 6 steps, UJVC_PROBE_CASES seeded histories (quick: 1500, thorough: 6000 x 3 seeds).
"""
import os
import subprocess

from ujvc.units import unit
from ujvc.z3env import REPO_SRC

from . import engine_replay, sysprobe

PROBED = ["C01", "C02", "C03", "C04", "C05", "C06", "C09", "C10", "C13", "C14", "C15"]


def _run_probe(pid, cases, seed):
    env = dict(os.environ, PYTHONPATH=REPO_SRC, UJVC_PROBES=pid, UJVC_PROBE_CASES=str(cases), VERIF_SEED=str(seed))
    try:
        p = subprocess.run(["/venv/bin/python", "-c", sysprobe.SCRIPT], env=env, capture_output=True, text=True, timeout=1500 if cases > 2000 else 600)
    except subprocess.TimeoutExpired as e:
        out = (e.stdout.decode(errors="replace") if isinstance(e.stdout, bytes) else (e.stdout or ""))[-2000:]
        return 1, out + "\nVIOLATED C07 the probe did not finish within its time limit: some run hangs"
    return p.returncode, (p.stdout[-2500:] + p.stderr[-1500:])


def _mk(pid):
    def run(ctx):
        thorough = os.environ.get("UJVC_TIER") == "thorough"
        seed = int(os.environ.get("VERIF_SEED", "0") or 0)
        quick_cases = int(os.environ.get("UJVC_QUICK_CASES", "1500") or 1500)   # lowered only by the corpus runners (tools/run_refactorings.sh)
        runs = [(6000, seed + i) for i in range(3)] if thorough else [(quick_cases, seed)]
        for cases, sd in runs:
            rc, out = _run_probe(pid, cases, sd)
            harness = "VIOLATED HARNESS" in out
            if rc not in (0, 1) or harness:   # the probe itself failed (its own harness, or a private name of the package it imports was renamed): no verdict
                ctx.unsupported(f"native probe of {pid} did not run: " + out[-600:])
            ctx.check("bounded/probe-harness-ran", True, info=f"{cases} histories, seed {sd}: " + out[-1500:], props=[pid])
            ctx.check(f"bounded/statement-of-{pid}-held-on-every-generated-history", bool(rc == 0 or harness), info=out[-2500:], props=[pid])
        return "ok"

    run.__doc__ = f"bounded: native probe of {pid} on generated histories (plans <= 6 nodes, <= 6 steps; 1500 cases quick / 18000 thorough)"
    return run


for _p in PROBED:
    unit(f"system.probe[{_p}]", props=[_p], functions=(), assumptions=["bounded stand-in: see contracts/sysprobe.py for the bounds"],
         min_obligations=2, kind="bounded")(_mk(_p))


def _engine_stress(ctx):
    """bounded: real engine under adversarial schedules (diamonds, joins with parallel edges, failure chains; 1..8 workers; both schedulers; 1 repetition per shape in the quick tier, 6 in the thorough tier)"""
    thorough = os.environ.get("UJVC_TIER") == "thorough"
    os.environ["UJVC_REPLAY_REPS"] = "6" if thorough else "1"     # quick: one repetition per shape (about 3 s)
    r = engine_replay.replay({})
    if r.get("rc") not in (0, 1) and not r.get("timed_out"):
        ctx.unsupported("engine stress harness did not run: " + r["detail"][-600:])
    ctx.check("bounded/engine-stress:finished-within-its-time-limit(no-hang)", bool(not r.get("timed_out")), info=r["detail"][-1500:], props=["C07"])
    ctx.check("bounded/engine-stress:no-violation-of-C01/C04/C06/C07/C10-observed", bool(not r["reproduced"]), info=r["detail"][-2500:])
    return "ok"


_RF = "_execution/run_function_on_graph.py"
_SC = "_execution/scheduler.py"
unit("system.engine-stress", props=["C01", "C04", "C06", "C07", "C10"],
     functions=[(_RF, "run_function_on_graph"), (_RF, "run_function_on_graph.<locals>.process_node"), (_RF, "worker_pool"), (_RF, "worker_thread"), (_RF, "thread"),
                (_RF, "worker_thread.<locals>.process_items"), (_RF, "prepare_nodes"), (_RF, "coerce_node_error"), (_SC, "create_queue"), (_SC, "create_simple_queue"),
                (_SC, "PriorityQueue.__init__"), (_SC, "PriorityQueue._put"), (_SC, "PriorityQueue._get"), (_SC, "PriorityQueue._qsize"),
                (_SC, "RandomQueue.__init__"), (_SC, "RandomQueue._put"), (_SC, "RandomQueue._get"), (_SC, "RandomQueue._qsize"),
                ("_util/networkx_util.py", "predecessor_count")],
     assumptions=["bounded stand-in: quick tier 1 repetition per shape, thorough tier 6"], min_obligations=1, kind="bounded")(_engine_stress)

_generic = sysprobe.replay_for([], 1500)
REPLAYS = [("system.engine-stress*", engine_replay.replay), ("system.*", _generic)]
