"""Ghost state, graph view and global invariant GI of the execution engine
(uberjob/_execution/run_function_on_graph.py), shared by the units of C01/C04/C06/C07/C10.

Sorts:  Node (uninterpreted);  sets of nodes = Array(Node, Bool);  ``card`` is an uninterpreted
function on sets whose only known facts are *instances of lemma schemas* that are valid for finite sets
and are machine-checked on every run by cvc5 in the theory of finite sets with cardinality
(contracts/lemmas.py: L-PIGEON family).

Graph view (immutable after publication, T5):  pred(v), succ(u) : sets of *distinct* neighbours, with
succ(u)[v] <=> pred(v)[u];  npred(v) = card(pred(v)).

Ghost sets (grow only): enqueued, started, completed, failed, skipped, finished.
Owned ghost:            done_succ(p)  - successors already handled by the thread that holds token p.
Lock-protected (remaining_pred_count_lock): count (the real dict), ghost decs(x) - predecessors that
                        have decremented x's counter.
Lock-protected (failure_lock): error_count, first_node_error (real variables).
"""
from ujvc.z3env import z3

Node = z3.DeclareSort("Node")
SetN = z3.ArraySort(Node, z3.BoolSort())
MapNS = z3.ArraySort(Node, SetN)
MapNI = z3.ArraySort(Node, z3.IntSort())
IntS = z3.IntSort()
BoolS = z3.BoolSort()

card = z3.Function("card", SetN, IntS)
pred = z3.Function("pred", Node, SetN)
succ = z3.Function("succ", Node, SetN)

EMPTY = z3.K(Node, z3.BoolVal(False))


def member(s, x):
    return z3.Select(s, x)


def insert(s, x):
    return z3.Store(s, x, z3.BoolVal(True))


def subset(a, b, tag="x"):
    x = z3.Const(f"{tag}!ss", Node)
    return z3.ForAll([x], z3.Implies(member(a, x), member(b, x)))


def seteq(a, b, tag="x"):
    x = z3.Const(f"{tag}!se", Node)
    return z3.ForAll([x], member(a, x) == member(b, x))


def npred(v):
    return card(pred(v))


# ---- lemma schema instances (each schema is checked by cvc5 in contracts/lemmas.py) -------------
def L_card_nonneg(s):
    return card(s) >= 0


def L_card_insert(s, e):
    """e not in s  =>  card(s U {e}) = card(s) + 1"""
    return z3.Implies(z3.Not(member(s, e)), card(insert(s, e)) == card(s) + 1)


def L_card_subset(a, b):
    """a subset b  =>  card a <= card b, and equality of cards forces a = b (pigeonhole)"""
    return z3.Implies(subset(a, b, "ls"), z3.And(card(a) <= card(b), z3.Implies(card(a) == card(b), seteq(a, b, "ls2"))))


def L_card_one(s, e):
    """card s = 1 and e in s  =>  s = {e}"""
    x = z3.Const("x!c1", Node)
    return z3.Implies(z3.And(card(s) == 1, member(s, e)), z3.ForAll([x], z3.Implies(member(s, x), x == e)))


def remove(s, x):
    return z3.Store(s, x, z3.BoolVal(False))


def L_card_remove(s, e):
    """e in s  =>  card(s \\ {e}) = card(s) - 1"""
    return z3.Implies(member(s, e), card(remove(s, e)) == card(s) - 1)


def L_card_pos(s, e):
    """e in s => card s >= 1"""
    return z3.Implies(member(s, e), card(s) >= 1)


def L_card_empty():
    return card(EMPTY) == 0


diff = z3.Function("diff", SetN, SetN, Node)


def L_card_ext(a, b):
    """extensionality, skolemised: sets with different cardinalities differ at the witness diff(a, b)"""
    d = diff(a, b)
    return z3.Implies(card(a) != card(b), member(a, d) != member(b, d))


def L_card_zero(s):
    x = z3.Const("x!c0", Node)
    return z3.Implies(card(s) == 0, z3.ForAll([x], z3.Not(member(s, x))))


def graph_axioms():
    u, v = z3.Const("u!g", Node), z3.Const("v!g", Node)
    return [
        z3.ForAll([u, v], member(succ(u), v) == member(pred(v), u)),
        z3.ForAll([v], card(pred(v)) >= 0),
    ]


class World:
    """One snapshot of the shared + ghost state."""

    FIELDS = [
        ("enqueued", SetN), ("started", SetN), ("completed", SetN), ("failed", SetN), ("skipped", SetN),
        ("finished", SetN), ("done_succ", MapNS), ("decs", MapNS), ("count", MapNI), ("stop", BoolS),
        ("error_count", IntS), ("first_set", BoolS), ("first_node", Node), ("active", SetN), ("held", SetN), ("stopF", BoolS),
    ]

    def __init__(self, ctx, tag="w"):
        for f, s in self.FIELDS:
            setattr(self, f, ctx.fresh(s, f"{tag}.{f}"))

    def copy(self):
        w = World.__new__(World)
        for f, _ in self.FIELDS:
            setattr(w, f, getattr(self, f))
        return w


class Static:
    """immutable-after-publication values of one run"""

    def __init__(self, ctx):
        self.single = ctx.fresh(SetN, "single_parent_nodes")
        self.multi = ctx.fresh(SetN, "multi")  # = dom(remaining_pred_count_mapping)
        self.k_none = None  # python bool: max_errors is None
        self.k = ctx.fresh(IntS, "max_errors")
        self.W = ctx.fresh(IntS, "worker_count")

    def axioms(self):
        """postcondition of prepare_nodes (proved in contracts/prepare.py) + coerce_* results"""
        x = z3.Const("x!st", Node)
        return [
            z3.ForAll([x], member(self.single, x) == (npred(x) == 1)),
            z3.ForAll([x], member(self.multi, x) == (npred(x) >= 2)),
            self.W >= 1,
            self.k >= 0,
        ]


# ---- the global invariant ---------------------------------------------------------------------
def G1(w, st):
    x, p = z3.Const("x!G1", Node), z3.Const("p!G1", Node)
    return z3.ForAll([x, p], z3.Implies(z3.And(member(w.enqueued, x), member(pred(x), p)), member(w.completed, p)))


def G2(w, st):
    x = z3.Const("x!G2", Node)
    return z3.ForAll(
        [x],
        z3.And(
            z3.Implies(member(w.completed, x), member(w.started, x)),
            z3.Implies(member(w.started, x), member(w.enqueued, x)),
            z3.Implies(member(w.failed, x), member(w.started, x)),
            z3.Not(z3.And(member(w.completed, x), member(w.failed, x))),
            z3.Not(z3.And(member(w.skipped, x), member(w.started, x))),
            z3.Implies(member(w.skipped, x), member(w.enqueued, x)),
            z3.Implies(member(w.finished, x), member(w.completed, x)),
        ),
    )


def G3(w, st):
    x, p = z3.Const("x!G3", Node), z3.Const("p!G3", Node)
    return z3.ForAll(
        [x, p],
        z3.Implies(
            z3.And(member(st.single, x), member(pred(x), p)),
            member(w.enqueued, x) == member(z3.Select(w.done_succ, p), x),
        ),
    )


def G6(w, st):
    x, p = z3.Const("x!G6", Node), z3.Const("p!G6", Node)
    return z3.ForAll(
        [p, x],
        z3.And(
            z3.Implies(member(z3.Select(w.done_succ, p), x), z3.And(member(succ(p), x), member(w.completed, p))),
            z3.Implies(z3.And(member(w.finished, p), member(succ(p), x)), member(z3.Select(w.done_succ, p), x)),
        ),
    )


def G4(w, st):
    """resource invariant of remaining_pred_count_lock"""
    x, p = z3.Const("x!G4", Node), z3.Const("p!G4", Node)
    dx = z3.Select(w.decs, x)
    return z3.And(
        z3.ForAll(
            [x, p],
            z3.Implies(
                member(st.multi, x),
                z3.And(
                    z3.Implies(member(dx, p), z3.And(member(pred(x), p), member(w.completed, p))),
                    member(dx, p) == member(z3.Select(w.done_succ, p), x),
                ),
            ),
        ),
        z3.ForAll(
            [x],
            z3.Implies(
                member(st.multi, x),
                z3.And(
                    z3.Select(w.count, x) == npred(x) - card(dx),
                    member(w.enqueued, x) == (z3.Select(w.count, x) == 0),
                ),
            ),
        ),
    )


ALWAYS = [("G1", G1), ("G2", G2), ("G3", G3), ("G6", G6)]


def GI_always(w, st):
    return [g(w, st) for _, g in ALWAYS]
