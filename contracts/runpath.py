"""Sidecar contract for uberjob/_run.py: run (composition) and its helpers
(properties C06, C09, C10, C13, C14, C15; premises of C02/C03/C05).

run is straight-line code over callees that have their own contracts; it is verified modularly: every callee is
a stub that records the call, returns a fresh token and may fail as its contract allows.  Obligations, on every
path (registry / no registry / empty registry, output or not, dry run or not, transform_physical or not, each
callee returning or raising NodeError / another exception):

 C13  the first thing done with the caller's plan is get_mutable_plan(plan, inplace=False); every later operation
      (gather, plan_with_value_stores, prune_plan, transform_physical, totals, run_physical) receives that copy or
      what was derived from it - never the caller's object; the registry is only handed to plan_with_value_stores.
 C10  stale check gets max_workers=stale_check_max_workers, defaulting to max_workers; run_physical gets
      max_workers, max_errors, scheduler unchanged and the SAME coerced retry that the stale check got.
 C14  dry_run returns exactly the (plan, output node) pair that the non-dry path hands to run_physical - after
      registry transformation, pruning and transform_physical - and calls neither run_physical nor anything else
      afterwards.
 C09  transform_physical and run_physical receive the REDIRECTED output node returned by plan_with_value_stores.
 C15  the observer is entered before and exited after everything else, exactly once, also when a callee raises;
      _update_run_totals gets the plan that is executed (after transform_physical) and runs before run_physical.
 C06  a NodeError e from the stale check or from the run becomes CallError(e.node) with __cause__ is e.__cause__;
      other exceptions propagate unchanged.
_update_run_totals: one increment_total(section='run', scope, amount=count) per distinct full call scope, amount =
      number of Call nodes with that scope, literals ignored (loop over Counter items: native, concrete instance
      with a generic multiset - parametric).
"""
import collections
import datetime as dt

from ujvc.core import EngineSignal
from ujvc.units import get, unit, user_value

from .runphys import Trace, _catch, _real, user_fn

REL = "_run.py"


class Boom(Exception):
    pass


@unit("runpath.run", props=["C06", "C07", "C09", "C10", "C13", "C14", "C15", "C02"], functions=[(REL, "run"), (REL, "_coerce_retry")],
      inlined=["_coerce_retry", "assert_is_instance", "assert_is_callable"],
      assumptions=["contracts of plan_with_value_stores, prune_plan, run_physical, Plan.gather, Plan.copy (own units)", "T7 transform_physical does not touch the caller's objects"],
      min_obligations=12, max_paths=40000)
def run_unit(ctx):
    graph, util, errors, _graph = _real()
    import importlib

    validation = importlib.import_module("uberjob._util.validation")
    log = []
    tr = Trace()

    class Plan:
        def __init__(self, tag):
            self.tag = tag

        def gather(self, value):
            log.append(("gather", self, value))
            return ("gathered", value)

        def copy(self):
            raise AssertionError("run must copy through get_mutable_plan")

    class Registry:
        def __init__(self, truthy):
            self.truthy = truthy

        def __bool__(self):
            return self.truthy

    caller_plan = Plan("caller")
    COPY = Plan("copy")
    reg_kind = ctx.choose(3, "registry")  # none / non-empty / empty
    registry = None if reg_kind == 0 else Registry(reg_kind == 1)
    has_out = ctx.choose(2, "output") == 0
    OUTSPEC = [user_value("output-spec-atom")] if has_out else None
    dry = ctx.choose(2, "dry_run") == 1
    has_tp = ctx.choose(2, "transform_physical") == 1
    scmw = [None, 5][ctx.choose(2, "stale_check_max_workers")]
    MW, ME, SCHED, FRESH = 3, 2, "random", dt.datetime(2020, 1, 1)
    retry_kind = ctx.choose(2, "retry")
    RETRY_IN = (lambda f: f) if retry_kind == 0 else 3
    def COERCED(f):          # what create_retry returns: a decorator (callable), identified by identity below
        return f
    PWVS_PLAN, PWVS_OUT = Plan("after-registry"), ("redirected",)
    TP_PLAN, TP_OUT = Plan("after-transform"), ("transformed-out",)
    RESULT = user_value("result")
    node = graph.Call(user_fn)

    class FalsyBoom(Boom):
        """an exception instance that is falsy (e.g. an error carrying an empty list of rejected records): its truth value must never be consulted"""

        def __len__(self):
            return 0

    # what the failed call raised: an ordinary exception, a falsy one, or itself a CallError of ANOTHER plan's call (a call function that ran a
    # nested uberjob.run which failed): the statement does not except any of them - call is the call of THIS plan, __cause__ the very object raised
    ck = ctx.choose(3, "cause-truthiness")
    cause = Boom("cause") if ck == 0 else FalsyBoom("falsy cause") if ck == 1 else errors.CallError(graph.Call(lambda: None))

    def fail(where):
        o = ctx.choose(3, where)
        if o == 1:
            e = errors.NodeError(node)
            e.__cause__ = cause
            raise e
        if o == 2:
            raise Boom(where)

    def get_mutable_plan(plan, *, inplace):
        log.append(("get_mutable_plan", plan, inplace))
        return plan if inplace else COPY

    def plan_with_value_stores(plan, registry_, *, output_node, progress_observer, max_workers, retry, fresh_time, inplace):
        log.append(("pwvs", plan, registry_, output_node, progress_observer, max_workers, retry, fresh_time, inplace))
        fail("stale-check")
        return PWVS_PLAN, PWVS_OUT

    def prune_plan(plan, *, required_nodes, output_node, inplace):
        log.append(("prune_plan", plan, list(required_nodes), output_node, inplace))
        return plan

    def transform_physical(plan, out):
        log.append(("transform", plan, out))
        return TP_PLAN, TP_OUT

    def _update_run_totals(plan, obs):
        log.append(("totals", plan, obs, list(tr.ev)))

    def run_physical(plan, *, output_node, progress_observer, max_workers, max_errors, retry, scheduler, inplace):
        log.append(("run_physical", plan, output_node, progress_observer, max_workers, max_errors, retry, scheduler, inplace, list(tr.ev)))
        fail("run")
        return RESULT

    class Progress:
        def observer(self):
            return tr

    def _coerce_progress(p):
        log.append(("coerce_progress", p))
        return Progress()

    def create_retry(n):
        log.append(("create_retry", n))
        return COERCED

    env = {"assert_is_instance": validation.assert_is_instance, "assert_is_callable": validation.assert_is_callable, "Plan": Plan, "Registry": Registry,
           "dt": dt, "get_mutable_plan": get_mutable_plan, "_coerce_progress": _coerce_progress, "create_retry": create_retry,
           "plan_with_value_stores": plan_with_value_stores, "prune_plan": prune_plan, "_update_run_totals": _update_run_totals,
           "run_physical": run_physical, "NodeError": errors.NodeError, "CallError": errors.CallError}
    get(REL, "_coerce_retry").compile_into(env)
    run = get(REL, "run").compile_into(env)
    kind, val = _catch(ctx, lambda: run(caller_plan, output=OUTSPEC, registry=registry, dry_run=dry, max_workers=MW, max_errors=ME, retry=RETRY_IN,
                                        fresh_time=FRESH, progress="PROGRESS", scheduler=SCHED,
                                        transform_physical=(transform_physical if has_tp else None), stale_check_max_workers=scmw))
    names = [e[0] for e in log]
    retry_eff = RETRY_IN if retry_kind == 0 else COERCED
    callee_failed = any((l.startswith("stale-check=") or l.startswith("run=")) and not l.endswith("=0") for l in ctx.labels())
    ALL = ["C02", "C06", "C07", "C09", "C10", "C13", "C14", "C15"]
    ctx.check("run-raises-only-what-a-callee-raised(valid-arguments:nothing-of-its-own)", bool(kind == "ret" or callee_failed), props=ALL,
              info=repr(val) if kind == "raise" else "")

    # ---- C13 frame ----
    first_plan_use = next((e for e in log if any(x is caller_plan for x in e[1:])), None)
    ctx.check("C13:first-use-of-the-caller's-plan-is-get_mutable_plan(plan,inplace=False)", bool(log and log[0] == ("get_mutable_plan", caller_plan, False)), props=["C13"])
    others = [e for e in log[1:] if any(x is caller_plan for x in e[1:])]
    ctx.check("C13:nothing-else-ever-receives-the-caller's-plan", bool(not others), props=["C13"], info=str([e[0] for e in others]))
    reg_uses = [e[0] for e in log if registry is not None and any(x is registry for x in e[1:])]
    ctx.check("C13:registry-only-handed-to-plan_with_value_stores", bool(set(reg_uses) <= {"pwvs"}), props=["C13"])
    if has_out:
        g = [e for e in log if e[0] == "gather"]
        ctx.check("output-gathered-once-on-the-copy", bool(len(g) == 1 and g[0][1] is COPY and g[0][2] is OUTSPEC), props=["C13", "C02"])
    gathered = ("gathered", OUTSPEC) if has_out else None

    # ---- observer bracket (C15) ----
    ctx.check("C15:observer-entered-first-and-exited-last-exactly-once", bool(tr.ev[:1] == [("enter",)] and tr.ev[-1:] == [("exit",)]
                                                                                and sum(1 for e in tr.ev if e[0] in ("enter", "exit")) == 2), props=["C15"])
    inner = [e for e in log if e[0] in ("pwvs", "prune_plan", "transform", "totals", "run_physical")]
    use_reg = reg_kind == 1
    exp_plan = COPY
    exp_out = gathered
    ok_seq = True
    if use_reg:
        e = next((x for x in log if x[0] == "pwvs"), None)
        ok = e is not None and e[1] is COPY and e[2] is registry and e[3] == gathered and e[4] is tr and e[7] is FRESH and e[8] is True
        ctx.check("registry:plan_with_value_stores(copy,registry,output_node=gathered,observer,fresh_time,inplace=True)", bool(ok), props=["C13", "C05", "C15", "C07"])
        if e is not None:
            # the dry path and the real path are one path up to the return: the stale check is sized and retried the same way in both (C14)
            ctx.check("C10:stale-check-max_workers==stale_check_max_workers-or-max_workers", bool(e[5] == (scmw if scmw is not None else MW)), props=["C10", "C14"])
            ctx.check("C10:stale-check-gets-the-coerced-retry", bool(e[6] is retry_eff), props=["C10", "C14"])
        ctx.check("registry:no-separate-prune_plan", bool("prune_plan" not in names))
        exp_plan, exp_out = PWVS_PLAN, PWVS_OUT
        stale_failed = any(l.startswith("stale-check=") and not l.endswith("=0") for l in ctx.labels())
    else:
        e = next((x for x in log if x[0] == "prune_plan"), None)
        ctx.check("no-registry:prune_plan(copy,required_nodes=[],output_node=gathered,inplace=True)",
                  bool(e is not None and e[1] is COPY and e[2] == [] and e[3] == gathered and e[4] is True and "pwvs" not in names), props=["C04", "C13"])
        stale_failed = False
    if stale_failed:
        ctx.check("stale-check-failed=>nothing-of-the-run-phase-happens", bool(not any(n in names for n in ("transform", "totals", "run_physical"))), props=["C06", "C08"])
    else:
        if has_tp:
            e = next((x for x in log if x[0] == "transform"), None)
            ctx.check("C09:transform_physical(plan,REDIRECTED-output-node)", bool(e is not None and e[1] is exp_plan and (e[2] is exp_out or e[2] == exp_out)), props=["C09", "C14"])
            exp_plan, exp_out = TP_PLAN, TP_OUT
        else:
            ctx.check("no-transform_physical-call", bool("transform" not in names))
        e = next((x for x in log if x[0] == "totals"), None)
        ctx.check("C15:run-totals-computed-from-the-plan-that-is-executed(after-transform_physical)-with-the-observer",
                  bool(e is not None and e[1] is exp_plan and e[2] is tr), props=["C15"])
        if dry:
            ctx.check("C14:dry-run-calls-no-run_physical", bool("run_physical" not in names), props=["C14"])
            ctx.check("C14:dry-run-returns-exactly-the-(plan,output-node)-pair-the-real-run-would-execute",
                      bool(kind == "ret" and isinstance(val, tuple) and len(val) == 2 and val[0] is exp_plan and (val[1] is exp_out or val[1] == exp_out)), props=["C14", "C09"])
            ctx.check("C14:dry-run-does-nothing-after-the-totals", bool(names[-1] == "totals"), props=["C14"])
        else:
            e = next((x for x in log if x[0] == "run_physical"), None)
            ok = (e is not None and e[1] is exp_plan and (e[2] is exp_out or e[2] == exp_out) and e[3] is tr and e[8] is True)
            ctx.check("run_physical(executed-plan,REDIRECTED-output-node,observer,inplace=True)", bool(ok), props=["C09", "C14", "C15", "C07"])
            # C07, second clause: run_physical's contract starts with the acyclicity check of the whole executed plan (coordinator.run_function_on_graph,
            # kahn.assert_acyclic); the stub accepts exactly that contract's parameters, so a switch that disables the check cannot be passed unnoticed
            ctx.check("C07:every-real-run-goes-through-run_physical(whose-first-step-validates-acyclicity)-exactly-once", bool(names.count("run_physical") == 1), props=["C07"])
            if e is not None:
                ctx.check("C10:run_physical-gets-max_workers,max_errors,scheduler-unchanged-and-the-same-retry",
                          bool(e[4] == MW and e[5] == ME and e[6] is retry_eff and e[7] == SCHED), props=["C10"])
                t = next((x for x in log if x[0] == "totals"), None)
                ctx.check("C15:totals-announced-before-the-run-starts", bool(t is not None and names.index("totals") < names.index("run_physical")), props=["C15"])
    # ---- outcome (C06) ----
    failed_node_error = any((l.startswith("stale-check=1") or l.startswith("run=1")) for l in ctx.labels())
    failed_other = any((l.startswith("stale-check=2") or l.startswith("run=2")) for l in ctx.labels())
    if failed_node_error:
        ctx.check("C06:NodeError->CallError(e.node)-with-__cause__-is-e.__cause__",
                  bool(kind == "raise" and isinstance(val, errors.CallError) and val.call is node and val.__cause__ is cause), props=["C06", "C19"])
    elif failed_other:
        ctx.check("other-exceptions-propagate-unchanged", bool(kind == "raise" and isinstance(val, Boom)), props=["C06"])
    elif not dry:
        ctx.check("success=>returns-what-run_physical-returned", bool(kind == "ret" and val is RESULT), props=["C02"])
    return kind


@unit("runpath._update_run_totals", props=["C15"], functions=[(REL, "_update_run_totals")],
      assumptions=["collections.Counter counts; the loop over its items runs natively on a concrete multiset of scopes (parametric in the scopes)"],
      min_obligations=2, kind="concrete-parametric")
def update_run_totals_unit(ctx):
    graph, util, errors, _graph = _real()
    tr = Trace()

    def f1():
        pass

    def f2():
        pass

    nodes = [graph.Call(f1, scope=("a",)), graph.Call(f1, scope=("a",)), graph.Call(f2, scope=("a",)), graph.Call(f1, scope=()),
             graph.Literal(1, scope=("a",)), graph.Call(f1, scope=("a",))]
    k = ctx.choose(len(nodes) + 1, "n-nodes")
    nodes = nodes[:k]

    class Gr:
        def nodes(self):
            return list(nodes)

    class Plan:
        graph = Gr()

    env = {"collections": collections, "get_full_call_scope": _graph.get_full_call_scope, "Call": graph.Call}
    f = get(REL, "_update_run_totals", native_loops=(0,)).compile_into(env)
    f(Plan(), tr)
    want = collections.Counter(_graph.get_full_call_scope(n) for n in nodes if type(n) is graph.Call)
    got = collections.Counter()
    for e in tr.ev:
        if e[0] == "total" and e[1] == "run":
            got[e[2]] += e[3]
    ctx.check("per-scope-announced-amount==number-of-Call-nodes-with-that-full-scope(literals-ignored)", bool(got == want and all(e[0] == "total" for e in tr.ev)))
    ctx.check("every-announced-amount>=1-and-one-announcement-per-scope", bool(all(e[3] >= 1 for e in tr.ev) and len(tr.ev) == len(want)))


from .sysprobe import replay_for as _replay_for  # noqa: E402

from .tracebacks import _replay_nested  # noqa: E402

REPLAYS = [("runpath.run/C06*", _replay_nested), ("runpath.*", _replay_for([], 1500))]
