"""Sidecar contracts for plan construction and argument plumbing: graph.py (edge keys, get_argument_nodes),
_plan.py (Plan._call, lit, _gather, gather, unpack, copy, scope), _builtins.py (gather_*, unpack), _registry.py (copy)
(properties C02, C13, C19; the Plan.lit / Plan._call contracts that contracts/rewrite.py relies on).

Decided here
  * edge keys: Dependency() == Dependency(); PositionalArg(i) == PositionalArg(j) <=> i == j (symbolic i, j);
    KeywordArg likewise on (name, index); a PositionalArg / KeywordArg never equals a plain Dependency (either way);
    equal keys hash equally.  (real classes of the working tree, run natively)
  * Plan._call(stack_frame, fn, *nodes, **nodes) on a symbolic graph: N' = N + {c}; E' = E + {(a_i, c, Pos i)} +
    {(kw_j, c, Kw(name_j, j))}; c is a Call with fn, scope = plan._scope, stack_frame; nothing else changes.  This is the
    contract the stubs in contracts/rewrite.py carry.  Plan.lit likewise (and it rejects Nodes).
  * Plan.copy / Registry.copy: new containers, nothing mutable shared (C13); Plan.scope restores the scope.
  * unpack(iterable, n): exactly the n items as a tuple, ValueError otherwise (complete over the three length cases,
    symbolic n against a lazily consumed iterable); Plan.unpack builds call(unpack, it, n) and n getitem calls.
BOUNDED (labelled, never counted as proved): the round trip  plan.call(f, *args, **kwargs) -> get_argument_nodes ->
  values  against the substitution spec of C02 ('each node replaced by its value, exact list/tuple/set/dict rebuilt, everything
  else passed as the very object'), over all argument trees of depth <= 3 and width <= 2 over {node, atom, list, tuple, set,
  dict (nodes as keys, colliding keys), list-subclass, opaque object}, <= 3 positional and <= 2 keyword arguments, parallel edges.
"""
import itertools

from ujvc.core import EngineSignal, Unsupported
from ujvc.units import base_env, get, unit, user_value
from ujvc.vc import VC, IntS, SInt
from ujvc.z3env import z3

from . import gstate as G
from . import mgraph as M
from .gstate import Node, member, insert
from .mgraph import Key, esel
from .rewrite import real_classes
from .runphys import _catch

GR = "graph.py"
PL = "_plan.py"
BI = "_builtins.py"
RG = "_registry.py"


@unit("plumbing.edge-keys", props=["C02", "C09"], functions=[(GR, "Dependency.__eq__"), (GR, "PositionalArg.__eq__"), (GR, "KeywordArg.__eq__")],
      assumptions=["the real classes of the working tree are executed natively with symbolic indices"], min_obligations=6)
def keys_unit(ctx):
    cls = real_classes()
    D, P, K = cls["Dependency"], cls["PositionalArg"], cls["KeywordArg"]
    i, j = ctx.fresh(IntS, "i"), ctx.fresh(IntS, "j")
    ctx.check("Dependency()==Dependency()", bool(D() == D() and hash(D()) == hash(D())))
    r = P(SInt(ctx, i)) == P(SInt(ctx, j))
    ctx.check("PositionalArg(i)==PositionalArg(j)<=>i==j", (i == j) if r is True or (hasattr(r, "__bool__") and bool(r)) else (i != j))
    ctx.check("PositionalArg-never-equals-a-plain-Dependency(both-directions)", bool(not (P(0) == D()) and not (D() == P(0))))
    ctx.check("KeywordArg-never-equals-a-plain-Dependency-or-a-PositionalArg", bool(not (K("a", 0) == D()) and not (D() == K("a", 0)) and not (K("a", 0) == P(0)) and not (P(0) == K("a", 0))))
    r2 = K("a", SInt(ctx, i)) == K("a", SInt(ctx, j))
    ctx.check("KeywordArg(n,i)==KeywordArg(n,j)<=>i==j", (i == j) if bool(r2) else (i != j))
    ctx.check("KeywordArg-with-different-names-differ;equal-keys-hash-equally",
              bool(not (K("a", 1) == K("b", 1)) and hash(K("a", 1)) == hash(K("a", 1)) and hash(P(3)) == hash(P(3))))


@unit("plumbing.edge-key-hashes", props=["C02", "C09"], functions=[(GR, "Dependency.__hash__"), (GR, "PositionalArg.__hash__"), (GR, "KeywordArg.__hash__")],
      assumptions=["builtin hash is a FUNCTION of the value (equal ints / strings / tuples of equal items hash equally): modelled by uninterpreted functions; "
                   "hash of anything that is not built from the key's own fields (id(self), a counter, ...) is an unconstrained integer"],
      min_obligations=3)
def key_hashes_unit(ctx):
    """The hash law for the edge keys, for ALL indices and names: keys that are equal (same class, same index, same name - the relation proved for
    __eq__ in plumbing.edge-keys) have equal hashes.  networkx keeps the parallel edges of a MultiDiGraph in a dict indexed by these keys:
    remove_edge(u, v, key) and has_edge(u, v, key) in the value-store rewrite and the duplicate test in add_edge find an edge only through an EQUAL
    key with an EQUAL hash."""
    from ujvc.vc import SVal

    Hint = z3.Function("hash!int", IntS, IntS)
    Hname = z3.Function("hash!name", M.Name, IntS)
    Hpair = z3.Function("hash!tuple2", IntS, IntS, IntS)
    Hcls = {}

    def h(x):
        if isinstance(x, SInt):
            return Hint(x.t)
        if isinstance(x, bool) or x is None:
            raise Unsupported("hash of a bool / None in an edge key")
        if isinstance(x, int):
            return Hint(z3.IntVal(x))
        if isinstance(x, SVal) and x.t.sort() == M.Name:
            return Hname(x.t)
        if isinstance(x, tuple) and len(x) == 2:
            return Hpair(h(x[0]), h(x[1]))
        if isinstance(x, tuple) and len(x) == 3:
            return Hpair(h(x[0]), Hpair(h(x[1]), h(x[2])))
        if isinstance(x, type):
            return Hcls.setdefault(x, ctx.fresh(IntS, "hash!class"))
        if isinstance(x, str):
            return Hcls.setdefault(("str", x), ctx.fresh(IntS, "hash!str"))
        return ctx.fresh(IntS, "hash!of-something-that-is-not-a-field-of-the-key")     # id(self), object(), a counter ...

    def _hash(x):
        return SInt(ctx, h(x))

    env = base_env(GR)
    env.update({"hash": _hash, "id": lambda o: SInt(ctx, ctx.fresh(IntS, "id")), "type": type})
    cls = real_classes()

    def hv(r):
        if isinstance(r, SInt):
            return r.t
        if isinstance(r, int) and not isinstance(r, bool):
            return z3.IntVal(r)
        raise Unsupported(f"__hash__ returned {type(r).__name__}")

    which = ctx.choose(3, "key-class")
    if which == 0:
        f = get(GR, "Dependency.__hash__").compile_into(env)
        a, b = cls["Dependency"](), cls["Dependency"]()
        ctx.check("Dependency:all-plain-dependencies-hash-equally", hv(f(a)) == hv(f(b)))
        return "dep"
    i, j = ctx.fresh(IntS, "i"), ctx.fresh(IntS, "j")
    if which == 1:
        f = get(GR, "PositionalArg.__hash__").compile_into(env)
        a, b = cls["PositionalArg"](SInt(ctx, i)), cls["PositionalArg"](SInt(ctx, j))
        ctx.check("PositionalArg:equal-index=>equal-hash", z3.Implies(i == j, hv(f(a)) == hv(f(b))))
        return "pos"
    n, m = ctx.fresh(M.Name, "n"), ctx.fresh(M.Name, "m")
    f = get(GR, "KeywordArg.__hash__").compile_into(env)
    a, b = cls["KeywordArg"](SVal(ctx, n), SInt(ctx, i)), cls["KeywordArg"](SVal(ctx, m), SInt(ctx, j))
    ctx.check("KeywordArg:equal-name-and-index=>equal-hash", z3.Implies(z3.And(i == j, n == m), hv(f(a)) == hv(f(b))))
    return "kw"


class BindingGraph(M.MGraph):
    """symbolic graph that accepts the real node objects the code creates (binding each new object to a fresh term)"""

    def _nt(self, o):
        try:
            return self.objs.nt(o)
        except Unsupported:
            if not isinstance(o, self.objs.cls["Node"]):
                raise
            t = self.ctx.fresh(Node, "new")
            self.ctx.assume(z3.Not(member(self.N, t)))
            for other in self.objs.node_terms.values():
                self.ctx.assume(t != other)
            self.objs.bind(o, t)
            self.created.append(o)
            return t

    def add_node(self, n):
        self._nt(n)
        return super().add_node(n)


@unit("plumbing.Plan._call", props=["C02", "C09", "C19", "C13"], functions=[(PL, "Plan._call"), (PL, "Plan.lit"), (PL, "Plan._gather")],
      assumptions=["T5", "argument lists of 0..2 positional and 0..2 keyword NODE arguments (the loops run natively: parametric in the arguments)"],
      min_obligations=5)
def plan_call_unit(ctx):
    cls = real_classes()
    objs = M.Objects(ctx, cls)
    for a in M.key_axioms():
        ctx.assume(a)
    g = BindingGraph(ctx, objs, tag="plan.graph")
    g.created = []
    ctx.assume(g.wf())
    N0, E0 = g.N, g.E
    npos, nkw = ctx.choose(3, "n-positional"), ctx.choose(3, "n-keyword")
    pool = [objs.new_node("Call", "a0", fn=None, scope=(), stack_frame=None), objs.new_node("Literal", "a1", value=1, scope=())]
    for o in pool:
        ctx.assume(member(N0, objs.nt(o)))
    ctx.assume(objs.nt(pool[0]) != objs.nt(pool[1]))
    pos_args = [pool[i % 2] for i in range(npos)]          # the same node may be used twice (parallel edges)
    names = ["zeta", "alpha"][:nkw]
    kw_args = {n: pool[(i + 1) % 2] for i, n in enumerate(names)}
    SF, FN, SCOPE = object(), (lambda *a, **k: None), ("sc", 1)

    class PlanSelf:
        graph = g
        _scope = SCOPE

    env = {"Call": cls["Call"], "Literal": cls["Literal"], "Node": cls["Node"], "PositionalArg": cls["PositionalArg"], "KeywordArg": cls["KeywordArg"],
           "GATHER_LOOKUP": {}, "isinstance": isinstance, "enumerate": enumerate}
    lit = get(PL, "Plan.lit").compile_into(env)
    gather = get(PL, "Plan._gather", native_loops="all").compile_into(env)
    call = get(PL, "Plan._call", native_loops="all").compile_into(env)
    PlanSelf.lit = lit
    PlanSelf._gather = gather
    PlanSelf._call = call
    from ujvc.units import real_method_fallback

    PlanSelf.__getattr__ = real_method_fallback(PL, "Plan", env, native_loops="all", cut_loops=None)   # helper methods a refactoring may introduce
    s = PlanSelf()
    c = call(s, SF, FN, *pos_args, **kw_args)
    ok = type(c) is cls["Call"] and c.fn is FN and c.scope is SCOPE and c.stack_frame is SF and g.created == [c]
    ctx.check("post:returns-ONE-new-Call(fn,scope=plan._scope,stack_frame)", bool(ok), props=["C02", "C19"])
    if not ok:
        return "bad"
    ct = objs.nt(c)
    x = z3.Const("x!pc", Node)
    ctx.check("post:N'==N+{c}", z3.ForAll([x], member(g.N, x) == z3.Or(member(N0, x), x == ct)))
    a, b, k = z3.Const("a!pc", Node), z3.Const("b!pc", Node), z3.Const("k!pc", Key)
    new = [z3.And(a == objs.nt(o), b == ct, k == M.pos_key(ctx, z3.IntVal(i))) for i, o in enumerate(pos_args)]
    new += [z3.And(a == objs.nt(o), b == ct, k == M.kw_key(ctx, objs.name_t(n), z3.IntVal(i))) for i, (n, o) in enumerate(kw_args.items())]
    ctx.check("post:E'==E+{(arg_i,c,Pos(i))}+{(kwarg_j,c,Kw(name_j,j))}", z3.ForAll([a, b, k], esel(g.E, a, b, k) == z3.Or([esel(E0, a, b, k)] + new)))
    # lit
    g2 = BindingGraph(ctx, objs, tag="g2")
    g2.created = []
    PlanSelf.graph = g2
    N2 = g2.N
    V = user_value("literal")
    l = lit(s, V)
    ctx.check("lit:new-Literal-holding-the-very-object,scope=plan._scope,added-as-a-node",
              bool(type(l) is cls["Literal"] and l.value is V and l.scope is SCOPE and g2.created == [l]) and z3.ForAll([x], member(g2.N, x) == z3.Or(member(N2, x), x == objs.nt(l))),
              props=["C02"])
    kind, val = _catch(ctx, lambda: lit(s, pool[0]))
    ctx.check("lit:rejects-a-Node", bool(kind == "raise" and isinstance(val, TypeError)))
    return "ok"


@unit("plumbing.copies", props=["C13", "C19"], functions=[(PL, "Plan.copy"), (RG, "Registry.copy"), (PL, "Plan.scope")],
      assumptions=["T5 MultiDiGraph.copy() shares no adjacency with the original", "copy.copy of a __slots__ object makes a distinct object"], min_obligations=5)
def copies_unit(ctx):
    import contextlib
    import copy as _copy
    from threading import RLock

    cls = real_classes()
    log = []

    class Gr:
        def __init__(self, tag):
            self.tag = tag

        def copy(self):
            log.append(("graph.copy", self))
            return Gr("copy-of-" + self.tag)

    class Plan:
        def __init__(self):
            self.graph = Gr("fresh")
            self._scope = ()
            self._scope_lock = RLock()

    env = {"Plan": Plan}
    pcopy = get(PL, "Plan.copy").compile_into(env)
    p = Plan()
    p.graph = Gr("orig")
    p._scope = ("in", "scope")
    q = pcopy(p)
    ctx.check("Plan.copy:new-Plan-whose-graph-is-graph.copy()-of-the-original", bool(q is not p and isinstance(q, Plan) and q.graph.tag == "copy-of-orig" and log == [("graph.copy", p.graph)]))
    ctx.check("Plan.copy:original-untouched;copy-starts-with-empty-scope-and-its-own-lock", bool(p.graph.tag == "orig" and p._scope == ("in", "scope") and q._scope == () and q._scope_lock is not p._scope_lock))

    import importlib

    from ujvc.z3env import ensure_repo_first

    ensure_repo_first()
    _RealRV = importlib.import_module("uberjob._registry").RegistryValue     # the entries are the real class of the tree (however it copies itself)

    def RVal(v, s, f):
        return _RealRV(v, is_source=s, stack_frame=f)

    class Registry:
        def __init__(self):
            self.mapping = {}

    renv = {"Registry": Registry, "copy": _copy}
    rcopy = get(RG, "Registry.copy", cut_comps=False).compile_into(renv)
    renv["copy"] = _copy  # the method is itself called ``copy``: re-bind the module name it refers to
    r = Registry()
    n1, n2, st1, st2 = object(), object(), object(), object()
    r.mapping = {n1: RVal(st1, False, "f1"), n2: RVal(st2, True, "f2")}
    r2 = rcopy(r)
    ok = (r2 is not r and r2.mapping is not r.mapping and list(r2.mapping) == [n1, n2]
          and all(r2.mapping[k] is not r.mapping[k] and r2.mapping[k].value_store is r.mapping[k].value_store
                  and r2.mapping[k].is_source == r.mapping[k].is_source and r2.mapping[k].stack_frame == r.mapping[k].stack_frame for k in (n1, n2)))
    ctx.check("Registry.copy:new-mapping,each-RegistryValue-copied(same-store,flags,frame),same-nodes-in-order", bool(ok), props=["C13", "C19", "C05"])
    # Plan.scope restores the scope on every exit
    senv = {"contextmanager": contextlib.contextmanager}
    scope = get(PL, "Plan.scope").compile_into(senv)
    p2 = Plan()
    p2._scope = ("a",)
    kind, val = _catch(ctx, lambda: _use_scope(scope, p2, ctx.choose(2, "body")))
    ctx.check("Plan.scope:appends-inside,restores-on-every-exit", bool(p2._scope == ("a",) and _SEEN[-1] == ("a", "b", 2)))
    return "ok"


@unit("plumbing.Graph.copy-is-independent", props=["C13", "C14"], functions=[(GR, "Graph")],
      assumptions=["networkx.MultiDiGraph.copy as documented when the tree's Graph IS that class; whatever the tree defines instead is run natively on a small graph "
                   "(nodes with and without attributes, parallel edges with and without data)"],
      min_obligations=3, kind="concrete-parametric")
def graph_copy_unit(ctx):
    """T5 for `copy`, on the real Graph class of the working tree (the alias of networkx.MultiDiGraph at the pinned commit, possibly a subclass with its own
    copy later): Plan.copy, run's working copy, the plan handed to transform_physical, the plan a dry run returns and render's copy all go through it.
    Nothing reachable from the copy and writable through the graph API is shared with the original: node table, adjacency, per-node attribute dicts,
    per-edge data dicts, graph attributes."""
    import importlib

    from ujvc.z3env import ensure_repo_first

    ensure_repo_first()
    gmod = importlib.import_module("uberjob.graph")
    G = gmod.Graph
    a, b, c = gmod.Literal(1), gmod.Call(len), gmod.Call(len)
    g = G()
    g.graph["title"] = "orig"
    g.add_node(a, note="a0")
    g.add_node(b)
    g.add_node(c)
    g.add_edge(a, b, gmod.PositionalArg(0), w=1)
    g.add_edge(a, b, gmod.Dependency())
    g.add_edge(b, c, gmod.KeywordArg("x", 0))

    def snapshot(gr):
        return (dict(gr.graph), [(n, dict(d)) for n, d in gr.nodes(data=True)], [(u, v, k, dict(d)) for u, v, k, d in gr.edges(keys=True, data=True)])

    before = snapshot(g)
    h = g.copy()
    ctx.check("copy:same-nodes(the-very-objects),edges,keys,attributes", bool(snapshot(h) == before and type(h) is type(g) and all(x is y for (x, _), (y, _) in zip(before[1], snapshot(h)[1]))))
    which = ctx.choose(5, "write-on-the-copy")
    if which == 0:
        h.nodes[a]["note"] = "changed"
        h.nodes[b]["tag"] = 1
    elif which == 1:
        h.edges[a, b, gmod.PositionalArg(0)]["w"] = 2
        h.edges[b, c, gmod.KeywordArg("x", 0)]["seen"] = True
    elif which == 2:
        h.remove_edge(a, b, gmod.Dependency())
        h.remove_node(c)
    elif which == 3:
        d = gmod.Call(len)
        h.add_node(d, fresh=True)
        h.add_edge(c, d, gmod.Dependency())
        h.add_edge(a, b, gmod.PositionalArg(1))
    else:
        h.graph["title"] = "copy"
        h.graph["extra"] = 1
    ctx.check("copy:whatever-is-written-on-the-copy(node-attributes,edge-data,structure,graph-attributes)-leaves-the-original-untouched", bool(snapshot(g) == before),
              info=f"write {which}: {snapshot(g)!r} vs {before!r}")
    h2 = g.copy()
    g.nodes[a]["note"] = "orig-changed"
    g.add_edge(b, c, gmod.Dependency())
    ctx.check("copy:later-writes-on-the-original-do-not-reach-an-earlier-copy", bool(snapshot(h2) == before))
    return "ok"


_SEEN = []


def _use_scope(scope, p, raise_):
    with scope(p, "b", 2):
        _SEEN.append(p._scope)
        if raise_:
            raise KeyError("body")


@unit("plumbing.Registry", props=["C05", "C09", "C03", "C19"], functions=[(RG, "Registry.add"), (RG, "Registry.source"), (RG, "Registry.get"), (RG, "Registry.__contains__"),
                                                                        (RG, "Registry.__getitem__"), (RG, "Registry.keys"), (RG, "Registry.__len__")],
      assumptions=["the real RegistryValue class is executed natively; dict semantics (T1)"], min_obligations=8, kind="concrete-parametric")
def registry_unit(ctx):
    """what the stale check and the rewrite assume about the registry: add / source record exactly (store, is_source, the caller's stack
    frame) under the node, source creates ONE argument-less call of the placeholder function through plan._call with that frame, lookups
    answer from that mapping and nothing else"""
    import importlib

    from ujvc.z3env import ensure_repo_first

    ensure_repo_first()
    reg_mod = importlib.import_module("uberjob._registry")
    b = importlib.import_module("uberjob._builtins")
    cls = real_classes()
    SF = object()
    log = []

    class VS:
        pass

    class _validation:
        @staticmethod
        def assert_is_instance(v, name, t, optional=False):
            log.append(("assert_is_instance", name))

    class Plan:
        def _call(self, sf, fn, *a, **k):
            log.append(("_call", sf, fn, a, k))
            return cls["Call"](fn, stack_frame=sf)

    env = {"validation": _validation, "get_stack_frame": lambda *a: SF, "RegistryValue": reg_mod.RegistryValue, "Node": cls["Node"], "ValueStore": VS, "Plan": Plan,
           "source": b.source}

    class R:
        def __init__(self):
            self.mapping = {}

    from ujvc.units import real_method_fallback

    R.__getattr__ = real_method_fallback(RG, "Registry", dict(env))     # private helper methods a refactoring may introduce (e.g. _register)
    for name in ("add", "source", "get", "__contains__", "__getitem__", "keys", "__len__"):
        e2 = dict(env)
        setattr(R, name, get(RG, f"Registry.{name}").compile_into(e2))
        e2["source"] = b.source      # the method ``source`` shadows the module-level placeholder of the same name: re-bind the global it refers to
    r = R()
    n1, st1, st2 = cls["Call"](lambda: 1), VS(), VS()
    ctx.check("empty-registry:falsy,no-node-registered,get-is-None", bool(len(r) == 0 and n1 not in r and r.get(n1) is None))
    r.add(n1, st1)
    v = r.mapping.get(n1)
    ctx.check("add:records-(store,is_source=False,the-caller's-stack-frame)-under-the-node", bool(type(v) is reg_mod.RegistryValue and v.value_store is st1 and v.is_source is False and v.stack_frame is SF and len(r.mapping) == 1),
              props=["C05", "C19"])
    kind, val = _catch(ctx, lambda: r.add(n1, st2))
    ctx.check("add:a-node-cannot-be-registered-twice(the-first-entry-stays)", bool(kind == "raise" and r.mapping[n1].value_store is st1))
    del log[:]
    p = Plan()
    n2 = r.source(p, st2)
    calls = [e for e in log if e[0] == "_call"]
    ctx.check("source:creates-ONE-argument-less-call-of-the-placeholder-through-plan._call-with-the-caller's-frame", bool(calls == [("_call", SF, b.source, (), {})] and type(n2) is cls["Call"]),
              props=["C09", "C19"])
    v2 = r.mapping.get(n2)
    ctx.check("source:records-(store,is_source=True,the-same-stack-frame)-under-the-new-node", bool(v2 is not None and v2.value_store is st2 and v2.is_source is True and v2.stack_frame is SF and len(r.mapping) == 2),
              props=["C05", "C19"])
    ctx.check("lookups-answer-from-the-mapping(get,in,[],keys,len)", bool(r.get(n1) is st1 and r.get(n2) is st2 and n1 in r and n2 in r and r[n1] is st1 and list(r.keys()) == [n1, n2] and len(r) == 2
                                                                      and r.get(cls["Call"](lambda: 2)) is None))
    ctx.check("non-empty-registry-is-truthy(run-takes-the-registry-path)", bool(r))
    kind, val = _catch(ctx, lambda: b.source())
    ctx.check("placeholder-raises-NotTransformedError-when-called-without-the-registry", bool(kind == "raise" and type(val).__name__ == "NotTransformedError"))
    return "ok"


class LazyIter:
    """an iterable that records how far it was consumed (unpack must not drain an infinite iterable)"""

    def __init__(self, n, item=None):
        self.n, self.taken = n, 0
        self.item = item or (lambda i: ("item", i))

    def __iter__(self):
        return self

    def __next__(self):
        if self.n is not None and self.taken >= self.n:
            raise StopIteration
        self.taken += 1
        return self.item(self.taken - 1)


@unit("plumbing.unpack", props=["C02"], functions=[(BI, "unpack"), (PL, "Plan.unpack")],
      assumptions=["itertools.islice as documented", "lengths 0..3 against iterables shorter / equal / longer / infinite: complete over the three outcomes"],
      min_obligations=4, kind="concrete-parametric")
def unpack_unit(ctx):
    import operator

    env = {"itertools": itertools}
    f = get(BI, "unpack").compile_into(env)
    length = ctx.choose(4, "length")
    rel = ctx.choose(4, "iterable")  # shorter / equal / longer / infinite
    n = [max(length - 1, 0), length, length + 2, None][rel]
    # what the iterable yields: pairwise distinct truthy items, or the items a user's data may well contain - None, False, 0, empty containers:
    # "is there one more item?" must be decided by the iteration protocol, never by looking at an item
    awkward = (None, (), "", None, 0.0, None, [])
    item = (lambda i: ("item", i)) if ctx.choose(2, "item-kind") == 0 else (lambda i: awkward[i % len(awkward)])
    it = LazyIter(n, item)
    # the same contract for SIZED inputs of every kind (a fast path through len() must not change what is yielded): the items in iteration order, as a tuple
    if n is not None:
        items = [item(i) for i in range(n)]
        for mk, what in ((list, "list"), (tuple, "tuple"), (lambda xs: {x: "v" for x in reversed(xs)}, "dict(keys,insertion-order-differs-from-sorted)"),
                         (lambda xs: dict.fromkeys(reversed(xs)).keys(), "dict-view"), (lambda xs: iter(xs), "iterator")):
            src = mk(items)
            want = tuple(iter(mk(items)))
            k2, v2 = _catch(ctx, lambda: f(src, length))
            if n == length:
                ctx.check("sized-input:exact-length=>tuple-of-exactly-the-items-in-iteration-order", bool(k2 == "ret" and type(v2) is tuple and v2 == want), info=f"{what}: {v2!r} vs {want!r}")
            else:
                ctx.check("sized-input:wrong-length=>ValueError", bool(k2 == "raise" and isinstance(v2, ValueError)), info=what)
        # an object whose len() is NOT the number of items it iterates over (a table: len = rows, iteration = column labels): Python's own
        # unpacking only iterates, so only the iteration counts - whatever len() says (smaller, equal, larger)
        for lie in (0, n, n + 3):
            class Table:
                def __len__(self):
                    return lie

                def __iter__(self):
                    return iter(items)

            k3, v3 = _catch(ctx, lambda: f(Table(), length))
            if n == length:
                ctx.check("len()-differs-from-iteration:exactly-n-items-iterated=>those-items", bool(k3 == "ret" and v3 == tuple(items)), info=f"len()={lie}, iterates {n}: {v3!r}")
            else:
                ctx.check("len()-differs-from-iteration:wrong-number-iterated=>ValueError", bool(k3 == "raise" and isinstance(v3, ValueError)), info=f"len()={lie}, iterates {n}: {v3!r}")
    kind, val = _catch(ctx, lambda: f(it, length))
    exact = (n == length)
    if exact:
        ctx.check("exact-length=>tuple-of-exactly-the-n-items-in-order", bool(kind == "ret" and type(val) is tuple and len(val) == length and all(a is b or a == b for a, b in zip(val, (item(i) for i in range(length))))))
    else:
        ctx.check("wrong-length=>ValueError", bool(kind == "raise" and isinstance(val, ValueError)))
    ctx.check("consumes-at-most-n+1-items(an-infinite-iterable-is-not-drained)", bool(it.taken <= length + 1))
    # Plan.unpack structure
    log = []

    class P:
        def _call(self, sf, fn, *a, **k):
            log.append((sf, fn, a, k))
            return ("call", len(log) - 1)

    SF = object()
    penv = {"get_stack_frame": lambda: SF, "_builtins": type("B", (), {"unpack": f}), "operator": operator, "isinstance": isinstance, "range": range, "tuple": tuple}
    pu = get(PL, "Plan.unpack", native_loops="all", cut_comps=False).compile_into(penv)
    IT = object()
    r = pu(P(), IT, length)
    ok = (len(log) == length + 1 and log[0] == (SF, f, (IT, length), {}) and all(log[i + 1] == (SF, operator.getitem, (("call", 0), i), {}) for i in range(length))
          and r == tuple(("call", i + 1) for i in range(length)))
    ctx.check("Plan.unpack:t=call(unpack,iterable,n);items=call(getitem,t,i)-for-i<n;all-with-the-caller's-stack-frame", bool(ok), props=["C02", "C19"])
    kind, val = _catch(ctx, lambda: pu(P(), IT, -1))
    ctx.check("Plan.unpack:negative-length-rejected", bool(kind == "raise" and isinstance(val, ValueError)))
    return "ok"


# ---------------------------------------------------------------------------------------------------
# bounded: the C02 substitution spec against the real Plan / get_argument_nodes / gather_* on all small argument trees
# ---------------------------------------------------------------------------------------------------
class MyList(list):
    pass


class Opaque:
    def __init__(self, inner):
        self.inner = inner


def _trees(depth, leaves):
    """all argument trees up to the given depth over the constructors of the statement"""
    out = list(leaves)
    if depth == 0:
        return out
    sub = _trees(depth - 1, leaves)
    small = sub[:6]
    for a in small:
        out += [[a], (a,), {"k": a}, MyList([a]), Opaque(a)]
        for b in small[:3]:
            out += [[a, b], (a, b), {"k1": a, "k2": b}]
    return out


def _spec(v, val):
    """sub(v) of DESIGN C02: returns (contains_node, substituted value)"""
    import uberjob.graph as ug

    if isinstance(v, ug.Node):
        return True, val[id(v)]
    t = type(v)
    if t in (list, tuple, set):
        parts = [_spec(x, val) for x in v]
        if any(c for c, _ in parts):
            return True, t(x for _, x in parts)
        return False, v
    if t is dict:
        parts = [(_spec(k, val), _spec(x, val)) for k, x in v.items()]
        if any(ck or cx for (ck, _), (cx, _) in parts):
            return True, dict((k, x) for (_, k), (_, x) in parts)
        return False, v
    return False, v


def _same(a, b):
    """structural equality with identity at opaque leaves"""
    if type(a) is not type(b):
        return False
    if type(a) in (list, tuple):
        return len(a) == len(b) and all(_same(x, y) for x, y in zip(a, b))
    if type(a) is dict:
        return list(a) == list(b) and all(_same(a[k], b[k]) for k in a) if all(not isinstance(k, tuple) for k in a) else a == b
    if type(a) is set:
        return a == b
    if isinstance(a, (int, str)) and not isinstance(a, bool):
        return a == b
    return a is b


def run_gather_bounded(ctx):
    """bounded: all argument trees of depth <= 2 (width <= 2) over {node, atom, list, tuple, set, dict, list subclass, opaque}; <= 3 positional, <= 2 keyword arguments"""
    from ujvc.z3env import ensure_repo_first

    ensure_repo_first()
    import uberjob

    checked, bad = 0, []
    for workers in (1, 3):
        plan = uberjob.Plan()
        n1 = plan.call(lambda: "v1")
        n2 = plan.call(lambda: ("v2",))
        atom = object()
        val = {id(n1): "v1", id(n2): ("v2",)}
        leaves = [n1, n2, atom, 7, "s"]
        trees = _trees(2, leaves)
        trees += [{n1: "node-as-key"}, {n1: 1, "v1": 2}, {"a": n1, "b": [n2, {"c": (n1, atom)}]}, {n1, n2}, [MyList([n1])], (Opaque(n1), n1)]
        got = {}

        def f(*a, **k):
            return ("F", a, tuple(k.items()))

        for t in trees:
            for shape in ("pos", "kw", "mixed"):
                try:
                    if shape == "pos":
                        c = plan.call(f, t, atom, t)
                        want = ("F", (_spec(t, val)[1], atom, _spec(t, val)[1]), ())
                    elif shape == "kw":
                        c = plan.call(f, zeta=t, alpha=n1)
                        want = ("F", (), (("zeta", _spec(t, val)[1]), ("alpha", "v1")))
                    else:
                        c = plan.call(f, n2, t, b=t)
                        want = ("F", (("v2",), _spec(t, val)[1]), (("b", _spec(t, val)[1]),))
                except TypeError:
                    continue  # unhashable set/dict members are rejected by Python itself
                try:
                    r = uberjob.run(plan, output=c, max_workers=workers, progress=None)
                except Exception as e:  # noqa: BLE001  (a failure of the real code on a legal input is a finding, not a crash of the checker)
                    r = ("raised", (repr(e),), ())
                checked += 1
                ok = r[0] == "F" and len(r[1]) == len(want[1]) and all(_same(x, y) for x, y in zip(r[1], want[1])) and \
                    [k for k, _ in r[2]] == [k for k, _ in want[2]] and all(_same(x, y) for (_, x), (_, y) in zip(r[2], want[2]))
                if not ok and len(bad) < 3:
                    bad.append((shape, repr(t)[:120], repr(r)[:200], repr(want)[:200]))
            # output specification
            try:
                r = uberjob.run(plan, output=t, max_workers=workers, progress=None)
            except Exception as e:  # noqa: BLE001
                r = ("raised", repr(e))
            checked += 1
            if not _same(r, _spec(t, val)[1]) and len(bad) < 3:
                bad.append(("output", repr(t)[:120], repr(r)[:200], repr(_spec(t, val)[1])[:200]))
    # multi-step construction on ONE plan: a container is passed, mutated, and passed again (running-total pattern); every call must
    # receive the shape the container had WHEN THE CALL WAS CREATED (plan.call gathers at call time, C02 is about each call's arguments)
    plan = uberjob.Plan()
    n1, n2, n3 = plan.call(lambda: "v1"), plan.call(lambda: "v2"), plan.call(lambda: "v3")
    val = {id(n1): "v1", id(n2): "v2", id(n3): "v3"}

    def g(*a, **k):
        return ("G", a, tuple(k.items()))

    steps = []
    L, D, S, T = [n1], {"a": n1}, {n1}, ([n1], 0)
    for extra in (None, n2, n3):
        if extra is not None:
            L.append(extra)
            D[f"k{len(D)}"] = extra
            S.add(extra)
            T[0].append(extra)
        for cont in (L, D, S, T):
            steps.append((plan.call(g, cont, x=cont), _spec(cont, val)[1]))
    for c, want in steps:
        for workers in (1, 3):
            try:
                r = uberjob.run(plan, output=c, max_workers=workers, progress=None)
            except Exception as e:  # noqa: BLE001
                r = ("raised", repr(e))
            checked += 1
            ok = r[0] == "G" and len(r[1]) == 1 and _same(r[1][0], want) and len(r[2]) == 1 and r[2][0][0] == "x" and _same(r[2][0][1], want)
            if not ok and len(bad) < 3:
                bad.append(("multi-step", repr(want)[:120], repr(r)[:200]))
    # multi-step construction, plain values: successive calls on ONE plan (same scope, and inside plan.scope) pass values that are EQUAL but
    # not the same (True / 1 / 1.0, -0.0 / 0.0, two equal tuples / frozensets / strings built separately); every call must receive the very
    # object it was given - direct evaluation would hand over exactly that object (its type and identity are observable by the callee)
    plan = uberjob.Plan()

    def h(*a, **k):
        return ("H", a, tuple(k.items()))

    one = 1
    groups = [[1, True, 1.0], [0.0, -0.0, False, 0], [(one, 2), tuple([one, 2])], [frozenset([one]), frozenset([one, one])], ["ab", "".join(["a", "b"])], [None, None]]
    steps = []
    for scoped in (False, True):
        for grp in groups:
            for v in grp:
                if scoped:
                    with plan.scope("sc"):
                        steps.append((plan.call(h, v, k=v), v))
                        steps.append((plan.call(h, [v, (v,)]), v))
                else:
                    steps.append((plan.call(h, v, k=v), v))
                    steps.append((plan.call(h, [v, (v,)]), v))
    for c, v in steps:
        try:
            r = uberjob.run(plan, output=c, max_workers=1, progress=None)
        except Exception as e:  # noqa: BLE001
            r = ("raised", repr(e))
        checked += 1
        if r[0] == "H" and len(r[1]) == 1 and isinstance(r[1][0], list):
            got_vs = [r[1][0][0], r[1][0][1][0]] if len(r[1][0]) == 2 and isinstance(r[1][0][1], tuple) and len(r[1][0][1]) == 1 else ["<shape>"]
        elif r[0] == "H" and len(r[1]) == 1 and len(r[2]) == 1:
            got_vs = [r[1][0], r[2][0][1]]
        else:
            got_vs = ["<shape>"]
        if not all(x is v for x in got_vs) and len(bad) < 3:
            bad.append(("equal-but-distinct plain values", repr(v), type(v).__name__, repr(r)[:200]))
    ctx.check("bounded/every-call-received-exactly-the-substituted-arguments(order,names,identity,shape)", bool(not bad), info=f"{checked} runs; first mismatches: {bad}")
    ctx.check("bounded/nontrivial-number-of-cases", bool(checked > 300), info=str(checked))
    return "ok"


unit("plumbing.gather-roundtrip[bounded:depth<=2]", props=["C02"],
     functions=[(PL, "Plan._gather"), (PL, "Plan.call"), (GR, "get_argument_nodes"), (BI, "gather_list"), (BI, "gather_dict")],
     assumptions=["bounded stand-in: argument trees of depth <= 2, width <= 2; six groups of equal-but-distinct plain values passed by successive calls on one plan"],
     min_obligations=2, kind="bounded")(run_gather_bounded)


def run_call_admission(ctx):
    """bounded: a family of callable KINDS (function, lambda, builtin, class, bound method, partial, hashable and unhashable callable instances,
    callable without a signature).  Plan.call either rejects a callable (TypeError, nothing added) or admits it; an admitted call must be usable by
    everything downstream that names it: get_full_call_scope, CallError(call), and a run in which it raises ends in a CallError carrying that call
    with every 'running' closed (C15) - and one in which it returns delivers its value (C02)"""
    import dataclasses
    import functools as ft
    import threading

    from ujvc.z3env import ensure_repo_first

    ensure_repo_first()
    import uberjob
    from uberjob._errors import CallError
    from uberjob._graph import get_full_call_scope

    @dataclasses.dataclass
    class UnhashableCallable:
        tag: str = "u"
        fail: bool = False

        def __call__(self):
            if self.fail:
                raise ValueError("unhashable boom")
            return ("value", self.tag)

    class HashableCallable:
        def __init__(self, fail=False):
            self.fail = fail

        def __call__(self):
            if self.fail:
                raise ValueError("hashable boom")
            return ("value", "h")

    class EqOnly:
        """defines __eq__ without __hash__: unhashable"""
        def __init__(self, fail=False):
            self.fail = fail

        def __eq__(self, other):
            return self is other

        def __call__(self):
            if self.fail:
                raise ValueError("eqonly boom")
            return ("value", "e")

    class K:
        def __init__(self):
            pass

        def m(self):
            return ("value", "m")

        def bad(self):
            raise ValueError("method boom")

    def fn():
        return ("value", "f")

    def fn_bad():
        raise ValueError("function boom")

    def two(a, b=0):
        if b:
            raise ValueError("partial boom")
        return ("value", "p")

    kinds = [("function", fn, fn_bad), ("lambda", lambda: ("value", "l"), lambda: [][0]), ("class", K, None), ("builtin", dict, None),
             ("bound-method", K().m, K().bad), ("partial", ft.partial(two, 1), ft.partial(two, 1, 1)),
             ("hashable-instance", HashableCallable(), HashableCallable(True)), ("unhashable-dataclass", UnhashableCallable(), UnhashableCallable(fail=True)),
             ("eq-without-hash", EqOnly(), EqOnly(True))]

    class Obs(uberjob.progress.ProgressObserver):
        def __init__(self):
            self.ev, self.lock = [], threading.Lock()

        def __enter__(self):
            self.ev.append(("enter",))
            return self

        def __exit__(self, *a):
            self.ev.append(("exit",))

        def increment_total(self, *, section, scope, amount):
            with self.lock:
                self.ev.append(("total", section, scope, amount))

        def increment_running(self, *, section, scope):
            with self.lock:
                self.ev.append(("running", section, scope))

        def increment_completed(self, *, section, scope):
            with self.lock:
                self.ev.append(("completed", section, scope))

        def increment_failed(self, *, section, scope, exception):
            with self.lock:
                self.ev.append(("failed", section, scope, exception))

    class P(uberjob.progress.Progress):
        def __init__(self, o):
            self.o = o

        def observer(self):
            return self.o

    def open_runnings(ev):
        import collections
        c = collections.Counter()
        for e in ev:
            if e[0] == "running":
                c[(e[1], e[2])] += 1
            elif e[0] in ("completed", "failed"):
                c[(e[1], e[2])] -= 1
        return {k: v for k, v in c.items() if v}

    bad, admitted, rejected = [], 0, 0
    for name, good, failing in kinds:
        for which, f in (("ok", good), ("raising", failing)):
            if f is None:
                continue
            plan = uberjob.Plan()
            n0 = len(plan.graph)
            try:
                node = plan.call(f)
            except TypeError:
                rejected += 1
                if len(plan.graph) != n0:
                    bad.append((name, which, "rejected but the plan was changed"))
                continue
            admitted += 1
            try:
                scope = get_full_call_scope(node)
                err = CallError(node)
                if not (isinstance(scope, tuple) and isinstance(err, Exception) and err.call is node):
                    bad.append((name, which, f"scope={scope!r} err={err!r}"))
            except Exception as e:  # noqa: BLE001
                bad.append((name, which, f"admitted by Plan.call but cannot be named: {type(e).__name__}: {e}"))
            for workers in (1, 2):
                obs = Obs()
                try:
                    r = uberjob.run(plan, output=node, max_workers=workers, progress=P(obs))
                    out = ("ret", r)
                except Exception as e:  # noqa: BLE001
                    out = ("raise", e)
                if which == "ok":
                    if not (out[0] == "ret" and (name in ("class", "builtin") or (isinstance(out[1], tuple) and out[1][0] == "value"))):
                        bad.append((name, which, workers, f"returning callable: run gave {out!r}"))
                else:
                    if not (out[0] == "raise" and isinstance(out[1], CallError) and out[1].call is node and out[1].__cause__ is not None):
                        bad.append((name, which, workers, f"raising callable: run gave {out!r} instead of a CallError carrying the call"))
                if open_runnings(obs.ev) or obs.ev[:1] != [("enter",)] or obs.ev[-1:] != [("exit",)]:
                    bad.append((name, which, workers, f"progress trace not closed: open={open_runnings(obs.ev)} ends={obs.ev[:1]}..{obs.ev[-1:]}"))
    # callables that are EQUAL (and hash alike) but are different objects of different classes: each call runs ITS OWN function and is reported
    # under ITS OWN scope - nothing may be keyed by the callable's value
    import typing

    class Add(typing.NamedTuple):
        k: int

        def __call__(self, x=10):
            return ("add", x + self.k)

    class Mul(typing.NamedTuple):
        k: int

        def __call__(self, x=10):
            return ("mul", x * self.k)

    for workers in (1, 3):
        for first, second in ((Add(2), Mul(2)), (Mul(2), Add(2)), (Add(2), Add(2.0))):
            for retry in (None, 2):
                plan = uberjob.Plan()
                try:
                    with plan.scope("stage"):
                        n1, n2 = plan.call(first), plan.call(second)
                except TypeError:
                    rejected += 1
                    continue
                admitted += 1
                obs = Obs()
                kw = {"retry": retry} if retry else {}
                try:
                    r = uberjob.run(plan, output=[n1, n2], max_workers=workers, progress=P(obs), **kw)
                except Exception as e:  # noqa: BLE001
                    r = ("raised", repr(e))
                want = [first(), second()]
                if r != want or [type(x[1]) for x in r] != [type(x[1]) for x in want]:
                    bad.append(("equal-callables", repr((first, second)), workers, retry, f"run gave {r!r}, direct evaluation {want!r}"))
                import collections as _c

                tot, comp = _c.Counter(), _c.Counter()
                for e in obs.ev:
                    if e[0] == "total" and e[1] == "run":
                        tot[e[2]] += e[3]
                    elif e[0] == "completed" and e[1] == "run":
                        comp[e[2]] += 1
                if tot != comp:
                    bad.append(("equal-callables", repr((first, second)), workers, retry, f"announced {dict(tot)} but completed {dict(comp)}"))
    ctx.check("bounded/every-callable-Plan.call-admits-can-be-named,run,and-reported(CallError-with-the-call;every-running-closed)", bool(not bad),
              info=f"admitted={admitted} rejected={rejected}; first problems: {bad[:3]}")
    ctx.check("bounded/callable-kinds-nontrivial", bool(admitted >= 10), info=f"admitted={admitted} rejected={rejected}")
    return "ok"


unit("plumbing.call-admission[bounded:callable-kinds]", props=["C15", "C19", "C02"],
     functions=[(PL, "Plan.call"), (PL, "Plan._call"), ("_util/validation.py", "try_get_signature"), ("_util/validation.py", "assert_can_bind"),
                ("_graph.py", "get_full_call_scope"), ("_errors.py", "CallError.__init__"), ("_util/__init__.py", "fully_qualified_name")],
     assumptions=["bounded stand-in: nine kinds of callable, each returning and raising, 1 and 2 workers"], min_obligations=2, kind="bounded")(run_call_admission)


def native_admission_main():
    import sys

    c = _NativeCtx()
    run_call_admission(c)
    for name, info in c.failed:
        print("C15/C19 violated:", name, info[:1500])
    print("ok" if not c.failed else "failed")
    sys.exit(1 if c.failed else 0)


class _NativeCtx:
    """stand-alone driver for the bounded round trip (native replay: prints the failing inputs found on the real code)"""

    def __init__(self):
        self.failed = []

    def check(self, name, goal, info="", **kw):
        if not goal:
            self.failed.append((name, info))


def native_gather_main():
    import sys

    c = _NativeCtx()
    run_gather_bounded(c)
    for name, info in c.failed:
        print("C02 violated:", name, info[:1500])
    print("ok" if not c.failed else "failed")
    sys.exit(1 if c.failed else 0)


import os as _os

_VERIF = _os.path.dirname(_os.path.dirname(_os.path.abspath(__file__)))
GATHER_REPLAY_SCRIPT = f"import sys; sys.path.insert(1, {_VERIF!r}); from contracts.plumbing import native_gather_main; native_gather_main()"


def _replay_gather(ob):
    import os
    import subprocess

    from ujvc.z3env import REPO_SRC

    p = __import__('ujvc.units', fromlist=['run_native_p']).run_native_p(["/venv/bin/python", "-c", GATHER_REPLAY_SCRIPT], env=dict(os.environ, PYTHONPATH=REPO_SRC), timeout=600)
    return {"reproduced": p.returncode == 1, "detail": (p.stdout + p.stderr)[-3000:], "script": GATHER_REPLAY_SCRIPT}


ADMISSION_REPLAY_SCRIPT = f"import sys; sys.path.insert(1, {_VERIF!r}); from contracts.plumbing import native_admission_main; native_admission_main()"


def _replay_admission(ob):
    import os

    from ujvc.z3env import REPO_SRC

    p = __import__('ujvc.units', fromlist=['run_native_p']).run_native_p(["/venv/bin/python", "-c", ADMISSION_REPLAY_SCRIPT], env=dict(os.environ, PYTHONPATH=REPO_SRC), timeout=300)
    return {"reproduced": p.returncode == 1, "detail": (p.stdout + p.stderr)[-3000:], "script": ADMISSION_REPLAY_SCRIPT}


UNPACK_SCRIPT = """
import sys
import uberjob
bad = []
fams = {"distinct": lambda i: ("item", i), "falsy": lambda i: (None, (), "", None, 0.0, None, [])[i % 7]}
for fam, item in fams.items():
    for n in range(1, 4):          # with length 0 nothing is requested from the unpack call, so it does not run at all
        for m in (n - 1, n, n + 1, n + 2):
            items = [item(i) for i in range(m)]
            for mk, what in ((list, "list"), (tuple, "tuple"), (iter, "iterator"), (lambda xs: (x for x in xs), "generator")):
                plan = uberjob.Plan()
                src = plan.call(lambda: mk(list(items)))
                parts = plan.unpack(src, n)
                try:
                    got = ("ret", uberjob.run(plan, output=list(parts), progress=None))
                except uberjob.CallError as e:
                    got = ("raise", type(e.__cause__).__name__)
                try:
                    want = ("ret", list(tuple(items)) if len(items) == n else None)
                    if want[1] is None: want = ("raise", "ValueError")
                except Exception: pass
                ok = got == want if got[0] == "raise" or want[0] == "raise" else (len(got[1]) == n and all(a is b or a == b for a, b in zip(got[1], want[1])))
                if not ok: bad.append((fam, what, n, m, got, want))
for b in bad[:5]: print("plan.unpack(%s items, %s, length %d) on %d item(s): got %r, direct unpacking gives %r" % b)
sys.exit(1 if bad else 0)
"""


def _replay_unpack(ob):
    import os

    from ujvc.units import run_native_p
    from ujvc.z3env import REPO_SRC

    p = run_native_p(["/venv/bin/python", "-c", UNPACK_SCRIPT], env=dict(os.environ, PYTHONPATH=REPO_SRC), timeout=300)
    return {"reproduced": p.returncode == 1, "detail": (p.stdout + p.stderr)[-2000:], "script": UNPACK_SCRIPT}


REPLAYS = [("plumbing.unpack*", _replay_unpack), ("plumbing.call-admission*", _replay_admission), ("plumbing.gather*", _replay_gather), ("plumbing.Plan._call*", _replay_gather), ("argnodes.*", _replay_gather), ("gather.*", _replay_gather)]
