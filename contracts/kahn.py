"""Sidecar contract for networkx_util.topological_sort / assert_acyclic (property C07: cycles are rejected up front;
C02: an acyclic plan is never rejected).

Ghost state: P (nodes popped and fully processed), dp(v) = the processed predecessors of v, rank (order of popping).
The work list q is a BAG (mult : Node -> Int), pred_count_mapping a dict (dom, val).

loop 0 (over graph.nodes, visited V):   dom == {v in V | npred(v) > 0}, val[v] == npred(v);  mult(v) == [v in V and npred(v) == 0]
loop 1 (``while q``) invariant L1:
   A  dom == {v in N | npred(v) > 0}                       B  for v in dom: val[v] == npred(v) - card(dp(v))
   C  dp(v)[u] <=> pred(v)[u] and P[u]                    D  mult in {0,1};  q and P disjoint;
                                                              (mult(v) = 1 or P[v]) <=> v in N and (npred(v) = 0 or val[v] = 0)
   E  for v in P, u in pred(v): P[u] and rank(u) < rank(v);  every rank in P is below the clock
loop 2 (over succ[node], visited S, cur = the popped node): the same with
   C' dp(v)[u] <=> pred(v)[u] and (P[u] or (u = cur and S[v]))     D' cur is neither in q nor in P, and counts as 'released'
   pred(cur) subset P
Post:  returns normally (generator exhausted, no exception)  =>  P == N and rank is a topological numbering (every edge goes
       up in rank), hence the graph is acyclic (L-RANK) - i.e. a cyclic graph is rejected;
       raises HasACycle  =>  the set U = N - P is non-empty and every node of U has a predecessor in U, hence a cycle exists
       (L-CYCLE) - i.e. an acyclic graph is never rejected.
Cardinality facts are instances of the L-PIGEON schemas (contracts/lemmas.py).
"""
from ujvc.core import EngineSignal, Unsupported
from ujvc.units import get, unit
from ujvc.vc import VC, IntS, LoopContract, SBool, SInt
from ujvc.z3env import z3

from . import gstate as G
from .gproxies import ContainerVC, NeighbourView, NodesView, SNode, StaticGraph, SymBag, SymDict, node_t
from .gstate import Node, member, insert
from .runphys import _catch

NU = "_util/networkx_util.py"


class Cycle(Exception):
    pass


class KState:
    def __init__(self, ctx, g):
        self.ctx, self.g = ctx, g
        self.P = G.EMPTY
        self.dp = z3.K(Node, G.EMPTY)
        self.rank = ctx.fresh(G.MapNI, "rank")
        self.clock = z3.IntVal(0)
        self.cur = None

    def havoc(self, tag):
        c = self.ctx
        self.P, self.dp = c.fresh(G.SetN, f"P.{tag}"), c.fresh(G.MapNS, f"dp.{tag}")
        self.rank, self.clock = c.fresh(G.MapNI, f"rank.{tag}"), c.fresh(IntS, f"clock.{tag}")


class KDict(SymDict):
    def __init__(self, ctx, ks):
        super().__init__(ctx)
        self.ks = ks

    def __getitem__(self, k):
        t = node_t(k)
        # lemma instance: cur is a predecessor of the successor being decremented => npred >= 1
        if self.ks.cur is not None:
            self.ctx.assume(G.L_card_pos(G.pred(t), self.ks.cur))
        self.ctx.check("defined:pred_count_mapping[successor]", member(self.dom, t), props=["C07"], info="KeyError")
        return SInt(self.ctx, z3.Select(self.val, t))

    def __setitem__(self, k, v):
        t = node_t(k)
        if isinstance(v, SInt) and self.ks.cur is not None and self.ks.in_inner:
            # ghost: dp(successor) += cur, attached to the decrement
            ks = self.ks
            ds = z3.Select(ks.dp, t)
            self.ctx.assume(G.L_card_insert(ds, ks.cur))
            ks.dp = z3.Store(ks.dp, t, insert(ds, ks.cur))
            ks.touched = t
        super().__setitem__(k, v)

    def values(self):
        return KValues(self)


class KValues:
    def __init__(self, d):
        self.d = d


class KBag(SymBag):
    def __init__(self, ctx, ks):
        super().__init__(ctx)
        self.ks = ks

    def __bool__(self):
        x = z3.Const("x!kb", Node)
        if self.ctx.choose(2, "q-nonempty") == 0:
            return True
        self.ctx.assume(z3.ForAll([x], z3.Select(self.mult, x) <= 0))
        return False

    def pop(self, *a):
        x = self.ctx.fresh(Node, "popped")
        self.ctx.assume(z3.Select(self.mult, x) >= 1)
        self.mult = z3.Store(self.mult, x, z3.Select(self.mult, x) - 1)
        self.ks.cur = x
        return SNode(x)


def L1(ks, q, d, N, inner=None):
    """loop-1 invariant; with inner = (cur, S) the loop-2 variant"""
    v, u = z3.Const("v!k", Node), z3.Const("u!k", Node)
    np_ = G.npred(v)
    dpv = z3.Select(ks.dp, v)
    inq = z3.Select(q.mult, v) == 1
    if inner is None:
        cpart = z3.And(member(G.pred(v), u), member(ks.P, u))
        released = z3.Or(inq, member(ks.P, v))
        extra = []
    else:
        cur, S = inner
        cpart = z3.And(member(G.pred(v), u), z3.Or(member(ks.P, u), z3.And(u == cur, member(S, v))))
        released = z3.Or(inq, member(ks.P, v), v == cur)
        extra = [z3.Select(q.mult, cur) == 0, z3.Not(member(ks.P, cur)), member(N, cur),
                 z3.ForAll([u], z3.Implies(member(G.pred(cur), u), member(ks.P, u))),
                 z3.ForAll([v], z3.Implies(member(S, v), member(G.succ(cur), v)))]
    return z3.And([
        z3.ForAll([v], member(d.dom, v) == z3.And(member(N, v), np_ > 0)),
        z3.ForAll([v], z3.Implies(member(d.dom, v), z3.Select(d.val, v) == np_ - G.card(dpv))),
        z3.ForAll([v, u], member(dpv, u) == cpart),
        z3.ForAll([v], z3.And(z3.Select(q.mult, v) >= 0, z3.Select(q.mult, v) <= 1, z3.Not(z3.And(inq, member(ks.P, v))))),
        z3.ForAll([v], released == z3.And(member(N, v), z3.Or(np_ == 0, z3.Select(d.val, v) == 0))),
        z3.ForAll([v, u], z3.Implies(z3.And(member(ks.P, v), member(G.pred(v), u)), z3.And(member(ks.P, u), z3.Select(ks.rank, u) < z3.Select(ks.rank, v)))),
        z3.ForAll([v], z3.Implies(member(ks.P, v), z3.And(z3.Select(ks.rank, v) < ks.clock, member(N, v)))),
    ] + extra)


class Loop0(LoopContract):
    def __init__(self, u):
        self.u = u

    def inv(self, V):
        q, d = self.u["q"](), self.u["d"]()
        v = z3.Const("v!l0", Node)
        np_ = G.npred(v)
        return z3.And(
            z3.ForAll([v], member(d.dom, v) == z3.And(member(V, v), np_ > 0)),
            z3.ForAll([v], z3.Implies(member(d.dom, v), z3.Select(d.val, v) == np_)),
            z3.ForAll([v], z3.Select(q.mult, v) == z3.If(z3.And(member(V, v), np_ == 0), 1, 0)),
        )

    def establish(self, ctx, it, locs):
        ctx.check("loop0/establish", self.inv(G.EMPTY), props=["C07"])

    def havoc(self, ctx, it, locs):
        g = self.u["g"]
        q, d = self.u["q"](), self.u["d"]()
        self.V = ctx.fresh(G.SetN, "V")
        ctx.assume(G.subset(self.V, g.N, "kv"))
        q.mult = ctx.fresh(q.mult.sort(), "qmult")
        d.dom, d.val = ctx.fresh(G.SetN, "dom"), ctx.fresh(G.MapNI, "val")
        ctx.assume(self.inv(self.V))
        return {}

    def iterate(self, ctx, it):
        if ctx.choose(2, "nodes-loop") == 0:
            x = ctx.fresh(Node, "node")
            ctx.assume(z3.And(member(self.u["g"].N, x), z3.Not(member(self.V, x))))
            ctx.assume(G.L_card_nonneg(G.pred(x)))
            self.x = x
            self.current = SNode(x)
            return True
        return False

    def preserve(self, ctx, locs):
        ctx.check("loop0/preserve", self.inv(insert(self.V, self.x)), props=["C07"])

    def at_exit(self, ctx, it):
        ctx.assume(G.seteq(self.V, self.u["g"].N, "kx"))
        self.u["loop0_done"] = True


class Loop1(LoopContract):
    """while q:"""

    def __init__(self, u):
        self.u = u

    def establish(self, ctx, it, locs):
        u = self.u
        ctx.assume(G.L_card_empty())
        ctx.check("loop1/establish", L1(u["ks"], u["q"](), u["d"](), u["g"].N), props=["C07"])

    def havoc(self, ctx, it, locs):
        u = self.u
        ks, q, d = u["ks"], u["q"](), u["d"]()
        ks.havoc("l1")
        q.mult = ctx.fresh(q.mult.sort(), "qmult")
        d.val = ctx.fresh(G.MapNI, "val")
        d.dom = ctx.fresh(G.SetN, "dom")
        ks.cur, ks.in_inner = None, False
        ctx.assume(L1(ks, q, d, u["g"].N))
        return {}

    def preserve(self, ctx, locs):
        u = self.u
        ctx.check("loop1/preserve", L1(u["ks"], u["q"](), u["d"](), u["g"].N), props=["C07"])
        ctx.check("loop1/each-iteration-yields-the-popped-node", bool(u["yields"] == 1), props=["C07"])


class Loop2(LoopContract):
    """for successor in succ[node]:"""

    def __init__(self, u):
        self.u = u

    def establish(self, ctx, it, locs):
        u = self.u
        ks = u["ks"]
        if not isinstance(it, NeighbourView) or it.kind != "succ" or ks.cur is None or it.of is not ks.cur:
            raise Unsupported("inner loop does not iterate the successors of the popped node")
        # lemma instances: the popped node was released (in q), so all its predecessors are processed (pigeonhole)
        dc = z3.Select(ks.dp, ks.cur)
        ctx.assume(G.L_card_subset(dc, G.pred(ks.cur)))
        ctx.assume(G.L_card_zero(G.pred(ks.cur)))
        ks.in_inner = True
        ctx.check("loop2/establish", L1(ks, u["q"](), u["d"](), u["g"].N, inner=(ks.cur, G.EMPTY)), props=["C07"])

    def havoc(self, ctx, it, locs):
        u = self.u
        ks, q, d = u["ks"], u["q"](), u["d"]()
        cur = ks.cur
        ks.havoc("l2")
        ks.cur = cur
        q.mult = ctx.fresh(q.mult.sort(), "qmult")
        d.val, d.dom = ctx.fresh(G.MapNI, "val"), ctx.fresh(G.SetN, "dom")
        self.S = ctx.fresh(G.SetN, "S")
        ctx.assume(L1(ks, q, d, u["g"].N, inner=(cur, self.S)))
        return {}

    def iterate(self, ctx, it):
        ks = self.u["ks"]
        if ctx.choose(2, "succ-loop") == 0:
            s = ctx.fresh(Node, "succ")
            ctx.assume(z3.And(member(G.succ(ks.cur), s), z3.Not(member(self.S, s))))
            ctx.assume(member(self.u["g"].N, s))
            ds = z3.Select(ks.dp, s)
            ctx.assume(G.L_card_subset(ds, G.pred(s)))
            ctx.assume(G.L_card_nonneg(ds))
            self.s = s
            self.current = SNode(s)
            return True
        return False

    def preserve(self, ctx, locs):
        u = self.u
        ks = u["ks"]
        ds = z3.Select(ks.dp, self.s)
        ctx.assume(G.L_card_subset(ds, G.pred(self.s)))
        ctx.check("loop2/preserve", L1(ks, u["q"](), u["d"](), u["g"].N, inner=(ks.cur, insert(self.S, self.s))), props=["C07"])

    def at_exit(self, ctx, it):
        ks = self.u["ks"]
        ctx.assume(G.seteq(self.S, G.succ(ks.cur), "ks"))
        ks.in_inner = False
        # ghost: the popped node is now fully processed
        ks.rank = z3.Store(ks.rank, ks.cur, ks.clock)
        ks.clock = ks.clock + 1
        ks.P = insert(ks.P, ks.cur)


@unit("kahn.assert_acyclic", props=["C07", "C02", "C04"], functions=[(NU, "topological_sort"), (NU, "assert_acyclic")], inlined=["topological_sort"],
      assumptions=["T5 graph.pred / graph.succ / graph.nodes views", "L-RANK: a numbering that increases along every edge excludes cycles",
                   "L-CYCLE: a non-empty finite set in which every node has a predecessor in the set contains a cycle",
                   "termination of the work-list loop is not an obligation here (each iteration moves one node into P; finite graph)"],
      min_obligations=8)
def kahn_unit(ctx):
    g = StaticGraph(ctx)
    ks = KState(ctx, g)
    ks.in_inner = False
    created = {"q": [], "d": []}

    class KVC(VC, ContainerVC):
        def new_list(self):
            b = KBag(ctx, ks)
            created["q"].append(b)
            return b

        def new_dict(self):
            d = KDict(ctx, ks)
            created["d"].append(d)
            return d

        def resolve_loop(self, key, it):
            if isinstance(it, NodesView) or it is g:
                return Loop0(u)
            if isinstance(it, NeighbourView):
                return Loop2(u)
            if it is None:
                return Loop1(u)
            return None

    def one(kind):
        def f():
            if len(created[kind]) != 1:
                raise Unsupported("topological_sort no longer uses exactly one work list and one counter dict")
            return created[kind][0]

        return f

    u = {"g": g, "ks": ks, "q": one("q"), "d": one("d"), "yields": 0}
    vc = KVC(ctx)

    def _any(x):
        if isinstance(x, KValues):
            d = x.d
            v = z3.Const("v!any", Node)
            return ctx.branch(z3.Exists([v], z3.And(member(d.dom, v), z3.Select(d.val, v) != 0)), "any-counter-nonzero")
        return any(x)

    class _nx:
        HasACycle = Cycle

    import collections as _real_collections

    class _collections:
        """the work list may equally be a deque used as a stack (append / pop / truthiness): same symbolic bag"""

        @staticmethod
        def deque(*a, **k):
            if a or k:
                return _real_collections.deque(*a, **k)
            return vc.new_list()

        def __getattr__(self, name):
            return getattr(_real_collections, name)

    env = {"__vc": vc, "len": vc.len, "any": _any, "nx": _nx, "collections": _collections(), "deque": _collections.deque}
    ts = get(NU, "topological_sort", cut_loops="auto", sym_containers=True).compile_into(env)

    def counting_ts(graph):
        for n in ts(graph):
            u["yields"] += 1
            yield n

    env["topological_sort"] = counting_ts
    aa = get(NU, "assert_acyclic", native_loops="all").compile_into(env)
    kind, val = _catch(ctx, lambda: aa(g))
    q, d = u["q"](), u["d"]()
    N = g.N
    v, w = z3.Const("v!post", Node), z3.Const("w!post", Node)
    if kind == "ret":
        ctx.check("post:returns-normally=>every-node-was-processed", z3.ForAll([v], member(ks.P, v) == member(N, v)), props=["C07"])
        ctx.check("post:returns-normally=>rank-increases-along-every-edge(acyclic-by-L-RANK)",
                  z3.ForAll([v, w], z3.Implies(z3.And(member(N, v), member(G.pred(v), w)), z3.Select(ks.rank, w) < z3.Select(ks.rank, v))), props=["C07"])
        return "acyclic"
    ctx.check("post:only-HasACycle-is-raised", bool(isinstance(val, Cycle)), info=repr(val), props=["C07"])
    if isinstance(val, Cycle):
        inU = lambda x: z3.And(member(N, x), z3.Not(member(ks.P, x)))  # noqa: E731
        # lemma instances for the witness node whose counter is non-zero are quantified: use the pigeonhole schema for every v
        ctx.assume(z3.ForAll([v], G.L_card_ext(z3.Select(ks.dp, v), G.pred(v))))
        ctx.check("post:HasACycle=>some-node-is-unprocessed", z3.Exists([v], inU(v)), props=["C02", "C07"])
        ctx.check("post:HasACycle=>every-unprocessed-node-has-an-unprocessed-predecessor(a-cycle-exists-by-L-CYCLE)",
                  z3.ForAll([v], z3.Implies(inU(v), z3.Exists([w], z3.And(member(G.pred(v), w), inU(w))))), props=["C02", "C07"])
    return "cyclic"
