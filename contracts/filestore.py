"""Sidecar contracts for uberjob/stores/_file_store.py and the five file stores' write methods
(property C11: atomic replacement at every failure point).

The real ``staged_write_path``, ``staged_write``, ``_try_remove`` and each store's ``write`` are
extracted and executed natively (real ``contextlib.contextmanager``), with ``open`` / ``os`` /
``json.dump`` / ``pickle.dump`` replaced by stubs acting on a ghost file system.  The program is
loop-free, so the complete decision tree - every operation x {ok, raise, partial+raise, die} - is
enumerated: this is a complete proof relative to the operation contracts (T8), not a bounded one.

Operation contracts (T8):
  open(p, 'w..')    raises OSError with fs unchanged | fs[p] := (empty, fresh mtime), returns handle
  h.write(d)        raises with nothing appended | appends a strict prefix of d then raises | appends d
  json/pickle.dump  raises at once (unserialisable) | h.write(part A); raises | h.write(A); h.write(B)
  h.close (with)    ok | raises OSError (file then counts as not intact)
  os.replace(a,b)   raises OSError with fs unchanged | fs[b] := fs[a] (content and mtime), a removed: one step
  os.remove(p)      removes | raises OSError (also when absent)
  death             after any operation (also after a partial append) nothing further takes effect

Obligations, with old = fs0[target] (possibly absent), arbitrary pre-existing staging file:
  PHI after EVERY operation:  fs[target] is old  or  an intact complete file written by this call;
                              mtime(target) changed => the latter
  normal exit:      fs[target] = the complete new content, staging absent
  exceptional exit: fs[target] = old (content and mtime), staging absent (unless os.remove itself failed),
                    an exception propagates
"""
import contextlib
import os.path as _os_path
import pathlib
import textwrap

from ujvc.core import EngineSignal
from ujvc.units import base_env, get, unit, user_value

REL = "stores/_file_store.py"
STORES = {
    "JsonFileStore": "stores/_json_file_store.py",
    "PickleFileStore": "stores/_pickle_file_store.py",
    "TextFileStore": "stores/_text_file_store.py",
    "BinaryFileStore": "stores/_binary_file_store.py",
    "TouchFileStore": "stores/_touch_file_store.py",
}


class FaultOS(OSError):
    pass


class FaultSer(TypeError):
    """serialisation error raised by json.dump / pickle.dump part-way through"""


class BlockError(Exception):
    """exception raised by the caller's with-block"""


class Interrupt(BaseException):
    """a failure that is not an Exception (KeyboardInterrupt, SystemExit raised while writing)"""


class File:
    __slots__ = ("chunks", "intact", "mtime", "origin")

    def __init__(self, chunks, intact, mtime, origin):
        self.chunks, self.intact, self.mtime, self.origin = chunks, intact, mtime, origin

    def same(self, other):
        return other is not None and self.chunks == other.chunks and self.mtime == other.mtime and self.origin == other.origin


class GhostFS:
    """Finite map path -> File, plus the fault/death decisions and the PHI check after each op."""

    def __init__(self, ctx, target, with_old, with_stale_staging, die=True, props=("C11",)):
        self.ctx = ctx
        self.target = str(target)
        self.staging = self.target + ".STAGING"
        self.clock = 10
        self.fs = {}
        self.props = props
        self.die_enabled = die
        self.ops = 0
        self.open_log = []  # (path, mode, kwargs)
        if with_old:
            self.fs[self.target] = File((("old",),), True, 1, "old")
        if with_stale_staging:
            self.fs[self.staging] = File((("junk",),), False, 2, "stale-staging")
        self.old = self.fs.get(self.target)

    # -- helpers --
    def leftovers(self):
        """files other than the target that exist because of THIS call (created or rewritten by it): staging files it left behind.  A stale staging
        file of a killed earlier writer that this call never touched is not its leftover"""
        return sorted(p for p, f in self.fs.items() if p != self.target and f.origin != "stale-staging")

    def _tick(self):
        self.clock += 1
        return self.clock

    def phi(self, where):
        cur = self.fs.get(self.target)
        if self.old is None and cur is None:
            ok = True
        elif cur is not None and self.old is not None and cur.same(self.old):
            ok = True
        else:
            ok = cur is not None and cur.origin == "this-call" and cur.intact
        self.ctx.check(f"PHI:target-old-or-complete-new@{where}", bool(ok), props=self.props,
                       info=f"target={cur and (cur.chunks, cur.intact, cur.origin)}")

    def _after(self, where):
        self.ops += 1
        self.phi(where)
        if self.die_enabled and self.ctx.choose(2, f"die-after-{where}") == 1:
            self.ctx.end_path(f"process death after {where}")

    def outcome(self, n, label):
        self.ctx._alive()
        return self.ctx.choose(n, label)

    # -- operations --
    def open(self, path, mode="r", **kwargs):
        p = str(path)
        self.open_log.append((p, mode, dict(kwargs), type(path)))
        if "w" in mode:
            if self.outcome(2, "open") == 1:
                self._after("open-raises")
                raise FaultOS("open failed")
            self.fs[p] = File((), True, self._tick(), "this-call")
            h = Handle(self, p, mode, kwargs)
            self._after("open")
            return h
        self.ctx.unsupported("read-mode open in a write unit")

    def replace(self, a, b):
        a, b = str(a), str(b)
        if self.outcome(2, "os.replace") == 1:
            self._after("replace-raises")
            raise FaultOS("replace failed")
        if a not in self.fs:
            self._after("replace-missing")
            raise FileNotFoundError(a)
        self.fs[b] = self.fs.pop(a)
        self._after("replace")

    def remove(self, p):
        p = str(p)
        if p not in self.fs:
            self._after("remove-missing")
            raise FileNotFoundError(p)
        if self.outcome(2, "os.remove") == 1:
            self._after("remove-raises")
            raise FaultOS("remove failed")
        del self.fs[p]
        self._after("remove")


    def touch(self, p, exist_ok=True):
        """pathlib.Path.touch / os.utime: creates an EMPTY file when none exists, otherwise only bumps the modified time - the content stays"""
        p = str(p)
        if self.outcome(2, "touch") == 1:
            self._after("touch-raises")
            raise FaultOS("touch failed")
        f = self.fs.get(p)
        if f is None:
            self.fs[p] = File((), True, self._tick(), "this-call")
        elif not exist_ok:
            self._after("touch-exists")
            raise FileExistsError(p)
        else:
            f.mtime = self._tick()
        self._after("touch")


class GhostPath(pathlib.PosixPath):
    """pathlib.Path whose file-system methods act on the ghost file system of the unit that is running (pure path arithmetic is pathlib's own)"""
    _gfs = None

    def _g(self):
        g = GhostPath._gfs
        if g is None:
            raise RuntimeError("GhostPath used outside a file-store unit")
        return g

    def touch(self, mode=0o666, exist_ok=True):
        return self._g().touch(self, exist_ok=exist_ok)

    def exists(self, **kw):
        return str(self) in self._g().fs

    def is_file(self):
        return str(self) in self._g().fs

    def unlink(self, missing_ok=False):
        try:
            return self._g().remove(self)
        except FileNotFoundError:
            if not missing_ok:
                raise

    def open(self, mode="r", **kw):
        return self._g().open(self, mode, **kw)

    def replace(self, target):
        self._g().replace(self, target)
        return type(self)(target)

    rename = replace

    def write_text(self, data, **kw):
        with self._g().open(self, "w", **kw) as h:
            h.write(data)

    def write_bytes(self, data):
        with self._g().open(self, "wb") as h:
            h.write(data)

    def stat(self, **kw):
        self._g().ctx.unsupported("Path.stat in a write unit")

    def read_text(self, **kw):
        self._g().ctx.unsupported("Path.read_text in a write unit")

    def read_bytes(self):
        self._g().ctx.unsupported("Path.read_bytes in a write unit")


class _GhostPathlib:
    """stands for the pathlib module in the extracted code: Path is GhostPath, everything else is pathlib's"""
    Path = GhostPath
    PosixPath = GhostPath

    def __getattr__(self, k):
        return getattr(pathlib, k)


SHORT_COUNT = object()   # what a raw write returns when it wrote less than asked (stands for an int < len(data))


class Handle:
    def __init__(self, gfs, path, mode, kwargs):
        self.gfs, self.path, self.mode, self.kwargs = gfs, path, mode, kwargs
        self.closed = False

    def __enter__(self):
        return self

    def write(self, data):
        g = self.gfs
        f = g.fs.get(self.path)
        raw = self.kwargs.get("buffering") == 0
        o = g.outcome(4 if raw else 3, "write")
        if raw and o == 3 and f is not None:
            # an UNBUFFERED file (buffering=0) is a raw FileIO: write() makes one write(2) call and may return a short count WITHOUT raising
            # (full disk, quota, RLIMIT_FSIZE, > 2 GiB) - a caller that ignores the count has written only part of the value
            f.chunks = f.chunks + (("partial", data),)
            f.intact = False
            f.mtime = g._tick()
            g._after("write-short-count")
            return SHORT_COUNT
        if f is None:  # unlinked while open: data goes nowhere visible
            if o:
                raise FaultOS("write failed")
            return
        if o == 1:
            g._after("write-raises")
            raise FaultOS("write failed")
        if o == 2:
            f.chunks = f.chunks + (("partial", data),)
            f.intact = False
            f.mtime = g._tick()
            g._after("write-partial")
            raise FaultOS("write failed part-way")
        f.chunks = f.chunks + (("full", data),)
        f.mtime = g._tick()
        g._after("write")

    def close(self):          # an explicit close() instead of a with-statement: the same close operation (once)
        if not self.closed:
            self.__exit__(None, None, None)

    def __exit__(self, et, ev, tb):
        g = self.gfs
        if self.closed:
            return False
        self.closed = True
        f = g.fs.get(self.path)
        if g.outcome(2, "close") == 1:
            if f is not None:
                f.intact = False
            g._after("close-raises")
            raise FaultOS("close failed")
        g._after("close")
        return False


def dump_stub(gfs, name):
    def dump(value, f, **kw):
        o = gfs.outcome(4, name)
        if o == 3:
            raise Interrupt("interrupted while serialising")
        if o == 1:
            raise FaultSer("unserialisable value")
        f.write((name, "A", id(value)))
        if o == 2:
            # part-way failure: the file is incomplete even though every write() succeeded
            ff = gfs.fs.get(f.path)
            if ff is not None:
                ff.intact = False
            raise FaultSer("unserialisable value found part-way")
        f.write((name, "B", id(value)))

    return dump


def fs_env(gfs):
    class _OS:
        """the os module of the extracted code: file operations act on the ghost file system, pure functions are os's own"""
        replace = staticmethod(gfs.replace)
        rename = staticmethod(gfs.replace)
        remove = staticmethod(gfs.remove)
        unlink = staticmethod(gfs.remove)
        PURE = ("getpid", "getppid", "fspath", "fsencode", "fsdecode", "sep", "linesep", "extsep", "curdir", "pardir", "name", "urandom", "PathLike", "getcwd")

        class path:
            exists = staticmethod(lambda p: str(p) in gfs.fs)
            isfile = staticmethod(lambda p: str(p) in gfs.fs)
            lexists = staticmethod(lambda p: str(p) in gfs.fs)

        def __getattr__(self, k):
            if k in self.PURE:
                import os
                return getattr(os, k)
            raise AttributeError(k)

    for _k in ("join", "dirname", "basename", "split", "splitext", "normpath", "abspath", "isabs"):
        setattr(_OS.path, _k, staticmethod(getattr(_os_path, _k)))
    _os = _OS()

    class _json:
        dump = staticmethod(dump_stub(gfs, "json.dump"))

    class _pickle:
        dump = staticmethod(dump_stub(gfs, "pickle.dump"))

    GhostPath._gfs = gfs
    env = base_env(REL)
    env.update({
        "open": gfs.open,
        "os": _os,
        "pathlib": _GhostPathlib(),
        "contextmanager": contextlib.contextmanager,
        "json": _json,
        "pickle": _pickle,
    })
    for q in ("_try_remove", "staged_write_path", "staged_write"):
        get(REL, q).compile_into(env)
    return env


def _final_checks(ctx, gfs, raised, expect_chunks=None, prefix=""):
    cur = gfs.fs.get(gfs.target)
    if raised is None:
        ok = cur is not None and cur.origin == "this-call" and cur.intact
        ctx.check(prefix + "normal-exit:target-holds-complete-new", bool(ok))
        if expect_chunks is not None:
            ctx.check(prefix + "normal-exit:content-is-exactly-the-value", bool(cur is not None and cur.chunks == expect_chunks),
                      info=f"{cur and cur.chunks} vs {expect_chunks}")
        ctx.check(prefix + "normal-exit:no-staging-file", bool(not gfs.leftovers()), info=str(gfs.leftovers()))
        ctx.check(prefix + "normal-exit:modified-time-increased", bool(cur is not None and (gfs.old is None or cur.mtime > gfs.old.mtime)),
                  props=["C11", "C12"])
    else:
        same = (cur is None and gfs.old is None) or (cur is not None and gfs.old is not None and cur.same(gfs.old))
        ctx.check(prefix + "exceptional-exit:target-unchanged", bool(same))
        # the only excuse for a staging file after a failed write is that removing it failed too
        remove_failed = any(lab == "os.remove=1" for lab in ctx.labels())
        ctx.check(prefix + "exceptional-exit:no-staging-file-left", bool(not gfs.leftovers() or remove_failed),
                  info=f"raised {type(raised).__name__}: {raised}; left behind: {gfs.leftovers()}")


def _setup(ctx):
    pk = ctx.choose(2, "path-kind")
    target = "/d/target.json" if pk == 0 else GhostPath("/d/target.json")
    with_old = ctx.choose(2, "old-exists") == 0
    stale = ctx.choose(2, "stale-staging") == 1
    return target, GhostFS(ctx, target, with_old, stale)


@unit(
    "filestore.staged_write_path",
    props=["C11"],
    functions=[(REL, "staged_write_path"), (REL, "_try_remove")],
    assumptions=["T8 POSIX rename is atomic; open/write/close/remove contracts as stated in contracts/filestore.py"],
    min_obligations=20,
)
def staged_write_path_unit(ctx):
    """staged_write_path with an arbitrary caller block: the block creates the staging file itself (or not),
    writes it completely or not, and returns or raises."""
    target, gfs = _setup(ctx)
    env = fs_env(gfs)
    raised = None
    try:
        with env["staged_write_path"](target) as sp:
            # whatever the staging file is called: not the target, next to it (the rename is atomic within one directory, T8), same kind of path
            ctx.check("yields-staging-path", bool(str(sp) != gfs.target and _os_path.dirname(str(sp)) == _os_path.dirname(gfs.target) and type(sp) is type(target)),
                      info=f"{sp!r}")
            b = ctx.choose(4, "block")
            if b == 3:
                raise Interrupt()
            if b == 0:  # block writes a complete file
                with gfs.open(sp, "w") as h:
                    h.write("payload")
            elif b == 1:  # block raises after creating the file
                with gfs.open(sp, "w") as h:
                    h.write("payload")
                raise BlockError()
            else:  # block raises before creating anything
                raise BlockError()
    except EngineSignal:
        raise
    except BaseException as e:
        if ctx.dead is not None:
            raise ctx.dead
        ctx.classify(e)
        raised = e
    _final_checks(ctx, gfs, raised)
    return "raises" if raised else "returns"


@unit("filestore.staging-names-are-private", props=["C11", "C12"], functions=[(REL, "staged_write_path")],
      assumptions=["sibling targets in one directory: same stem with different extensions, no extension, dotted stems; str and pathlib paths"],
      min_obligations=2, kind="concrete-parametric")
def staging_private_unit(ctx):
    """whatever the staging file is called, the name is private to its target: two writers of DIFFERENT targets never stage through the same file
    (else one writer truncates or renames the other's half-written file: a mixed target), and nobody stages into somebody's target"""
    pk = ctx.choose(2, "path-kind")
    mk = str if pk == 0 else GhostPath
    names = ["/d/result.json", "/d/result.pkl", "/d/result.txt", "/d/result", "/d/result.tar.gz", "/d/result.tar", "/d/.result", "/d/result.json.bak"]
    gfs = GhostFS(ctx, names[0], False, False, die=False)
    gfs.outcome = lambda n, label: 0
    gfs.phi = lambda where: None
    env = fs_env(gfs)
    staged = {}
    for n in names:
        try:
            with env["staged_write_path"](mk(n)) as sp:
                staged[n] = str(sp)
                raise BlockError()
        except BlockError:
            pass
    vals = list(staged.values())
    ctx.check("different-targets-get-different-staging-files", bool(len(set(vals)) == len(names)), info=str(staged))
    ctx.check("no-staging-file-is-some-store's-target", bool(not (set(vals) & set(names))), info=str(staged))
    return "ok"


@unit(
    "filestore.staged_write",
    props=["C11"],
    functions=[(REL, "staged_write"), (REL, "staged_write_path"), (REL, "_try_remove")],
    assumptions=["T8"],
    min_obligations=20,
)
def staged_write_unit(ctx):
    target, gfs = _setup(ctx)
    env = fs_env(gfs)
    raised = None
    mode = ("w", "wb")[ctx.choose(2, "mode")]
    try:
        with env["staged_write"](target, mode) as f:
            ctx.check("opens-staging-path-not-target", bool(gfs.open_log and gfs.open_log[-1][0] != gfs.target
                                                              and _os_path.dirname(gfs.open_log[-1][0]) == _os_path.dirname(gfs.target)))
            b = ctx.choose(3, "block")
            f.write("payload")
            if b == 1:
                raise BlockError()
            if b == 2:
                raise Interrupt()
    except EngineSignal:
        raise
    except BaseException as e:
        if ctx.dead is not None:
            raise ctx.dead
        ctx.classify(e)
        raised = e
    _final_checks(ctx, gfs, raised, expect_chunks=(("full", "payload"),))
    return "raises" if raised else "returns"


class _Self:
    pass


def _store_unit(cls):
    rel = STORES[cls]

    def run(ctx):
        ctx.props = ("C11",)
        target, gfs = _setup(ctx)
        env = fs_env(gfs)
        write = get(rel, f"{cls}.write").compile_into(env)
        from ujvc.units import real_method_fallback

        class S(_Self):     # helper methods a refactoring may add to the store class are taken from the real class and verified inline
            __getattr__ = real_method_fallback(rel, cls, env, native_loops="all")

        s = S()
        s.path = target
        s.encoding = "enc"
        value = None if cls == "TouchFileStore" else user_value("stored")
        raised = None
        try:
            r = write(s, value)
        except EngineSignal:
            raise
        except BaseException as e:
            if ctx.dead is not None:
                raise ctx.dead
            ctx.classify(e)
            raised = e
        opened = [p for (p, m, kw, t) in gfs.open_log]
        ctx.check(f"{cls}.write/never-opens-the-target-directly", bool(gfs.target not in opened))
        expect = {
            "JsonFileStore": (("full", ("json.dump", "A", id(value))), ("full", ("json.dump", "B", id(value)))),
            "PickleFileStore": (("full", ("pickle.dump", "A", id(value))), ("full", ("pickle.dump", "B", id(value)))),
            "TextFileStore": (("full", value),),
            "BinaryFileStore": (("full", value),),
            "TouchFileStore": (),
        }[cls]
        _final_checks(ctx, gfs, raised, expect_chunks=expect, prefix=f"{cls}.write/")
        if raised is None:
            ctx.check(f"{cls}.write/returns-None", bool(r is None))
        return "raises" if raised else "returns"

    run.__doc__ = f"{cls}.write inlined with staged_write / staged_write_path / _try_remove"
    return run


for _cls, _rel in STORES.items():
    unit(
        f"filestore.{_cls}.write",
        props=["C11", "C12"],
        functions=[(_rel, f"{_cls}.write"), (REL, "staged_write"), (REL, "staged_write_path"), (REL, "_try_remove")],
        assumptions=["T8", "json.dump / pickle.dump only act on the file through write() calls"],
        min_obligations=20,
    )(_store_unit(_cls))


# TouchFileStore: a non-None value must be rejected before anything is touched
@unit("filestore.TouchFileStore.write-rejects", props=["C11", "C12"], functions=[(STORES["TouchFileStore"], "TouchFileStore.write")], min_obligations=2)
def touch_rejects(ctx):
    target, gfs = _setup(ctx)
    env = fs_env(gfs)
    write = get(STORES["TouchFileStore"], "TouchFileStore.write").compile_into(env)
    s = _Self()
    s.path = target
    try:
        write(s, object())
        ctx.check("non-None-value-raises-TypeError", False)
    except TypeError:
        ctx.check("non-None-value-raises-TypeError", True)
    ctx.check("non-None-value:no-file-operation", bool(gfs.ops == 0))


# ---------------------------------------------------------------------------------------
# native replay: real file system, faults injected by making operations fail for real
# ---------------------------------------------------------------------------------------
REPLAY_SCRIPT = textwrap.dedent(
    '''
    import os, sys, tempfile, pathlib, json, pickle, builtins
    from uberjob.stores import JsonFileStore, PickleFileStore, TextFileStore, BinaryFileStore, TouchFileStore
    from uberjob.stores._file_store import staged_write, staged_write_path
    import uberjob.stores._file_store as fsmod

    bad = []
    def snapshot(d):
        out = {}
        for n in sorted(os.listdir(d)):
            p = os.path.join(d, n)
            out[n] = "<dir>" if os.path.isdir(p) else open(p, "rb").read()
        return out

    class Boom(Exception): pass
    STORES = [(JsonFileStore, {"a": [1, 2]}, object()), (PickleFileStore, [1, 2], (lambda: 0)), (TextFileStore, "new", 5),
              (BinaryFileStore, b"new", "str-not-bytes"), (TouchFileStore, None, None)]
    for mk in (str, pathlib.Path):
        for cls, good, badval in STORES:
            # fault 1: os.replace fails (target is a non-empty directory)
            with tempfile.TemporaryDirectory() as d:
                t = os.path.join(d, "t"); os.mkdir(t); open(os.path.join(t, "x"), "w").close()
                try: cls(mk(t)).write(good)
                except BaseException as e: err = e
                else: err = None
                snap = snapshot(d)
                if err is not None and "t.STAGING" in snap:
                    bad.append((cls.__name__, mk.__name__, "os.replace raises %s -> staging file left behind" % type(err).__name__, sorted(snap)))
            # fault 2: serialisation error part-way / wrong type
            if badval is not None:
                with tempfile.TemporaryDirectory() as d:
                    t = os.path.join(d, "t"); open(t, "wb").write(b"OLD"); m0 = os.stat(t).st_mtime_ns
                    try: cls(mk(t)).write(badval)
                    except BaseException as e: err = e
                    else: err = None
                    snap = snapshot(d)
                    if err is not None and (snap.get("t") != b"OLD" or os.stat(t).st_mtime_ns != m0 or "t.STAGING" in snap):
                        bad.append((cls.__name__, mk.__name__, "serialisation error -> target or staging disturbed", snap))
            # fault 3: I/O error injected into open / write / close / os.replace / os.remove
            for fault in ("open", "write", "close", "replace"):
                with tempfile.TemporaryDirectory() as d:
                    t = os.path.join(d, "t"); open(t, "wb").write(b"OLD"); m0 = os.stat(t).st_mtime_ns
                    real_open, real_replace = builtins.open, os.replace
                    hit = []           # the injected fault was actually raised (a store that never reaches the operation is not judged)
                    def fopen(p, *a, **k):
                        # every file of this store's directory, whatever module opens it and whatever the staging file is called
                        if isinstance(p, (str, os.PathLike)) and str(p).startswith(d + os.sep):
                            mode = a[0] if a else k.get("mode", "r")
                            if fault == "open" and "w" in mode: hit.append("open"); raise OSError("injected open")
                            f = real_open(p, *a, **k)
                            if "w" in mode:
                                class W:
                                    def __init__(s, f): s.f = f
                                    def __enter__(s): return s
                                    def write(s, x):
                                        if fault == "write": s.f.write(x[:1]); s.f.flush(); hit.append("write"); raise OSError("injected write")
                                        return s.f.write(x)
                                    def close(s):
                                        was_open = not s.f.closed
                                        s.f.close()
                                        if fault == "close" and was_open: hit.append("close"); raise OSError("injected close")
                                    def __exit__(s, *e): s.close()
                                    def __getattr__(s, n): return getattr(s.f, n)
                                return W(f)
                            return f
                        return real_open(p, *a, **k)
                    def freplace(a, b):
                        if fault == "replace" and str(b) == t: hit.append("replace"); raise OSError("injected replace")
                        return real_replace(a, b)
                    builtins.open = fopen; os.replace = freplace
                    try:
                        try: cls(mk(t)).write(good)
                        except BaseException as e: err = e
                        else: err = None
                    finally:
                        builtins.open = real_open; os.replace = real_replace
                    snap = snapshot(d)
                    if not hit: continue
                    if err is None: bad.append((cls.__name__, mk.__name__, fault, "fault swallowed")); continue
                    if snap.get("t") != b"OLD" or os.stat(t).st_mtime_ns != m0 or len(snap) != 1:
                        bad.append((cls.__name__, mk.__name__, "injected %s error -> target changed or staging left" % fault, snap))
    # a failure that is not an Exception (KeyboardInterrupt / SystemExit while writing) must clean up as well
    for mk in (str, pathlib.Path):
        for exc in (KeyboardInterrupt, SystemExit):
            with tempfile.TemporaryDirectory() as d:
                t = os.path.join(d, "t.txt"); open(t, "wb").write(b"OLD")
                try:
                    with staged_write(mk(t), "w") as f:
                        f.write("partial"); raise exc()
                except BaseException as e: err = e
                snap = snapshot(d)
                if snap.get("t.txt") != b"OLD" or len(snap) != 1:
                    bad.append(("staged_write", mk.__name__, "%s inside the block -> %s" % (exc.__name__, sorted(snap))))
    # process death (os._exit in a child) right before / right after the rename, and while the value is being written
    import subprocess
    import textwrap
    CHILD = textwrap.dedent("""
    import os, sys, builtins
    import uberjob.stores._file_store as fsmod
    from uberjob.stores import JsonFileStore, PickleFileStore, TextFileStore, BinaryFileStore
    cls = {"json": JsonFileStore, "pickle": PickleFileStore, "text": TextFileStore, "binary": BinaryFileStore}[sys.argv[1]]
    point, path = sys.argv[2], sys.argv[3]
    real_replace = os.replace
    def replace(a, b):
        if point == "before-rename": os._exit(0)
        real_replace(a, b)
        if point == "after-rename": os._exit(0)
    fsmod.os.replace = replace
    if point == "while-writing":
        real_open = builtins.open
        def fopen(p, *a, **k):
            f = real_open(p, *a, **k)
            if str(p).endswith(".STAGING"):
                class W:
                    def __enter__(s): return s
                    def __exit__(s, *e): f.close()
                    def write(s, x): f.write(x[:1]); f.flush(); os._exit(0)
                    def __getattr__(s, n): return getattr(f, n)
                return W()
            return f
        fsmod.open = fopen
    new = {"json": {"k": [1, 2, 3] * 50}, "pickle": list(range(200)), "text": "new" * 100, "binary": b"new" * 100}[sys.argv[1]]
    cls(path).write(new)
    """)
    for kind, old, new in (("json", b'"old"', None), ("pickle", None, None), ("text", b"old", ("new" * 100).encode()), ("binary", b"old", b"new" * 100)):
        for point in ("before-rename", "after-rename", "while-writing"):
            with tempfile.TemporaryDirectory() as d:
                t = os.path.join(d, "t")
                if old is not None: open(t, "wb").write(old)
                else:
                    import pickle as _p
                    old = _p.dumps("old"); open(t, "wb").write(old)
                os.utime(t, (1000, 1000)); m0 = os.stat(t).st_mtime_ns
                subprocess.run([sys.executable, "-c", CHILD, kind, point, t], env=dict(os.environ), timeout=60)
                cur = open(t, "rb").read(); m1 = os.stat(t).st_mtime_ns
                if point == "after-rename":
                    ok = cur != old and m1 != m0 and (new is None or cur == new)
                    try:
                        if kind == "json": ok = ok and json.loads(cur) == {"k": [1, 2, 3] * 50}
                        if kind == "pickle": ok = ok and pickle.loads(cur) == list(range(200))
                    except Exception: ok = False        # the target holds something that does not even decode
                else:
                    ok = cur == old and m1 == m0
                if not ok: bad.append((kind, "process death " + point, "target holds %r... mtime changed: %s" % (cur[:20], m1 != m0)))
                # a staging file left by the killed process must not disturb the next write / read
                cls2 = {"json": JsonFileStore, "pickle": PickleFileStore, "text": TextFileStore, "binary": BinaryFileStore}[kind]
                v2 = {"json": [7], "pickle": (7,), "text": "seven", "binary": b"seven"}[kind]
                try:
                    st = cls2(t); st.write(v2); back = st.read()
                except Exception as e: back = ("raised", repr(e))
                if back != v2 or os.path.exists(t + ".STAGING"): bad.append((kind, "write after a death " + point, sorted(os.listdir(d)), repr(back)[:80]))
    # two writers of DIFFERENT targets in one directory whose writes overlap (sibling names: same stem, other extension / no extension / dotted
    # stems): writer A is inside its staged block when writer B writes its own target completely; afterwards each target holds exactly what its
    # own writer wrote and both writes succeeded - a staging name shared between targets would let B rename A's half-written file
    sib = ["result.json", "result.pkl", "result.txt", "result", "result.tar.gz", "result.tar", ".result", "result.json.bak"]
    for mk in (str, pathlib.Path):
        for a in sib:
            for b in sib:
                if a == b: continue
                with tempfile.TemporaryDirectory() as d:
                    ta, tb = os.path.join(d, a), os.path.join(d, b)
                    err = None
                    try:
                        with staged_write(mk(ta), "w") as fa:
                            fa.write("A-first-half;")
                            fa.flush()
                            with staged_write(mk(tb), "w") as fb:
                                fb.write("B-complete")
                            fa.write("A-second-half")
                    except Exception as e:
                        err = e
                    ga = open(ta).read() if os.path.exists(ta) else None
                    gb = open(tb).read() if os.path.exists(tb) else None
                    left = sorted(set(os.listdir(d)) - {a, b})
                    if err is not None or ga != "A-first-half;A-second-half" or gb != "B-complete" or left:
                        bad.append(("overlapping writers", mk.__name__, (a, b), "error=%r A=%r B=%r left=%r" % (err, ga, gb, left)))
    for b in bad[:6]: print("C11 violated:", b)
    sys.exit(1 if bad else 0)
    '''
)


def _replay(ob):
    import os
    import subprocess

    from ujvc.z3env import REPO_SRC

    p = __import__('ujvc.units', fromlist=['run_native_p']).run_native_p(["/venv/bin/python", "-c", REPLAY_SCRIPT], env=dict(os.environ, PYTHONPATH=REPO_SRC), timeout=300)
    return {"reproduced": p.returncode == 1, "detail": (p.stdout + p.stderr)[-3000:], "script": REPLAY_SCRIPT}


REPLAYS = [("filestore.*", _replay)]


def _c11_bounded(ctx):
    """bounded: real file stores in a temporary directory: os.replace failing, serialisation errors, I/O errors injected into open / write / close / rename, KeyboardInterrupt / SystemExit in the block, process death (os._exit in a child) before / after the rename and while writing, stale staging file"""
    r = _replay(None)
    out = r["detail"]
    if "Traceback" in out and "C11 violated" not in out:
        ctx.unsupported("fault-injection probe did not run: " + out[-600:])
    ctx.check("bounded/fault-probe-ran", True, info=out[-1500:])
    ctx.check("bounded/target-holds-old-or-complete-new-at-every-injected-fault;no-staging-file-after-an-exception;death-leaves-a-harmless-staging-file", bool(not r["reproduced"]), info=out[-2500:])
    return "ok"


unit("filestore.native-faults[bounded]", props=["C11", "C08"],
     functions=[(REL, "staged_write_path"), (REL, "staged_write"), (REL, "_try_remove")] + [(STORES[c], f"{c}.write") for c in STORES],
     assumptions=["bounded stand-in: see the script in contracts/filestore.py (five stores, str / pathlib paths)"], min_obligations=2, kind="bounded")(_c11_bounded)
