"""Native system probe: drives the REAL uberjob (imported from the tree under test) over generated small plans,
registries and histories, and checks the top-level statements of the properties directly with oracles written
from the statements (never from the code).  It is used
  (a) as the native replay after a contract obligation was refuted (find a failing input on the real code), and
  (b) as a *bounded stand-in* (never counted as proved) that keeps deciding when a function was restructured so
      that its sidecar contract no longer applies.
Bound: plans of at most 8 nodes, histories of at most 6 steps, store times in three eras (before / around / after the wall clock), `cases` seeded cases (VERIF_SEED).
Run:  PYTHONPATH=<tree>/src python sysprobe_script.py  [env UJVC_PROBE_CASES, VERIF_SEED, UJVC_PROBES=C02,C03,...]
Exit 1 and lines 'VIOLATED <property> ...' when a statement is violated.
"""
import textwrap

SCRIPT = textwrap.dedent(
    r'''
    import datetime as dt, itertools, os, random, sys, threading, time, collections
    import uberjob
    from uberjob import Plan, Registry, ValueStore
    from uberjob.graph import Call, Literal, Dependency, PositionalArg, KeywordArg

    SEED = int(os.environ.get("VERIF_SEED", "0") or 0)
    CASES = int(os.environ.get("UJVC_PROBE_CASES", "120"))
    PROBES = set(filter(None, os.environ.get("UJVC_PROBES", "").split(",")))
    def on(p): return not PROBES or p in PROBES
    problems = []
    def bad(prop, msg):
        problems.append((prop, msg))
        if len(problems) >= 6: finish()
    def finish():
        seen = set()
        for p, m in problems:
            if (p, m[:60]) in seen: continue
            seen.add((p, m[:60])); print("VIOLATED", p, m[:700])
        print(f"{len(problems)} problem(s)"); sys.stdout.flush(); os._exit(1 if problems else 0)

    CLOCK = [dt.datetime(2020, 1, 1)]
    def tick():
        CLOCK[0] += dt.timedelta(seconds=1); return CLOCK[0]

    class FT(tuple):
        """what calls return, literals hold and stores deliver: a FALSY tuple (equal to the plain tuple with the same items) - results are the user's
        values, the library must never consult their truth value"""
        def __bool__(self): return False

    class FalsyError(ValueError):
        """what failing calls raise: a FALSY exception instance (like an aggregate error with zero item failures)"""
        def __len__(self): return 0

    class BadRepr:
        """a user's callable object that cannot be shown: building the error for its failed call must not fail because of that"""
        def __init__(self, f): self.f = f; self.__name__ = f.__name__; self.__qualname__ = f.__qualname__
        def __call__(self, *a, **k): return self.f(*a, **k)
        def __repr__(self): raise RuntimeError("repr of this callable raises")

    class Rec:
        """event log shared by stores and call functions"""
        def __init__(self): self.ev = []; self.lock = threading.Lock()
        def add(self, *e):
            with self.lock: self.ev.append(e)

    class MemStore(ValueStore):
        """normalising store: read returns ('N', name, written) - distinguishable from the in-memory result"""
        def __init__(self, name, rec): self.name, self.rec, self.has, self.val, self.mtime = name, rec, False, None, None
        def read(self):
            self.rec.add("read", self.name)
            if not self.has: raise IOError("empty store " + self.name)
            return FT(("N", self.name, self.val))
        def write(self, v):
            self.rec.add("write-begin", self.name); self.val, self.has, self.mtime = v, True, tick(); self.rec.add("write", self.name)
        def get_modified_time(self):
            self.rec.add("mtime", self.name); return self.mtime
        def __repr__(self): return f"MemStore({self.name})"
        def __len__(self): return 0      # a store is a user object and may be falsy: the library must test 'is None', never truth

    class Obs(uberjob.progress.ProgressObserver if hasattr(uberjob, "progress") else object):
        def __init__(self): self.ev = []; self.lock = threading.Lock()
        def __enter__(self): self.ev.append(("enter",)); return self
        def __exit__(self, *a): self.ev.append(("exit",))
        def increment_total(self, *, section, scope, amount):
            with self.lock: self.ev.append(("total", section, scope, amount))
        def increment_running(self, *, section, scope):
            with self.lock: self.ev.append(("running", section, scope))
        def increment_completed(self, *, section, scope):
            with self.lock: self.ev.append(("completed", section, scope))
        def increment_failed(self, *, section, scope, exception):
            with self.lock: self.ev.append(("failed", section, scope, exception))
    class ObsProgress(uberjob.progress.Progress):
        def __init__(self, o): self.o = o
        def observer(self): return self.o

    # ---------------------------------------------------------------- scenario ----
    class Scn:
        """nodes: list of dicts  kind in {call, lit, source};  args: [(kind 'pos'|'kw:<name>'|'dep', index of earlier node)]"""
        def __init__(self, rnd):
            self.rnd = rnd
            n = rnd.randrange(2, 7)
            self.nodes = []
            for i in range(n):
                kind = rnd.choice(["call", "call", "call", "lit", "source"]) if i else rnd.choice(["call", "source", "lit"])
                args = []
                if i and kind != "lit":
                    for j in rnd.sample(range(i), rnd.randrange(0, min(i, 3) + 1)):
                        if kind == "source":
                            # dependent source (its store is NOT rewritten by the calls it depends on here: it can stay out of date,
                            # so the idempotence clause is not checked for such scenarios)
                            if rnd.random() < 0.5: args.append(("dep", j))
                            continue
                        else: args.append((rnd.choice(["pos", "pos", "kw:a", "dep"]), j))
                    if kind == "call" and args and rnd.random() < 0.25: args.append((rnd.choice(["pos", "dep"]), args[0][1]))   # parallel edge
                if kind == "lit" and i and rnd.random() < 0.4:
                    args = [("dep", rnd.randrange(i))]
                kws = [a for a in args if a[0].startswith("kw")]
                if len(kws) > 1: args = [a for a in args if not a[0].startswith("kw")] + [("kw:a", kws[0][1]), ("kw:b", kws[1][1])][:2]
                scope = rnd.choice([(), (), ("s1",), ("s1", 2)])
                # a source whose store reports no modified time although it can be read (the LiteralSource(value, None) pattern): always out of date
                self.nodes.append(dict(kind=kind, args=args, stored=(kind == "call" and rnd.random() < 0.5), scope=scope,
                                       nomtime=(kind == "source" and not args and rnd.random() < 0.15)))
            if rnd.random() < 0.2 and len(self.nodes) <= 4:
                # dependencies routed through (chains of) literals: p -> lit -> lit -> c
                b = len(self.nodes)
                # the head of the chain may itself be stored and/or sit downstream of something that can go out of date
                self.nodes.append(dict(kind="call", args=([(rnd.choice(["pos", "dep"]), rnd.randrange(b))] if b and rnd.random() < 0.6 else []),
                                       stored=rnd.random() < 0.5, scope=()))
                self.nodes.append(dict(kind="lit", args=[("dep", b)], stored=False, scope=()))
                if rnd.random() < 0.7:
                    self.nodes.append(dict(kind="lit", args=[("dep", b + 1)], stored=False, scope=()))
                self.nodes.append(dict(kind="call", args=[(rnd.choice(["dep", "pos"]), len(self.nodes) - 1)], stored=rnd.random() < 0.6, scope=()))
            self.fail = None            # index of a call that raises
            self.flaky, self.attempts = {}, {}
        def build(self, rec, with_registry=True):
            plan, reg = Plan(), Registry()
            objs, stores = [], {}
            pending = []     # registry.add in an order independent of node creation (sources are registered when created)
            self.fns = {}
            for i, nd in enumerate(self.nodes):
                pos = [objs[j] for k, j in nd["args"] if k == "pos"]
                kw = {k[3:]: objs[j] for k, j in nd["args"] if k.startswith("kw:")}
                with plan.scope(*nd["scope"]):
                    if nd["kind"] == "lit":
                        o = plan.lit(FT(("L", i)))
                    elif nd["kind"] == "source" and with_registry:
                        st = stores[i] = MemStore(f"src{i}", rec); o = reg.source(plan, st)
                    else:
                        def mk(i):
                            def f(*a, **k):
                                rec.add("start", i, a, tuple(k.items()))
                                self.attempts[i] = self.attempts.get(i, 0) + 1
                                if self.fail == i: rec.add("raise", i); raise FalsyError(f"boom{i} attempt {self.attempts[i]}")
                                if self.flaky.get(i, 0) > 0:
                                    self.flaky[i] -= 1; rec.add("raise", i); raise FalsyError(f"flaky{i} attempt {self.attempts[i]}")
                                time.sleep(0.0005 * (i % 3))
                                rec.add("end", i); return FT(("V", i, a, tuple(k.items())))
                            f.__name__ = f"fn{i}"; f.__qualname__ = f"fn{i}"
                            return BadRepr(f) if i % 3 == 2 else f     # every third call is a callable OBJECT whose __repr__ raises
                        self.fns[i] = mk(i)
                        o = plan.call(self.fns[i], *pos, **kw)
                        if nd["stored"] and with_registry:
                            st = stores[i] = MemStore(f"st{i}", rec); pending.append((o, st))
                objs.append(o)
                for k, j in nd["args"]:
                    if k == "dep": plan.add_dependency(objs[j], o)
                if pending and self.rnd.random() < 0.5:
                    self.rnd.shuffle(pending)
                    while pending: reg.add(*pending.pop())
            self.rnd.shuffle(pending)
            for o, st in pending: reg.add(o, st)
            return plan, reg, objs, stores

    def snapshot(plan, reg):
        g = plan.graph
        return (tuple((id(n), type(n), n.scope, getattr(n, "fn", None), getattr(n, "value", None) if type(n) is Literal else None) for n in g.nodes()),
                tuple(sorted((id(u), id(v), repr(k)) for u, v, k in g.edges(keys=True))), plan._scope,
                tuple((id(n), id(rv.value_store), rv.is_source, id(rv.stack_frame)) for n, rv in reg.mapping.items()))

    # ---------------------------------------------------------------- oracles (from the statements) ----
    def preds_of(scn, i): return [j for _, j in scn.nodes[i]["args"]]
    def scratch(scn, stores, i, memo):
        """C03 from-scratch value: stored values are seen through the store's read (normalisation)"""
        if i in memo: return memo[i]
        nd = scn.nodes[i]
        if nd["kind"] == "lit": v = ("L", i)
        elif nd["kind"] == "source": v = ("N", stores[i].name, stores[i].val)
        else:
            def arg(j):
                w = scratch(scn, stores, j, memo)
                if scn.nodes[j]["kind"] == "call" and j in stores: return ("N", stores[j].name, w)
                return w
            pos = tuple(arg(j) for k, j in nd["args"] if k == "pos")
            kw = tuple((k[3:], arg(j)) for k, j in nd["args"] if k.startswith("kw:"))
            v = ("V", i, pos, kw)
        memo[i] = v; return v
    def stale_oracle(scn, stores, fresh):
        """C05 out-of-date set, declaratively (DESIGN C05; calibrated in round 0)"""
        n = len(scn.nodes); stale = {}; M = {}
        for i in range(n):
            ps = sorted(set(preds_of(scn, i)))
            if any(stale[p] for p in ps): stale[i] = True; M[i] = None; continue
            A = max([M[p] for p in ps if M[p] is not None], default=None)
            if i not in stores: stale[i] = False; M[i] = A; continue
            st = stores[i]
            if not st.has or st.mtime is None: stale[i] = True; M[i] = None; continue      # nothing stored / no modified time reported: out of date
            is_src = scn.nodes[i]["kind"] == "source"
            if (A is not None or not is_src) and max([t for t in (st.mtime, A, fresh) if t is not None]) > st.mtime: stale[i] = True; M[i] = None
            else: stale[i] = False; M[i] = st.mtime
        return stale

    def check_trace(name, ev, ok_run):
        if not on("C15"): return
        if not ev or ev[0] != ("enter",) or ev[-1] != ("exit",) or sum(1 for e in ev if e[0] in ("enter", "exit")) != 2:
            bad("C15", f"{name}: observer not entered first / exited last exactly once: {ev[:3]}..{ev[-2:]}"); return
        tot, run, comp, fail = collections.Counter(), collections.Counter(), collections.Counter(), collections.Counter()
        for e in ev[1:-1]:
            key = (e[1], e[2])
            if e[0] == "total": tot[key] += e[3]
            elif e[0] == "running":
                if tot[key] == 0: bad("C15", f"{name}: running reported for {key} before its total was announced")
                run[key] += 1
            elif e[0] == "completed": comp[key] += 1
            elif e[0] == "failed": fail[key] += 1
            if comp[key] + fail[key] > run[key]: bad("C15", f"{name}: more closings than runnings for {key}")
        for key in run:
            if run[key] != comp[key] + fail[key]: bad("C15", f"{name}: {key} still reported running at the end (running={run[key]} completed={comp[key]} failed={fail[key]})")
        if ok_run:
            for key in tot:
                if comp[key] != tot[key]: bad("C15", f"{name}: successful run but completed {comp[key]} != total {tot[key]} for {key}")
        return tot, comp

    # ---------------------------------------------------------------- one history ----
    def history(case):
        rnd = random.Random(SEED * 100003 + case)
        # the era the store times of this history lie in: what is out of date depends on the ORDER of the times only, never on how they relate to
        # the wall clock of the machine that plans the run (times in the future: clock skew between machines, restored backups) - every third history
        # lives entirely after the probe's wall clock, one in six long before it
        CLOCK[0] = dt.datetime((2020, 2020, 2020, 2190, 2190, 1999)[case % 6], 1, 1) + dt.timedelta(seconds=case)
        scn = Scn(rnd); rec = Rec()
        with_reg = rnd.random() < 0.75
        if not with_reg:
            for nd in scn.nodes:
                if nd["kind"] == "source": nd["kind"] = "call"
                nd["stored"] = False
        plan, reg, objs, stores = scn.build(rec, with_reg)
        for i, st in stores.items():
            if scn.nodes[i]["kind"] == "source": st.val, st.has, st.mtime = ("S", i, 0), True, (None if scn.nodes[i].get("nomtime") else tick())
        fresh = None
        name = f"case{case}"
        steps = rnd.randrange(1, 6)
        for step in range(steps):
            op = rnd.choice(["run", "run", "run", "fail", "update", "delete", "fresh", "dry"]) if with_reg else rnd.choice(["run", "fail", "dry"])
            nm = f"{name}.{step}:{op}"
            if op == "update":
                srcs = [i for i in stores if scn.nodes[i]["kind"] == "source"]
                if srcs:
                    i = rnd.choice(srcs); stores[i].val = ("S", i, step + 1); stores[i].mtime = (None if scn.nodes[i].get("nomtime") else tick())
                continue
            if op == "delete":
                sts = [i for i in stores if scn.nodes[i]["kind"] != "source"]
                if sts: i = rnd.choice(sts); stores[i].has, stores[i].val, stores[i].mtime = False, None, None
                continue
            if op == "fresh": fresh = tick(); continue
            calls = [i for i, nd in enumerate(scn.nodes) if nd["kind"] == "call" or (nd["kind"] == "source" and not with_reg)]
            scn.fail = rnd.choice(calls) if (op == "fail" and calls) else None
            k = rnd.randrange(0, len(objs) + 1)
            out_idx = sorted(rnd.sample(range(len(objs)), min(k, rnd.randrange(0, 3))))
            if not with_reg: out_idx = [i for i in out_idx if scn.nodes[i]["kind"] != "source"]
            shape = rnd.choice(["list", "dict", "single", "none"])
            if not out_idx: shape = "none"
            if shape == "none": out_idx = []
            if shape == "single": out_idx = out_idx[:1]
            out = None if shape == "none" else objs[out_idx[0]] if shape == "single" else [objs[i] for i in out_idx] if shape == "list" else {"k%d" % i: objs[i] for i in out_idx}
            mw, sched, me = rnd.choice([1, 3]), rnd.choice(["default", "random"]), rnd.choice([0, 0, 1, None])
            retry_n = rnd.choice([None, None, 2, 3])
            scn.attempts = {}
            scn.flaky = {}
            if retry_n and calls and rnd.random() < 0.6: scn.flaky = {rnd.choice(calls): rnd.randrange(1, retry_n)}
            use_tp = rnd.random() < 0.25
            def audit():
                rec.add("start", 100, (), ()); rec.add("end", 100); return "audited"
            audit.__name__ = audit.__qualname__ = "audit"
            def transform(p, o):
                p2 = p.copy(); p2.call(audit); return p2, o
            stale0 = stale_oracle(scn, stores, fresh) if with_reg else None
            snap0 = snapshot(plan, reg)
            state0 = {i: (st.has, st.val, st.mtime) for i, st in stores.items()}
            rec.ev.clear(); obs = Obs()
            kw = dict(output=out, max_workers=mw, scheduler=sched, max_errors=me, progress=ObsProgress(obs))
            if retry_n: kw["retry"] = retry_n
            if use_tp: kw["transform_physical"] = transform
            if with_reg: kw.update(registry=reg, fresh_time=fresh)
            if op == "dry":
                scn.flaky, scn.fail = {}, None
                kw.pop("retry", None)
                try: pp, pout = uberjob.run(plan, dry_run=True, **kw)
                except uberjob.CallError: continue
                ev = list(rec.ev)
                if on("C14") and any(e[0] in ("start", "read", "write", "write-begin") for e in ev): bad("C14", f"{nm}: dry run touched {[e for e in ev if e[0] != 'mtime'][:3]}")
                if on("C13") and snapshot(plan, reg) != snap0: bad("C13", f"{nm}: dry run modified the caller's plan/registry")
                if on("C14"):
                    # execute the returned physical plan by itself, then the real run from the same store state, compare operations and output
                    rec.ev.clear()
                    from uberjob._execution.run_physical import run_physical
                    from uberjob.progress._null_progress_observer import NullProgressObserver
                    from uberjob._errors import NodeError
                    try: r1 = run_physical(pp, inplace=False, output_node=pout, max_workers=1, progress_observer=NullProgressObserver()); e1 = None
                    except NodeError as e: r1, e1 = None, e
                    except Exception as e:
                        bad("C14", f"{nm}: the physical plan / output node returned by the dry run cannot be executed by itself: {e!r}"); continue
                    ops1 = sorted(e[:2] for e in rec.ev if e[0] in ("start", "read", "write"))
                    for i, st in stores.items(): st.has, st.val, st.mtime = state0[i]
                    rec.ev.clear()
                    try: r2 = uberjob.run(plan, **dict(kw, max_workers=1, progress=None)); e2 = None
                    except uberjob.CallError as e: r2, e2 = None, e
                    ops2 = sorted(e[:2] for e in rec.ev if e[0] in ("start", "read", "write"))
                    if ops1 != ops2 or (e1 is None) != (e2 is None) or (e1 is None and r1 != r2):
                        bad("C14", f"{nm}: executing the dry-run plan differs from the real run: ops {ops1} vs {ops2}; out {r1!r} vs {r2!r}")
                continue
            try: result = uberjob.run(plan, **kw); err = None
            except uberjob.CallError as e: result, err = None, e
            except BaseException as e: result, err = None, e
            ev = list(rec.ev)
            if on("C13") and snapshot(plan, reg) != snap0: bad("C13", f"{nm}: run modified the caller's plan/registry")
            check_trace(nm, obs.ev, err is None)
            all_starts = [e[1] for e in ev if e[0] == "start" and e[1] != 100]
            started = sorted(set(all_starts)) if retry_n else all_starts
            if use_tp and on("C14") and err is None and ("start", 100) not in [e[:2] for e in ev]: bad("C14", f"{nm}: the call added by transform_physical was not executed")
            n_att = collections.Counter(all_starts)
            raised = collections.Counter(e[1] for e in ev if e[0] == "raise")
            for i, c in n_att.items():
                limit = retry_n or 1
                if on("C10") and c > limit: bad("C10", f"{nm}: call {i} attempted {c} times with retry={retry_n}")
                if (on("C04") or on("C10")) and c - raised[i] > 1: bad("C04", f"{nm}: call {i} ran {c - raised[i]} times successfully (attempts stop at the first success)")
                if on("C10") and raised[i] and c - raised[i] == 1 and c != raised[i] + 1: bad("C10", f"{nm}: call {i}: attempts continued after a success")
            if on("C10") and retry_n and isinstance(err, uberjob.CallError) and scn.fail is not None and scn.fail in n_att:
                if n_att[scn.fail] != retry_n: bad("C10", f"{nm}: exhausted call {scn.fail} was attempted {n_att[scn.fail]} times, retry={retry_n}")
                if f"attempt {retry_n}" not in str(err.__cause__): bad("C10", f"{nm}: reported exception {err.__cause__!r} is not the one of the last attempt ({retry_n})")
            if on("C04") and not retry_n and len(started) != len(set(started)): bad("C04", f"{nm}: a call ran more than once: {started}")
            # C01: predecessors finished before start (position in the event log)
            if on("C01"):
                posn = {}
                for idx, e in enumerate(ev):
                    if e[0] in ("start", "end"): posn[(e[0], e[1])] = idx
                def panc(i, seen):
                    # dependencies in THIS run: an up-to-date stored value is read from its store, what lies behind it need not run
                    for j in preds_of(scn, i):
                        if j not in seen:
                            seen.add(j)
                            if not (with_reg and j in stores and not stale0.get(j)): panc(j, seen)
                    return seen
                for i in set(started):
                    for j in panc(i, set()):
                        if scn.nodes[j]["kind"] != "call" or (with_reg and j in stores and not stale0.get(j)): continue
                        if ("end", j) not in posn or posn[("end", j)] > posn[("start", i)]:
                            bad("C01", f"{nm}: call {i} started before its dependency {j} finished; nodes={scn.nodes} stale={stale0} events={[e[:2] for e in ev]}")
            def anc(i, seen):
                for j in preds_of(scn, i):
                    if j not in seen: seen.add(j); anc(j, seen)
                return seen
            if scn.fail is not None and scn.fail in started:
                if on("C06"):
                    if not isinstance(err, uberjob.CallError): bad("C06", f"{nm}: call {scn.fail} raised but run returned {result!r} / {err!r}")
                    elif getattr(err.call.fn, "__name__", "") != f"fn{scn.fail}" or not isinstance(err.__cause__, ValueError): bad("C06", f"{nm}: CallError names {err.call!r} cause {err.__cause__!r}")
                    def pdep(k, seen):
                        for j in preds_of(scn, k):
                            if j not in seen:
                                seen.add(j)
                                if not (with_reg and j in stores and not stale0.get(j)): pdep(j, seen)
                        return seen
                    def desc(i):
                        return [k for k in range(len(scn.nodes)) if i in pdep(k, set())]
                    for k in desc(scn.fail):
                        if k in started: bad("C06", f"{nm}: call {k} ran although it depends on failed call {scn.fail}")
                if on("C08") and with_reg:
                    for i, st in stores.items():   # stores that now look fresh must hold their from-scratch value
                        pass
                continue
            if err is not None:
                if scn.fail is None: bad("C02", f"{nm}: no call fails but run raised {err!r}")
                continue
            # ---- successful run ----
            memo = {}
            def outval(i):
                v = scratch(scn, stores, i, memo)
                return ("N", stores[i].name, v) if (scn.nodes[i]["kind"] == "call" and i in stores) else v
            want = None if shape == "none" else outval(out_idx[0]) if shape == "single" else [outval(i) for i in out_idx] if shape == "list" else {"k%d" % i: outval(i) for i in out_idx}
            if on("C02") or on("C03") or on("C09"):
                if result != want: bad("C03" if with_reg else "C02", f"{nm}: output {result!r} differs from direct evaluation {want!r} (nodes {scn.nodes})")
            if with_reg:
                if on("C03"):
                    for i, st in stores.items():
                        if scn.nodes[i]["kind"] == "call" and (not st.has or st.val != scratch(scn, stores, i, memo)):
                            bad("C03", f"{nm}: store {st.name} holds {st.val!r}, from scratch {scratch(scn, stores, i, memo)!r}")
                written = sorted(e[1] for e in ev if e[0] == "write")
                want_w = sorted(stores[i].name for i in stores if scn.nodes[i]["kind"] == "call" and stale0[i])
                if on("C05") and written != want_w: bad("C05", f"{nm}: rewrote {written}, out of date were {want_w} (nodes {scn.nodes}, fresh={fresh})")
                reads = collections.Counter(e[1] for e in ev if e[0] == "read")
                if on("C05") and any(c > 1 for c in reads.values()): bad("C05", f"{nm}: a store was read more than once: {dict(reads)}")
                if on("C05"):
                    recomputed = sorted(i for i in set(started) if i in stores)
                    if recomputed != sorted(i for i in stores if scn.nodes[i]["kind"] == "call" and stale0[i]): bad("C05", f"{nm}: recomputed stored calls {recomputed} vs out of date {want_w}")
                if on("C09"):
                    posn = {}
                    for idx, e in enumerate(ev): posn.setdefault((e[0], e[1]), idx)
                    for i in set(started):
                        for k_, j in scn.nodes[i]["args"]:
                            if j in stores and scn.nodes[j]["kind"] == "call" and stale0[j]:
                                nmj = stores[j].name
                                w, r = posn.get(("write", nmj)), posn.get(("read", nmj))
                                if k_ == "dep":
                                    if w is None or w > posn[("start", i)]: bad("C09", f"{nm}: call {i} (plain dependent) started before {nmj} was written")
                                elif w is None or r is None or not (w < r < posn[("start", i)]): bad("C09", f"{nm}: call {i} started before {nmj} was written and read back")
                    for e in ev:
                        if e[0] == "start":
                            for a in list(e[2]) + [v for _, v in e[3]]:
                                if isinstance(a, tuple) and a and a[0] == "V" and a[1] in stores: bad("C09", f"{nm}: call {e[1]} received the in-memory result of stored call {a[1]} instead of its read-back")
            else:
                if on("C04"):
                    need = set()
                    def close(i):
                        if i in need: return
                        need.add(i)
                        for j in preds_of(scn, i): close(j)
                    for i in out_idx: close(i)
                    want_calls = sorted(i for i in need if scn.nodes[i]["kind"] in ("call",))
                    if sorted(set(started)) != want_calls: bad("C04", f"{nm}: executed {sorted(started)}, output depends on {want_calls}")
            if on("C15"):
                pass
            # C05 idempotence
            has_dep_source = any(nd["kind"] == "source" and (nd["args"] or nd.get("nomtime")) for nd in scn.nodes)
            if with_reg and on("C05") and rnd.random() < 0.5 and not has_dep_source:
                rec.ev.clear()
                try: uberjob.run(plan, registry=reg, fresh_time=fresh, progress=None, max_workers=mw)
                except uberjob.CallError as e: bad("C05", f"{nm}: repeated run failed {e!r}")
                again = [e for e in rec.ev if e[0] in ("start", "read", "write")]
                if again: bad("C05", f"{nm}: a run repeated immediately with no output performed {again[:4]}")

    for case in range(CASES):
        try: history(case)
        except Exception as e:
            import traceback
            bad("HARNESS", f"case {case}: probe crashed: {traceback.format_exc()[-600:]}")
    finish()
    '''
)


def replay_for(props, cases=150):
    """build a replay function restricted to the given properties"""

    def replay(ob):
        import os
        import subprocess

        from ujvc.z3env import REPO_SRC

        env = dict(os.environ, PYTHONPATH=REPO_SRC, UJVC_PROBES=",".join(props), UJVC_PROBE_CASES=str(cases))
        p = __import__('ujvc.units', fromlist=['run_native_p']).run_native_p(["/venv/bin/python", "-c", SCRIPT], env=env, timeout=300)
        out = p.stdout[-3000:] + p.stderr[-1500:]
        harness_bug = "VIOLATED HARNESS" in out
        return {"reproduced": p.returncode == 1 and not harness_bug, "detail": out, "script": SCRIPT,
                "env": {"UJVC_PROBES": ",".join(props), "UJVC_PROBE_CASES": str(cases)}}

    return replay
