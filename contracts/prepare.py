"""Sidecar contracts: predecessor_count, is_source_node (networkx_util.py) and prepare_nodes
(run_function_on_graph.py).  Properties C01, C04 (the initial state of the engine's invariant), C07.

  predecessor_count(g, v)  ensures  result == card(pred_g(v))      -- DISTINCT predecessors; parallel edges do
                                                                      not count twice (graph.successors yields a
                                                                      successor once, so this is what the
                                                                      decrement protocol needs)
  is_source_node(g, v)     ensures  result <=> card(pred_g(v)) == 0
  prepare_nodes(g)         loop invariant over the visited node set V (loop 0, ``for node in graph``):
        sources (a bag)    mult(v) == 1 if v in V and npred(v) == 0 else 0        -- no duplicates
        single  (a set)    v in single  <=>  v in V and npred(v) == 1
        mapping (a dict)   dom == {v in V | npred(v) >= 2}  and  mapping[v] == npred(v)
                           ensures the same with V == N(g); returned in that order
This postcondition is exactly what contracts/gstate.Static.axioms assumes and what makes G3/G4 hold
initially with decs == {} and enqueued == set(sources).
"""
from ujvc.core import Unsupported
from ujvc.units import get, unit
from ujvc.vc import VC, LoopContract, SInt
from ujvc.z3env import z3

from . import gstate as G
from .gproxies import ContainerVC, SNode, StaticGraph, SymBag, SymDict, SymSet
from .gstate import Node, member, insert

NU = "_util/networkx_util.py"
REL = "_execution/run_function_on_graph.py"


class PVC(VC, ContainerVC):
    def __init__(self, ctx, loops=None):
        VC.__init__(self, ctx, loops)
        self.created = []

    def new_list(self):
        b = SymBag(self.ctx)
        self.created.append(b)
        return b

    def new_set(self):
        b = SymSet(self.ctx)
        self.created.append(b)
        return b

    def new_dict(self):
        b = SymDict(self.ctx)
        self.created.append(b)
        return b


def util_env(vc):
    return {"__vc": vc, "len": vc.len, "range": vc.range}


@unit("prepare.predecessor_count", props=["C01", "C04"], functions=[(NU, "predecessor_count")],
      assumptions=["T5 len(graph.pred[v]) is the number of distinct predecessors; in_degree counts edges"], min_obligations=1)
def predecessor_count_unit(ctx):
    vc = PVC(ctx)
    g = StaticGraph(ctx)
    f = get(NU, "predecessor_count").compile_into(util_env(vc))
    v = ctx.fresh(Node, "v")
    r = f(g, SNode(v))
    ok = isinstance(r, SInt)
    ctx.check("post:returns-an-integer", bool(ok))
    if ok:
        ctx.check("post:result==number-of-DISTINCT-predecessors", r.t == G.card(G.pred(v)),
                  info="parallel edges between one pair of nodes must count once")


@unit("prepare.is_source_node", props=["C01", "C07"], functions=[(NU, "is_source_node")], assumptions=["T5"], min_obligations=1)
def is_source_node_unit(ctx):
    vc = PVC(ctx)
    g = StaticGraph(ctx)
    f = get(NU, "is_source_node").compile_into(util_env(vc))
    v = ctx.fresh(Node, "v")
    r = f(g, SNode(v))
    ctx.check("post:result<=>no-predecessor", (G.card(G.pred(v)) == 0) if r is True else (G.card(G.pred(v)) != 0) if r is False else False)


class NodesLoop(LoopContract):
    def __init__(self, vc, g):
        self.vc, self.g = vc, g
        self.V = None

    def containers(self):
        c = self.vc.created
        if len(c) != 3 or not (isinstance(c[0], SymBag) and isinstance(c[1], SymSet) and isinstance(c[2], SymDict)):
            raise Unsupported("prepare_nodes no longer creates exactly one list, one set and one dict before its loop")
        return c

    def inv(self, V):
        bag, single, mp = self.containers()
        v = z3.Const("v!pn", Node)
        np_ = G.npred(v)
        return z3.And(
            z3.ForAll([v], z3.Select(bag.mult, v) == z3.If(z3.And(member(V, v), np_ == 0), 1, 0)),
            z3.ForAll([v], member(single.t, v) == z3.And(member(V, v), np_ == 1)),
            z3.ForAll([v], member(mp.dom, v) == z3.And(member(V, v), np_ >= 2)),
            z3.ForAll([v], z3.Implies(member(mp.dom, v), z3.Select(mp.val, v) == np_)),
        )

    def establish(self, ctx, it, locs):
        if it is not self.g and it is not self.g.nodes:
            raise Unsupported("loop 0 of prepare_nodes does not iterate the graph's nodes")
        ctx.check("loop/establish", self.inv(G.EMPTY))

    def havoc(self, ctx, it, locs):
        bag, single, mp = self.containers()
        self.V = ctx.fresh(G.SetN, "V")
        ctx.assume(G.subset(self.V, self.g.N, "vn"))
        bag.mult, bag.length = ctx.fresh(bag.mult.sort(), "mult"), ctx.fresh(z3.IntSort(), "len")
        single.t = ctx.fresh(G.SetN, "single")
        mp.dom, mp.val = ctx.fresh(G.SetN, "dom"), ctx.fresh(G.MapNI, "val")
        ctx.assume(self.inv(self.V))
        return {}

    def iterate(self, ctx, it):
        if ctx.choose(2, "nodes-loop") == 0:
            x = ctx.fresh(Node, "node")
            ctx.assume(member(self.g.N, x))
            ctx.assume(z3.Not(member(self.V, x)))
            ctx.assume(G.L_card_nonneg(G.pred(x)))
            self.x = x
            self.current = SNode(x, "node")
            return True
        return False

    def preserve(self, ctx, locs):
        ctx.check("loop/preserve", self.inv(insert(self.V, self.x)))

    def at_exit(self, ctx, it):
        ctx.assume(G.seteq(self.V, self.g.N, "vx"))


@unit(
    "prepare.prepare_nodes",
    props=["C01", "C04", "C07"],
    functions=[(REL, "prepare_nodes"), (NU, "predecessor_count")],
    inlined=["predecessor_count"],
    assumptions=["T5 iterating the graph yields each node once"],
    min_obligations=4,
)
def prepare_nodes_unit(ctx):
    g = StaticGraph(ctx)
    vc = PVC(ctx)
    vc.loops = {"nodes": NodesLoop(vc, g)}
    env = util_env(vc)
    from ujvc.z3env import ensure_repo_first

    ensure_repo_first()
    import uberjob._execution.run_function_on_graph as rfg

    env["PreparedNodes"] = rfg.PreparedNodes
    get(NU, "predecessor_count").compile_into(env)
    f = get(REL, "prepare_nodes", cut_loops={0: "nodes"}, sym_containers=True).compile_into(env)
    r = f(g)
    ok = isinstance(r, tuple) and len(r) == 3 and isinstance(r[0], SymBag) and isinstance(r[1], SymSet) and isinstance(r[2], SymDict)
    ctx.check("post:returns-(sources,single,mapping)", bool(ok))
    if not ok:
        return
    bag, single, mp = r
    v = z3.Const("v!po", Node)
    N = g.N
    np_ = G.npred(v)
    ctx.check("post:sources-are-exactly-the-nodes-without-predecessor,each-once",
              z3.ForAll([v], z3.Select(bag.mult, v) == z3.If(z3.And(member(N, v), np_ == 0), 1, 0)))
    ctx.check("post:single_parent_nodes=={v|npred(v)==1}", z3.ForAll([v], member(single.t, v) == z3.And(member(N, v), np_ == 1)))
    ctx.check("post:dom(mapping)=={v|npred(v)>=2}", z3.ForAll([v], member(mp.dom, v) == z3.And(member(N, v), np_ >= 2)))
    ctx.check("post:mapping[v]==npred(v)", z3.ForAll([v], z3.Implies(member(mp.dom, v), z3.Select(mp.val, v) == np_)))
