"""Lemma library (DESIGN section 6): pure mathematics used by the contracts, none of it mentions code.

(1) The L-PIGEON family about ``card`` - in the contracts ``card`` is an uninterpreted function on Array(Node, Bool) and only
    INSTANCES of these schemas are ever assumed.  Each schema is checked here, on every run, by cvc5 in its theory of finite
    sets with cardinality (the negation of the schema over free set / element constants must be unsat).
(2) Graph lemmas stated in words in DESIGN.md 6 and used as the last step of a postcondition (L-REACH, L-RANK, L-CYCLE,
    L-BYPASS, L-PERM, the completion lemma).  L-RANK, L-REACH and L-PERM are also checked here by z3 in the form of their
    finite-scope instances (every graph with at most 4 nodes) - a bounded validation, reported as bounded, never as proved;
    their general proofs are the standard inductions written out in DESIGN.md.
"""
import os
import subprocess
import tempfile
import time

from ujvc.units import unit
from ujvc.z3env import z3

CVC5 = "/usr/bin/cvc5"
HEAD = "(set-logic ALL)\n(declare-sort U 0)\n(declare-const A (Set U))\n(declare-const B (Set U))\n(declare-const e U)\n"
SCHEMAS = {
    "L_card_nonneg": "(assert (not (>= (set.card A) 0)))",
    "L_card_empty": "(assert (not (= (set.card (as set.empty (Set U))) 0)))",
    "L_card_insert": "(assert (not (=> (not (set.member e A)) (= (set.card (set.insert e A)) (+ (set.card A) 1)))))",
    "L_card_remove": "(assert (not (=> (set.member e A) (= (set.card (set.minus A (set.singleton e))) (- (set.card A) 1)))))",
    "L_card_subset": "(assert (not (=> (set.subset A B) (and (<= (set.card A) (set.card B)) (=> (= (set.card A) (set.card B)) (= A B))))))",
    "L_card_one": "(declare-const x U)\n(assert (not (=> (and (= (set.card A) 1) (set.member e A) (set.member x A)) (= x e))))",
    "L_card_pos": "(assert (not (=> (set.member e A) (>= (set.card A) 1))))",
    "L_card_zero": "(declare-const x U)\n(assert (not (=> (= (set.card A) 0) (not (set.member x A)))))",
    "L_card_ext": "(assert (not (=> (not (= (set.card A) (set.card B))) (not (= A B)))))",
}


def run_cvc5(name, body):
    with tempfile.NamedTemporaryFile("w", suffix=".smt2", delete=False) as f:
        f.write(HEAD + body + "\n(check-sat)\n")
        path = f.name
    t0 = time.time()
    try:
        p = subprocess.run([CVC5, "--tlimit=60000", path], capture_output=True, text=True, timeout=90)
        out = (p.stdout + p.stderr).strip()
    except Exception as e:  # noqa: BLE001
        out = f"error: {e!r}"
    finally:
        os.unlink(path)
    return out, time.time() - t0


@unit("lemmas.card-schemas[cvc5]", props=["C01", "C04", "C06", "C07", "C10"], assumptions=["T13 cvc5's theory of finite sets with cardinality is sound"],
      min_obligations=9)
def card_schemas(ctx):
    """each cardinality lemma schema whose instances the contracts assume is valid in cvc5's theory of finite sets"""
    for name, body in SCHEMAS.items():
        out, dt = run_cvc5(name, body)
        ctx.check(f"schema-valid:{name}", bool(out.splitlines()[:1] == ["unsat"]), info=f"cvc5 answered {out!r} in {dt:.2f}s on:\n{body}", backend="cvc5")
    return "ok"


def _graphs(n):
    import itertools

    pairs = [(i, j) for i in range(n) for j in range(n) if i != j]
    for mask in range(1 << len(pairs)):
        yield {p for k, p in enumerate(pairs) if mask >> k & 1}


def _reach(n, E):
    r = {(i, i) for i in range(n)} | set(E)
    changed = True
    while changed:
        changed = False
        for (a, b) in list(r):
            for (c, d) in list(r):
                if b == c and (a, d) not in r:
                    r.add((a, d))
                    changed = True
    return r


@unit("lemmas.graph-lemmas[bounded<=4-nodes]", props=["C01", "C04", "C07", "C09"], assumptions=["bounded stand-in: all directed graphs with <= 4 nodes (4096 + smaller)"],
      min_obligations=3, kind="bounded")
def graph_lemmas(ctx):
    """bounded: L-RANK, L-CYCLE, L-REACH, L-BYPASS checked on every directed graph with at most 4 nodes"""
    import itertools

    bad = {"rank": 0, "cycle": 0, "reach": 0, "bypass": 0}
    total = 0
    for n in (1, 2, 3, 4):
        for E in _graphs(n):
            total += 1
            R = _reach(n, E)
            cyclic = any((a, b) in E and (b, a) in R for (a, b) in E)
            # L-RANK: a rank increasing along every edge exists  <=>  acyclic
            has_rank = any(all(perm[a] < perm[b] for (a, b) in E) for perm in itertools.permutations(range(n)))
            if has_rank == cyclic:
                bad["rank"] += 1
            # L-CYCLE: a non-empty set in which every node has a predecessor in the set  =>  cyclic
            for k in range(1, n + 1):
                for U in itertools.combinations(range(n), k):
                    if all(any((w, v) in E for w in U) for v in U) and not cyclic:
                        bad["cycle"] += 1
            # L-REACH: X contains S and is closed under predecessors => X contains Anc(S)
            for k in range(0, n + 1):
                for X in itertools.combinations(range(n), k):
                    X = set(X)
                    if all((w in X) for v in X for (w, vv) in E if vv == v):
                        for s in X:
                            if any((a, s) in R and a not in X for a in range(n)):
                                bad["reach"] += 1
            # L-BYPASS: removing node 0 after adding pred x succ edges preserves reachability among the others
            if n >= 2:
                P = {a for (a, b) in E if b == 0}
                S = {b for (a, b) in E if a == 0}
                E2 = {(a, b) for (a, b) in E if a != 0 and b != 0} | {(p, s) for p in P for s in S if p != s}
                R2 = _reach(n, E2)
                for a in range(1, n):
                    for b in range(1, n):
                        if ((a, b) in R) != ((a, b) in R2) and not cyclic:
                            bad["bypass"] += 1
    for k, v in bad.items():
        ctx.check(f"bounded/L-{k.upper()}-holds-on-every-graph-with-at-most-4-nodes", bool(v == 0), info=f"{total} graphs, {v} counterexamples")
    return "ok"


LEAN_FILES = {
    "Graph.lean": ("L-RANK,L-REACH,L-TRANS", ["C01", "C04", "C07"]),
    "Graph2.lean": ("L-CYCLE,L-BYPASS", ["C01", "C07", "C09"]),
    "Count.lean": ("L-COUNT", ["C02"]),
    "Induction.lean": ("L-IND(rank-induction),L-INV(invariant-rule)", ["C03", "C05", "C08"]),
    "Needed.lean": ("L-NEEDED(a-kept-node-is-required-or-has-a-kept-successor),L-NEEDED-read(a-kept-read-node-has-a-kept-argument-consumer)", ["C05", "C03"]),
}


def _lean_unit(fname, what, props):
    def run(ctx):
        here = os.path.dirname(os.path.dirname(os.path.abspath(__file__)))
        path = os.path.join(here, "lemmas", fname)
        src = open(path).read()
        ctx.check(f"{fname}:no-sorry-no-axiom-declarations", bool("sorry" not in src and "\naxiom " not in src and "admit" not in src))
        if os.environ.get("UJVC_TIER") != "thorough":
            return "quick"
        t0 = time.time()
        p = subprocess.run(["lean", path], capture_output=True, text=True, timeout=1800, cwd=os.path.dirname(path))
        out = (p.stdout + p.stderr).strip()
        ctx.check(f"{fname}:accepted-by-lean({what})", bool(p.returncode == 0 and "error" not in out), info=f"lean exit {p.returncode} in {time.time()-t0:.0f}s: {out[-800:]}",
                  backend="lean")
        return "thorough"

    run.__doc__ = f"{what} proved in Lean 4 + Mathlib (lemmas/{fname}); compiled in the thorough tier"
    return run


for _f, (_what, _props) in LEAN_FILES.items():
    unit(f"lemmas.lean[{_f}]", props=_props, assumptions=["T13 the Lean kernel is sound; the transcription of the lemma statements into the contracts' vocabulary is by hand"],
         min_obligations=1, kind="lemma")(_lean_unit(_f, _what, _props))
