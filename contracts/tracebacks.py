"""Sidecar contracts for _util/traceback.py, _errors.py and the call sites of get_stack_frame (property C19).

get_stack_frame(initial_depth=2)   The frame chain is modelled by fake frame objects F0 (get_stack_frame itself), F1, F2, ...
   (T11: inspect.currentframe()/f_back is the dynamic call chain).  recurse inspects at most MAX_TRACEBACK_DEPTH + 2 frames
   beyond the initial one, so enumerating chains of length 0 .. initial_depth + MAX_TRACEBACK_DEPTH + 3 is COMPLETE (frames
   further out are never looked at).  Ensures: result is the chain of StackFrame(name, path, line) of F_d, F_{d+1}, ...
   (d = initial_depth), innermost first via .outer, of at most MAX_TRACEBACK_DEPTH + 1 frames, followed by
   TruncatedStackFrame iff a further frame exists, None-terminated otherwise; and it depends on the CURRENT chain only
   (called twice with chains that share their innermost frame it must return each chain's own frames).
render_symbolic_traceback(sf)      header line, then the frames OUTERMOST FIRST, the truncation marker rendered as
   '  ... truncated' (first, being the outermost); complete over all chains get_stack_frame can produce.
call sites   Plan.call / Plan.gather / Plan.unpack / Registry.add / Registry.source call get_stack_frame() with the default
   depth, lexically in their own body (no nested def / lambda / comprehension), and carry no decorator - so F2 is the frame
   of the user's line (AST obligations); every Call that Plan._call / Plan._gather create carries the stack_frame object
   passed in (native run on a real Plan with nested structured arguments).
CallError(call)   .call is the node; message = 'An exception was raised in a symbolic call to <fn>.' + rendered traceback;
   requires a Call: for a Literal (a registered literal whose get_modified_time raised) it raises AttributeError - F4.
"""
import ast

from ujvc.core import EngineSignal, Unsupported
from ujvc.extract import find_def, module_ast
from ujvc.units import base_env, get, unit

from .runphys import _catch, _real

TB = "_util/traceback.py"
PL = "_plan.py"
RG = "_registry.py"
ER = "_errors.py"


class Code:
    def __init__(self, name, path):
        self.co_name, self.co_filename = name, path


class Frame:
    def __init__(self, i, back):
        self.f_code = Code(f"fn{i}", f"/user/mod{i}.py")
        self.f_lineno = 100 + i
        self.f_back = back


def chain(n, tag=0):
    """frames F0 .. F(n-1); returns F0 (innermost)"""
    f = None
    fs = []
    for i in reversed(range(n)):
        f = Frame(i + tag, f)
        fs.append(f)
    return f


@unit("tracebacks.get_stack_frame", props=["C19"], functions=[(TB, "get_stack_frame"), (TB, "get_stack_frame.<locals>.recurse")],
      assumptions=["T11 inspect.currentframe()/f_back is the dynamic call chain", "complete enumeration: frames beyond initial_depth + MAX_TRACEBACK_DEPTH + 2 are never inspected"],
      min_obligations=3)
def get_stack_frame_unit(ctx):
    import importlib

    from ujvc.z3env import ensure_repo_first

    ensure_repo_first()
    tb = importlib.import_module("uberjob._util.traceback")
    MAXD = tb.MAX_TRACEBACK_DEPTH
    depth = 2
    n = ctx.choose(depth + MAXD + 5, "chain-length")  # 0 .. depth+MAXD+4 frames above get_stack_frame
    cur = {"f": chain(n + 1)}  # +1: F0 = get_stack_frame's own frame

    class _inspect:
        @staticmethod
        def currentframe():
            return cur["f"]

    env = base_env(TB, keep=("StackFrame",))
    env.update({"inspect": _inspect, "range": range})
    f = get(TB, "get_stack_frame", native_loops="all").compile_into(env)
    if n + 1 <= depth:  # fewer frames than the skip depth: f_back of None
        kind, val = _catch(ctx, lambda: f())
        ctx.check("fewer-frames-than-the-skip-depth:AttributeError-or-None(no-silent-wrong-frame)", bool((kind == "raise" and isinstance(val, AttributeError)) or (kind == "ret" and val is None)))
        return "short"

    def expect(first_frame):
        out, fr, k = [], first_frame, 0
        while fr is not None and k <= MAXD:
            out.append((fr.f_code.co_name, fr.f_code.co_filename, fr.f_lineno))
            fr, k = fr.f_back, k + 1
        return out, fr is not None

    def flatten(sf):
        out, trunc = [], False
        while sf is not None:
            if sf is tb.TruncatedStackFrame:
                trunc = True
                break
            out.append((sf.name, sf.path, sf.line))
            sf = sf.outer
        return out, trunc

    r = f()
    start = cur["f"].f_back.f_back
    ctx.check("result==frames-F2..-innermost-first,at-most-MAX+1,then-truncation-marker-iff-more-frames-exist", bool(flatten(r) == expect(start)),
              info=f"{flatten(r)} vs {expect(start)}")
    # same innermost call site, different callers: the result must follow the CURRENT chain
    other = chain(n + 1, tag=0)
    fr, orig = other, cur["f"]
    for _ in range(depth + 1):      # the SAME call site (same code objects and lines) ...
        if fr is None:
            break
        fr.f_code, fr.f_lineno = orig.f_code, orig.f_lineno
        fr, orig = fr.f_back, orig.f_back
    while fr is not None:            # ... reached through different callers
        fr.f_code = Code("another_caller_" + fr.f_code.co_name, "/user/other.py")
        fr.f_lineno += 900
        fr = fr.f_back
    cur["f"] = other
    r2 = f()
    ctx.check("depends-only-on-the-current-frame-chain(no-memoisation-across-calls)", bool(flatten(r2) == expect(other.f_back.f_back)), info=f"{flatten(r2)}")
    # the SAME live frame objects later in their execution (a builder function that creates calls on several of its lines, a helper invoked from
    # two lines of one caller): frames are mutable, their f_lineno advances - the result must show the lines the frames are at NOW
    first = other.f_back.f_back
    fr = first.f_back
    while fr is not None:           # only the enclosing frames have moved on
        fr.f_lineno += 7
        fr = fr.f_back
    r3 = f()
    ctx.check("same-live-frames,enclosing-frames-advanced-to-other-lines:the-result-shows-the-current-lines(no-reuse-keyed-by-frame-identity)",
              bool(flatten(r3) == expect(first)), info=f"{flatten(r3)} vs {expect(first)}")
    fr = first
    while fr is not None:           # every frame has moved on
        fr.f_lineno += 11
        fr = fr.f_back
    r4 = f()
    ctx.check("same-live-frames,every-frame-advanced:the-result-shows-the-current-lines", bool(flatten(r4) == expect(first)), info=f"{flatten(r4)} vs {expect(first)}")
    return "ok"


@unit("tracebacks.render", props=["C19"], functions=[(TB, "render_symbolic_traceback")],
      assumptions=["complete over the chains get_stack_frame can produce (length <= MAX_TRACEBACK_DEPTH + 1, optional truncation marker)"], min_obligations=2)
def render_unit(ctx):
    import importlib

    from ujvc.z3env import ensure_repo_first

    ensure_repo_first()
    tb = importlib.import_module("uberjob._util.traceback")
    MAXD = tb.MAX_TRACEBACK_DEPTH
    n = ctx.choose(MAXD + 2, "frames")
    trunc = ctx.choose(2, "truncated") == 1 and n == MAXD + 1
    sf = tb.TruncatedStackFrame if trunc else None
    frames = []
    for i in reversed(range(n)):
        sf = tb.StackFrame(name=f"fn{i}", path=f"/user/m{i}.py", line=10 + i, outer=sf)
        frames.append(sf)
    env = {"TruncatedStackFrame": tb.TruncatedStackFrame, "reversed": reversed}
    f = get(TB, "render_symbolic_traceback", native_loops="all", cut_comps=False).compile_into(env)
    out = f(sf)
    lines = out.split("\n")
    want = ["Symbolic traceback (most recent call last):"] + (["  ... truncated"] if trunc else []) + \
           [f'  File "/user/m{i}.py", line {10 + i}, in fn{i}' for i in reversed(range(n))]
    ctx.check("header,then-frames-OUTERMOST-first(creating-line-last),truncation-marker-first", bool(lines == want), info=f"{lines} vs {want}")
    return "ok"


def _calls_in_body(fn_node, name):
    """calls of `name` lexically in the function's own body (not inside nested defs / lambdas / comprehensions)"""
    found, nested = [], []

    def visit(node, depth):
        for ch in ast.iter_child_nodes(node):
            d = depth + (1 if isinstance(ch, (ast.FunctionDef, ast.Lambda, ast.ListComp, ast.SetComp, ast.DictComp, ast.GeneratorExp, ast.AsyncFunctionDef)) else 0)
            if isinstance(ch, ast.Call) and isinstance(ch.func, ast.Name) and ch.func.id == name:
                (found if depth == 0 else nested).append(ch)
            visit(ch, d)

    visit(fn_node, 0)
    return found, nested


@unit("tracebacks.call-sites", props=["C19"],
      functions=[(PL, "Plan.call"), (PL, "Plan.gather"), (PL, "Plan.unpack"), (RG, "Registry.add"), (RG, "Registry.source"), (PL, "Plan._call"), (PL, "Plan._gather")],
      assumptions=["T11 a call of a plain undecorated def adds exactly one frame"], min_obligations=10, kind="syntactic+native")
def call_sites_unit(ctx):
    for rel, q in [(PL, "Plan.call"), (PL, "Plan.gather"), (PL, "Plan.unpack"), (RG, "Registry.add"), (RG, "Registry.source")]:
        tree, _, _ = module_ast(rel)
        fn = find_def(tree, q)
        own, nested = _calls_in_body(fn, "get_stack_frame")
        ctx.check(f"{q}:calls-get_stack_frame()-exactly-once-in-its-own-body", bool(len(own) == 1 and not nested))
        ctx.check(f"{q}:with-the-default-depth", bool(own and not own[0].args and not own[0].keywords))
        ctx.check(f"{q}:is-a-plain-undecorated-def(one-frame-between-the-user-and-get_stack_frame)", bool(not fn.decorator_list))
    # every Call created for one plan.call / gather carries the stack frame object that was captured
    graph, util, errors, _graph = _real()
    import importlib

    planmod = importlib.import_module("uberjob._plan")
    SF = object()
    plan = planmod.Plan()
    a = plan.call(lambda: 1)
    before = set(plan.graph.nodes())
    c = plan._call(SF, (lambda *x, **k: 0), [a, {"k": (a, 2)}], 5, kw={a: [a]})
    new = [n for n in plan.graph.nodes() if n not in before and type(n) is graph.Call]
    ctx.check("Plan._call:every-call-it-creates(the-call-and-the-implicit-gather-calls)-carries-the-given-stack-frame",
              bool(len(new) >= 4 and all(n.stack_frame is SF for n in new)), info=str([(n.fn, n.stack_frame is SF) for n in new]))
    g = plan._gather(SF, {"x": [a, (a,)]})
    new2 = [n for n in plan.graph.nodes() if n not in before and n not in new and type(n) is graph.Call]
    ctx.check("Plan._gather:every-gather-call-carries-the-given-stack-frame", bool(len(new2) >= 3 and all(n.stack_frame is SF for n in new2)))
    return "ok"


@unit("tracebacks.error-construction-is-total", props=["C06", "C07", "C04", "C10", "C15"],
      functions=[(ER, "NodeError.__init__"), (ER, "CallError.__init__"), ("graph.py", "Call.__repr__"), ("graph.py", "Literal.__repr__"), ("graph.py", "Node.__repr__"),
                 ("_util/__init__.py", "repr_helper")],
      assumptions=["the real error and node classes of the working tree are run natively on nodes that hold awkward USER objects; reprlib.Repr.repr (what the repr helper "
                   "uses at the pinned commit) answers with a generic text when an object's own __repr__ raises"],
      min_obligations=4, kind="concrete-parametric")
def error_total_unit(ctx):
    """The premise behind 'nothing escapes process_node' (C06, C07: a worker that dies while reporting a failure records nothing - run returns normally with calls
    missing, or hangs) and 'every running is followed by completed or failed' (C15): building the NodeError / CallError for a failed node never fails itself,
    whatever the user put into the node - a callable, scope values or a literal value whose __repr__ RAISES, a callable without __qualname__ (functools.partial,
    a callable object), scope values that are not strings, a call created without a stack frame."""
    import functools

    graph, util, errors, _graph = _real()

    class Bad:
        """a user object whose __repr__ and __str__ raise, falsy, callable"""

        def __repr__(self):
            raise RuntimeError("the user's __repr__ raises")

        __str__ = __repr__

        def __len__(self):
            return 0

        def __call__(self, *a, **k):
            return None

    which = ctx.choose(6, "node")
    bad = Bad()
    node = [lambda: graph.Call(bad), lambda: graph.Call(functools.partial(bad, 1)), lambda: graph.Call(len, scope=(bad, 2024, ("t", 1))),
            lambda: graph.Literal(bad), lambda: graph.Literal([bad], scope=(bad,)), lambda: graph.Call(bad, scope=(bad,), stack_frame=None)][which]()
    kind, val = _catch(ctx, lambda: errors.NodeError(node))
    ctx.check("NodeError(node):never-raises-whatever-the-user-put-into-the-node", bool(kind == "ret" and isinstance(val, errors.NodeError) and val.node is node), info=repr(val) if kind != "ret" else "")
    if isinstance(node, graph.Call):
        kind, val = _catch(ctx, lambda: errors.CallError(node))
        ctx.check("CallError(call):never-raises-whatever-the-user-put-into-the-call", bool(kind == "ret" and isinstance(val, errors.CallError) and val.call is node),
                  info=repr(val) if kind != "ret" else "")
        exc = ValueError("x")
        kind, val = _catch(ctx, lambda: errors.create_chained_call_error(node, exc))
        ctx.check("create_chained_call_error:never-raises;cause-is-the-very-exception", bool(kind == "ret" and val.__cause__ is exc and val.call is node))
    return "ok"


@unit("tracebacks.CallError", props=["C19", "C06"], functions=[(ER, "CallError.__init__"), (ER, "create_chained_call_error"), (ER, "NodeError.__init__")],
      assumptions=["fully_qualified_name / render_symbolic_traceback as in their own contracts"], min_obligations=3)
def call_error_unit(ctx):
    graph, util, errors, _graph = _real()

    def fn():
        pass

    k = ctx.choose(2, "node-kind")
    SF = None
    if k == 0:
        node = graph.Call(fn, stack_frame=SF)
    else:
        node = graph.Literal(5)
    kind, val = _catch(ctx, lambda: errors.CallError(node))
    ctx.check("CallError(node)-can-be-built-for-every-node-a-failure-can-be-attributed-to", bool(kind == "ret"), info=repr(val), props=["C19"])
    if kind == "ret":
        ctx.check("CallError.call-is-the-node;message-names-the-function-and-carries-the-symbolic-traceback",
                  bool(val.call is node and "symbolic call to" in str(val) and "Symbolic traceback (most recent call last):" in str(val)))
        class Falsy(Exception):
            def __len__(self):
                return 0

        prior = KeyError("earlier")
        chained = ValueError("with a cause of its own")
        chained.__cause__ = prior
        for what, e in (("ordinary", ValueError("x")), ("falsy", Falsy()), ("already-chained", chained),
                        ("a-CallError-of-another-call(nested-run)", errors.CallError(graph.Call(fn, stack_frame=SF))), ("a-NodeError", errors.NodeError(graph.Call(fn, stack_frame=SF)))):
            ce = errors.create_chained_call_error(node, e)
            ctx.check(f"create_chained_call_error:a-new-CallError-for-the-given-node-whose-cause-is-the-very-exception[{what}]",
                      bool(type(ce) is errors.CallError and ce is not e and ce.call is node and ce.__cause__ is e), props=["C06", "C19", "C15"])
        ctx.check("create_chained_call_error:the-exception's-own-cause-is-left-alone", bool(chained.__cause__ is prior))
    ne = errors.NodeError(node)
    ctx.check("NodeError(node).node-is-the-node", bool(ne.node is node))
    if k == 0:
        # the message is a function of THIS call's own frame chain: two calls created by the same line (same name, path, line of the innermost
        # frame) reached through different callers, errors built one after the other (nothing may be remembered from the first)
        import importlib

        tb = importlib.import_module("uberjob._util.traceback")

        def mk(callers, truncated):
            sf = tb.TruncatedStackFrame if truncated else None
            for name, line in reversed(callers):
                sf = tb.StackFrame(name=name, path="/user/app.py", line=line, outer=sf)
            return tb.StackFrame(name="helper", path="/user/lib.py", line=12, outer=sf)

        def frames_of(sf):
            rows = []
            while sf is not None and sf is not tb.TruncatedStackFrame:
                rows.append((sf.name, sf.path, sf.line))
                sf = sf.outer
            return rows[::-1], sf is tb.TruncatedStackFrame

        def conforms(msg, sf):
            """format-agnostic reading of 'lists those frames outermost first': one line per frame naming its path, line number and function, in
            that order of lines; no line about a function that is not in this chain; the truncation marker iff the chain is truncated"""
            want, trunc = frames_of(sf)
            lines = msg.splitlines()
            pos = -1
            for name, path, line in want:
                nxt = next((i for i in range(pos + 1, len(lines)) if name in lines[i] and path in lines[i] and str(line) in lines[i]), None)
                if nxt is None:
                    return False
                pos = nxt
            foreign = {"build_report", "build_export", "main", "helper"} - {n for n, _, _ in want}
            if any(w in ln for w in foreign for ln in lines):
                return False
            return ("truncated" in msg) == trunc and util.fully_qualified_name(fn) in msg

        chains = [mk([("build_report", 29), ("main", 69)], False), mk([("build_export", 34), ("main", 71)], False), mk([("build_report", 29)], True),
                  mk([], False), mk([("build_report", 29), ("main", 69)], False)]
        bad = []
        for i, sf in enumerate(chains):
            c = graph.Call(fn, stack_frame=sf)
            got = str(errors.CallError(c))
            if not conforms(got, sf):
                bad.append((i, got, frames_of(sf)))
        ctx.check("CallError-message-names-the-function-and-lists-this-call's-own-frames-outermost-first(nothing-remembered-from-errors-built-before)", bool(not bad),
                  info=repr(bad[:1]), props=["C19"])
    return "ok"


F4_SCRIPT = """
import sys, uberjob
from uberjob import ValueStore
class Bad(ValueStore):
    def read(self): return 5
    def write(self, v): pass
    def get_modified_time(self): raise OSError("modified-time query failed")
plan, reg = uberjob.Plan(), uberjob.Registry()
lit = plan.lit(5)
reg.add(lit, Bad())
out = plan.call(lambda x: x, lit)
try:
    uberjob.run(plan, registry=reg, output=out, progress=None)
except uberjob.CallError as e:
    print("ok: CallError", e.call); sys.exit(0)
except BaseException as e:
    print("C19 violated: a failed modified-time query of a registered Literal surfaces as", repr(e), "instead of CallError"); sys.exit(1)
print("no error at all"); sys.exit(1)
"""


def _replay(ob):
    import os
    import subprocess

    from ujvc.z3env import REPO_SRC

    p = __import__('ujvc.units', fromlist=['run_native_p']).run_native_p(["/venv/bin/python", "-c", F4_SCRIPT], env=dict(os.environ, PYTHONPATH=REPO_SRC), timeout=120)
    return {"reproduced": p.returncode == 1, "detail": (p.stdout + p.stderr)[-2000:], "script": F4_SCRIPT}


REPLAYS = [("tracebacks.CallError*", _replay)]


C19_SCRIPT = """
import sys, uberjob
def boom(): raise ValueError("x")
def mklist(): return [1]
def helper(plan): return plan.call(boom)            # one creating line, reached through two different callers
def caller_a(plan): return helper(plan)
def caller_b(plan): return helper(plan)
def gathered(plan, node): return plan.call(lambda s: s, {node})    # the implicit gather_set call fails at run time (unhashable element)
bad = []
def frames(sf):
    out = []
    while sf is not None and not isinstance(sf, type(uberjob._util.traceback.TruncatedStackFrame)):
        out.append(sf.name); sf = sf.outer
    return out
plan = uberjob.Plan()
n1 = caller_a(plan); n2 = caller_b(plan)
for node, want in ((n1, ["helper", "caller_a", "<module>"]), (n2, ["helper", "caller_b", "<module>"])):
    try: uberjob.run(plan, output=node, progress=None)
    except uberjob.CallError as e:
        got = frames(e.call.stack_frame)
        if got[:3] != want: bad.append(("plan.call through " + want[1], got))
        if e.call is not node: bad.append(("CallError.call is not the failing call", e.call))
        msg = str(e).splitlines()
        if not (msg[-1].strip().endswith("in helper") and "line" in msg[-1]): bad.append(("rendered message does not end at the creating line", msg[-2:]))
plan2 = uberjob.Plan()
g = gathered(plan2, plan2.call(mklist))
try: uberjob.run(plan2, output=g, progress=None)
except uberjob.CallError as e:
    got = frames(e.call.stack_frame)
    if got[:2] != ["gathered", "<module>"]: bad.append(("implicit gather of a structured argument", got))
for b in bad: print("C19 violated:", b)
sys.exit(1 if bad else 0)
"""


def _replay19(ob):
    import os
    import subprocess
    import tempfile

    from ujvc.z3env import REPO_SRC

    with tempfile.NamedTemporaryFile("w", suffix=".py", delete=False) as f:
        f.write(C19_SCRIPT)
        path = f.name
    try:
        p = __import__('ujvc.units', fromlist=['run_native_p']).run_native_p(["/venv/bin/python", path], env=dict(os.environ, PYTHONPATH=REPO_SRC), timeout=120)
    finally:
        os.unlink(path)
    return {"reproduced": p.returncode == 1, "detail": (p.stdout + p.stderr)[-2000:], "script": C19_SCRIPT}


REPLAYS = [("tracebacks.CallError*", _replay), ("tracebacks.*", _replay19)]


# ---------------------------------------------------------------------------------------------------------------------
# bounded stand-in: the statement of C19 on the real uberjob for every kind of creating line
# ---------------------------------------------------------------------------------------------------------------------
C19_BOUNDED_SCRIPT = """
import datetime as dt, inspect, sys
import uberjob
from uberjob import Plan, Registry, ValueStore
from uberjob._util.traceback import MAX_TRACEBACK_DEPTH, TruncatedStackFrame
bad = []
def here():
    f = inspect.currentframe().f_back; out = []
    while f is not None: out.append((f.f_code.co_name, f.f_lineno)); f = f.f_back
    return out
def frames(sf):
    out = []; trunc = False
    while sf is not None:
        if sf is TruncatedStackFrame or isinstance(sf, type(TruncatedStackFrame)) and sf is TruncatedStackFrame: trunc = True; break
        if not hasattr(sf, "name"): trunc = True; break
        out.append((sf.name, sf.line)); sf = sf.outer
    return out, trunc
def check(tag, err, node, want):
    if not isinstance(err, uberjob.CallError): bad.append((tag, "run raised", repr(err))); return
    if node is not None and err.call is not node: bad.append((tag, "CallError.call is not the failing symbolic call", repr(err.call)))
    got, trunc = frames(err.call.stack_frame)
    exp = want[:MAX_TRACEBACK_DEPTH + 1]
    if got != exp: bad.append((tag, "symbolic traceback", got[:4], "expected", exp[:4], "lengths", len(got), len(exp)))
    if trunc != (len(want) > MAX_TRACEBACK_DEPTH + 1): bad.append((tag, "truncation marker", trunc, len(want)))
    lines = [l for l in str(err).splitlines() if l.strip().startswith("File ")]
    if lines and not (f"line {exp[0][1]}" in lines[-1] and lines[-1].rstrip().endswith("in " + exp[0][0])): bad.append((tag, "rendered message does not end at the creating line", lines[-1]))
    if len(lines) > 1 and exp[-1][0] not in lines[0]: bad.append((tag, "rendered message is not outermost first", lines[0]))
def run(plan, **kw):
    try: uberjob.run(plan, progress=None, **kw); return None
    except BaseException as e: return e
def boom(*a, **k): raise ValueError("boom")
def ok(*a, **k): return 1
class Store(ValueStore):
    def __init__(self, fail=None, has=False): self.fail, self.has = fail, has
    def read(self):
        if self.fail == "read": raise IOError("read fails")
        return 1
    def write(self, v):
        if self.fail == "write": raise IOError("write fails")
        self.has = True
    def get_modified_time(self):
        if self.fail == "mtime": raise IOError("mtime fails")
        return dt.datetime(2020, 1, 1) if self.has else None
def deep(n, f):
    return deep(n - 1, f) if n else f()
for depth in (0, 3, MAX_TRACEBACK_DEPTH + 5):
    # plan.call
    def mk():
        p = Plan(); n = p.call(boom); w = here(); return p, n, w
    p, n, w = deep(depth, mk); check(f"plan.call depth {depth}", run(p, output=n), n, w)
    # keyword argument + structured argument: the implicit gather call fails at run time (unhashable set element)
    def mk():
        p = Plan(); a = p.call(list); n = p.call(ok, x={a}); w = here(); return p, n, w
    p, n, w = deep(depth, mk); check(f"implicit gather of a keyword argument depth {depth}", run(p, output=n), None, w)
    # plan.gather of a nested structure
    def mk():
        p = Plan(); a = p.call(list); n = p.gather([1, ({a}, 2)]); w = here(); return p, n, w
    p, n, w = deep(depth, mk); check(f"plan.gather nested depth {depth}", run(p, output=n), None, w)
    # plan.unpack: wrong length
    def mk():
        p = Plan(); a = p.call(lambda: (1, 2, 3)); t = p.unpack(a, 2); w = here(); return p, t, w
    p, t, w = deep(depth, mk); check(f"plan.unpack depth {depth}", run(p, output=t[0]), None, w)
    # registry.add: failing write, failing read-back, failing modified-time query
    for fail in ("write", "read", "mtime"):
        def mk():
            p = Plan(); r = Registry(); n = p.call(ok); wn = here(); r.add(n, Store(fail)); wr = here(); return p, r, n, wn, wr
        p, r, n, wn, wr = deep(depth, mk)
        check(f"registry.add failing {fail} depth {depth}", run(p, registry=r, output=n), None, wn if fail == "mtime" else wr)
        # ... and the same through a COPY of the registry (a snapshot taken before more entries were added): the entries keep their creating line
        check(f"registry.copy(): registry.add failing {fail} depth {depth}", run(p, registry=r.copy(), output=n), None, wn if fail == "mtime" else wr)
    # an ELEMENT of plan.unpack examined by the stale check (its store's modified-time query fails): the line that created it is the unpack line
    def mk():
        p = Plan(); r = Registry(); a = p.call(lambda: (1, 2)); t = p.unpack(a, 2); w = here(); r.add(t[1], Store("mtime")); return p, r, t, w
    p, r, t, w = deep(depth, mk); check(f"modified-time query of an unpacked element depth {depth}", run(p, registry=r, output=t[1]), t[1], w)
    # registry.source: failing read
    def mk():
        p = Plan(); r = Registry(); n = r.source(p, Store("read", has=True)); w = here(); return p, r, n, w
    p, r, n, w = deep(depth, mk); check(f"registry.source failing read depth {depth}", run(p, registry=r, output=n), None, w)
    check(f"registry.copy(): registry.source failing read depth {depth}", run(p, registry=r.copy(), output=n), None, w)
# one creating line reached through two different callers
def helper(p): n = p.call(boom); w = here(); return n, w
def caller_a(p): return helper(p)
def caller_b(p): return helper(p)
p = Plan(); (na, wa), (nb, wb) = caller_a(p), caller_b(p)
check("same line via caller_a", run(p, output=na), na, wa); check("same line via caller_b", run(p, output=nb), nb, wb)
for b in bad[:6]: print("C19 violated:", b)
print(len(bad), "problem(s)"); sys.exit(1 if bad else 0)
"""


def _replay19b(ob=None):
    import os
    import subprocess
    import tempfile

    from ujvc.z3env import REPO_SRC

    with tempfile.NamedTemporaryFile("w", suffix=".py", delete=False) as f:
        f.write(C19_BOUNDED_SCRIPT)
        path = f.name
    try:
        p = __import__('ujvc.units', fromlist=['run_native_p']).run_native_p(["/venv/bin/python", path], env=dict(os.environ, PYTHONPATH=REPO_SRC), timeout=300)
    finally:
        os.unlink(path)
    return {"reproduced": p.returncode == 1, "detail": (p.stdout + p.stderr)[-3000:], "script": C19_BOUNDED_SCRIPT, "rc": p.returncode}


def _c19_bounded(ctx):
    """bounded: every kind of creating line (plan.call, implicit gather, plan.gather nested, unpack, registry.add write / read-back / modified-time, registry.source) at stack depths 0, 3 and beyond the limit; one line through two callers"""
    r = _replay19b()
    if r["rc"] not in (0, 1):   # the probe itself failed: no verdict
        ctx.unsupported("attribution probe did not run: " + r["detail"][-600:])
    ctx.check("bounded/attribution-probe-ran", True, info=r["detail"][-1500:])
    ctx.check("bounded/every-failure-attributed-to-the-creating-user-line,enclosing-frames-up-to-the-limit,truncation-marked,rendered-outermost-first", bool(r["rc"] != 1), info=r["detail"][-2500:])
    return "ok"


unit("tracebacks.native[bounded]", props=["C19"],
     functions=[(TB, "get_stack_frame"), (TB, "render_symbolic_traceback"), ("_plan.py", "Plan._call"), ("_plan.py", "Plan._gather"), ("_plan.py", "Plan._gather.<locals>.recurse"),
                ("_plan.py", "Plan.call"), ("_plan.py", "Plan.gather"), ("_plan.py", "Plan.unpack"), ("_registry.py", "Registry.add"), ("_registry.py", "Registry.source"),
                (ER, "CallError.__init__"), (ER, "create_chained_call_error"), ("_execution/run_physical.py", "prep_run_physical.<locals>.process"),
                ("_transformations/caching.py", "_get_stale_nodes.<locals>.process_with_callbacks"), ("_transformations/caching.py", "_add_value_store"), ("_run.py", "run")],
     assumptions=["bounded stand-in: see the script in contracts/tracebacks.py"], min_obligations=2, kind="bounded")(_c19_bounded)

# what a call may raise (C06 excepts none of them): an ordinary / falsy / already-chained exception, or the CallError of a nested run that failed
NESTED_SCRIPT = """
import sys, uberjob
bad = []
class Falsy(Exception):
    def __len__(self): return 0
def mk_raisers():
    raised = {}
    def ordinary(): raised["e"] = ValueError("x"); raise raised["e"]
    def falsy(): raised["e"] = Falsy(); raise raised["e"]
    def chained():
        try: {}["k"]
        except KeyError as k:
            raised["e"] = ValueError("chained"); raised["e"].__cause__ = k; raise raised["e"]
    def inner_boom(): raise ValueError("inner")
    def nested():
        p = uberjob.Plan(); c = p.call(inner_boom)
        try: return uberjob.run(p, output=c, progress=None)
        except BaseException as e: raised["e"] = e; raise
    return raised, [ordinary, falsy, chained, nested]
for workers in (1, 3):
    raised, fns = mk_raisers()
    for fn in fns:
        started = []
        def down(x): started.append("down"); return x
        plan = uberjob.Plan(); node = plan.call(fn); d = plan.call(down, node)
        raised.clear()
        try:
            r = uberjob.run(plan, output=d, progress=None, max_workers=workers)
            bad.append((fn.__name__, "run returned", r)); continue
        except uberjob.CallError as e: err = e
        except BaseException as e: bad.append((fn.__name__, "run raised", repr(e))); continue
        if err.call is not node: bad.append((fn.__name__, "CallError.call is not the call of this plan that raised", err.call))
        if err.__cause__ is not raised.get("e"): bad.append((fn.__name__, "__cause__ is not the object the call raised", repr(err.__cause__)))
        if started: bad.append((fn.__name__, "a downstream call started"))
for b in bad: print("C06 violated:", b)
print("ok" if not bad else "failed"); sys.exit(1 if bad else 0)
"""


# F6: an exception whose attributes cannot be assigned (frozen dataclass) raised by a call / by a store's modified-time query
F6_SCRIPT = """
import sys, dataclasses, uberjob
from uberjob import ValueStore
@dataclasses.dataclass(frozen=True)
class Frozen(Exception):
    code: int = 3
bad = []
class Obs(uberjob.progress.ProgressObserver):
    def __init__(self): self.ev = []
    def __enter__(self): return self
    def __exit__(self, *a): pass
    def increment_total(self, *, section, scope, amount): pass
    def increment_running(self, *, section, scope): self.ev.append(("running", section, scope))
    def increment_completed(self, *, section, scope): self.ev.append(("completed", section, scope))
    def increment_failed(self, *, section, scope, exception): self.ev.append(("failed", section, scope))
class P(uberjob.progress.Progress):
    def __init__(self, o): self.o = o
    def observer(self): return self.o
def check(name, run, node, raised):
    obs = Obs()
    try:
        r = run(obs); bad.append((name, "run returned", r)); return
    except uberjob.CallError as e: err = e
    except BaseException as e: bad.append((name, "run raised", repr(e))); return
    if err.call is not node: bad.append((name, "CallError.call is not the failed call", err.call))
    if err.__cause__ is not raised.get("e"): bad.append((name, "__cause__ is not the exception that was raised but", repr(err.__cause__)))
    opened = [e for e in obs.ev if e[0] == "running"]; closed = [e for e in obs.ev if e[0] in ("completed", "failed")]
    if len(opened) != len(closed): bad.append((name, "a call reported running was never reported completed or failed", obs.ev))
raised = {}
def boom(): raised["e"] = Frozen(7); raise raised["e"]
plan = uberjob.Plan(); n = plan.call(boom)
check("call raises a frozen exception", lambda obs: uberjob.run(plan, output=n, progress=P(obs)), n, raised)
class BadStore(ValueStore):
    def read(self): return 1
    def write(self, v): pass
    def get_modified_time(self): raised["e"] = Frozen(8); raise raised["e"]
plan2, reg = uberjob.Plan(), uberjob.Registry(); m = plan2.call(lambda: 1); reg.add(m, BadStore())
check("modified-time query raises a frozen exception", lambda obs: uberjob.run(plan2, registry=reg, output=m, progress=P(obs)), m, raised)
for b in bad: print("C06/C15 violated:", b)
print("ok" if not bad else "failed"); sys.exit(1 if bad else 0)
"""


def _replay_f6(ob=None):
    import os

    from ujvc.z3env import REPO_SRC

    p = __import__('ujvc.units', fromlist=['run_native_p']).run_native_p(["/venv/bin/python", "-c", F6_SCRIPT], env=dict(os.environ, PYTHONPATH=REPO_SRC), timeout=120)
    return {"reproduced": p.returncode == 1, "detail": (p.stdout + p.stderr)[-2000:], "script": F6_SCRIPT}


def _replay_nested(ob):
    import os

    from ujvc.z3env import REPO_SRC

    p = __import__('ujvc.units', fromlist=['run_native_p']).run_native_p(["/venv/bin/python", "-c", NESTED_SCRIPT], env=dict(os.environ, PYTHONPATH=REPO_SRC), timeout=120)
    return {"reproduced": p.returncode == 1, "detail": (p.stdout + p.stderr)[-2000:], "script": NESTED_SCRIPT}


REPLAYS = [("tracebacks.CallError/create_chained_call_error*", _replay_nested), ("tracebacks.CallError*", _replay), ("tracebacks.native*", _replay19b), ("tracebacks.*", _replay19)]
