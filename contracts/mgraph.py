"""Symbolic view of a mutable networkx.MultiDiGraph holding uberjob nodes (T5), and of a Plan.

  N : set of nodes                     E : Node x Node x Key -> Bool   (each (u,v,k) at most once)
  Key: uninterpreted sort with  kind(k) in {0 Dependency, 1 PositionalArg, 2 KeywordArg}, kidx(k), kname(k);
       equality of keys is the equality the repository's __eq__/__hash__ define (graph.py; checked natively in
       contracts/plumbing.py): same kind, same index, same name  =>  same key.
Edge keys handed to the code are REAL instances of Dependency / PositionalArg / KeywordArg (the code applies
``type(k) is ...`` to them), each mapped to a Key term; nodes are REAL instances of Call / Literal (``type(n) is
Call``) mapped to Node terms.

Operation contracts (networkx 2.8.8, T5):
  add_node(n)            N += n
  add_edge(u, v, k)      E += (u,v,k);  N += u, v   (networkx creates missing endpoints silently)
  remove_edge(u, v, k)   requires (u,v,k) in E (else NetworkXError);  E -= (u,v,k)
  remove_node(n)         requires n in N;  N -= n;  every edge incident to n removed
  remove_nodes_from(S)   N -= S;  every edge incident to a member removed
  predecessors(n) / successors(n)   the DISTINCT neighbours, each once
  in_edges / out_edges(n, keys=True)  each (u,v,k) once
  copy()                 a graph with equal N and E that shares no adjacency with the original
"""
from ujvc.core import Unsupported
from ujvc.z3env import z3

from . import gstate as G
from .gstate import Node, member, insert

IntS = z3.IntSort()
Key = z3.DeclareSort("Key")
Name = z3.DeclareSort("Name")
kind = z3.Function("kind", Key, IntS)
kidx = z3.Function("kidx", Key, IntS)
kname = z3.Function("kname", Key, Name)
DEP = z3.Const("DEP", Key)
pos = z3.Function("pos", IntS, Key)
kw = z3.Function("kw", Name, IntS, Key)
KeySet = z3.ArraySort(Key, z3.BoolSort())
EdgeS = z3.ArraySort(Node, z3.ArraySort(Node, KeySet))


def key_axioms():
    k, k2 = z3.Const("k!ka", Key), z3.Const("k2!ka", Key)
    i = z3.Const("i!ka", IntS)
    nm = z3.Const("n!ka", Name)
    return [
        z3.ForAll([k], z3.And(kind(k) >= 0, kind(k) <= 2)),
        z3.ForAll([k, k2], z3.Implies(z3.And(kind(k) == kind(k2), z3.Or(kind(k) == 0, z3.And(kidx(k) == kidx(k2), z3.Or(kind(k) == 1, kname(k) == kname(k2))))), k == k2)),
        kind(DEP) == 0,
    ]


def pos_key(ctx, i):
    """Key term of PositionalArg(i); its defining facts are added per instance (a quantifier over Int could not be
    expanded in the finite-scope refutation stage)"""
    t = pos(i)
    ctx.assume(z3.And(kind(t) == 1, kidx(t) == i))
    return t


def kw_key(ctx, nm, i):
    t = kw(nm, i)
    ctx.assume(z3.And(kind(t) == 2, kidx(t) == i, kname(t) == nm))
    return t


def esel(E, u, v, k):
    return z3.Select(z3.Select(z3.Select(E, u), v), k)


def eset(E, u, v, k, b):
    row = z3.Select(E, u)
    cell = z3.Select(row, v)
    return z3.Store(E, u, z3.Store(row, v, z3.Store(cell, k, z3.BoolVal(b))))


class Objects:
    """side table: real python objects (nodes, keys) <-> terms"""

    def __init__(self, ctx, classes):
        self.ctx = ctx
        self.cls = classes  # dict with Call, Literal, Dependency, PositionalArg, KeywordArg
        self.node_terms = {}
        self.keep = []

    # nodes -------------------------------------------------------------------------------
    def new_node(self, cls_name, hint="n", **slots):
        cls = self.cls[cls_name]
        o = cls.__new__(cls)
        for a, v in slots.items():
            setattr(o, a, v)
        t = self.ctx.fresh(Node, hint)
        self.node_terms[id(o)] = t
        self.keep.append(o)
        return o

    def bind(self, obj, t):
        self.node_terms[id(obj)] = t
        self.keep.append(obj)

    def nt(self, obj):
        t = self.node_terms.get(id(obj))
        if t is None:
            raise Unsupported(f"object {type(obj).__name__} is not a known node")
        return t

    # keys --------------------------------------------------------------------------------
    def kt(self, key):
        c = self.cls
        t = type(key)
        sym = getattr(key, "_term", None)
        if t is c["Dependency"]:
            return DEP
        if t is c["PositionalArg"]:
            i = key.index
            return pos_key(self.ctx, i.t if hasattr(i, "t") else z3.IntVal(i))
        if t is c["KeywordArg"]:
            i = key.index
            return kw_key(self.ctx, self.name_t(key.name), i.t if hasattr(i, "t") else z3.IntVal(i))
        raise Unsupported(f"edge key of type {t.__name__}")

    def name_t(self, name):
        if hasattr(name, "t"):
            return name.t
        if not hasattr(self, "_names"):
            self._names = {}
        if name not in self._names:
            self._names[name] = z3.Const(f"name_{name}", Name)
            others = [v for k, v in self._names.items() if k != name]
            for o in others:
                self.ctx.assume(self._names[name] != o)
        return self._names[name]

    def generic_key(self, label="key"):
        """a generic edge key: real instance of one of the three classes (eager split), symbolic index/name"""
        from ujvc.vc import SInt

        c = self.cls
        k = self.ctx.choose(3, label)
        if k == 0:
            return c["Dependency"]()
        i = SInt(self.ctx, self.ctx.fresh(IntS, "kidx"))
        if k == 1:
            o = c["PositionalArg"].__new__(c["PositionalArg"])
            o.index = i
            return o
        o = c["KeywordArg"].__new__(c["KeywordArg"])
        o.index = i

        class SName:
            pass

        nm = SName()
        nm.t = self.ctx.fresh(Name, "kname")
        o.name = nm
        return o


class EdgeList:
    """snapshot list(graph.out_edges(n, keys=True)) / in_edges: the set {(x,k)} of (other endpoint, key)"""

    def __init__(self, g, node_t, direction, E):
        self.g, self.node_t, self.direction, self.E = g, node_t, direction, E

    def has(self, x, k):
        return esel(self.E, self.node_t, x, k) if self.direction == "out" else esel(self.E, x, self.node_t, k)

    def __iter__(self):
        raise Unsupported("iteration over an edge view outside a cut loop")


class NeighbourIter:
    def __init__(self, g, node_t, direction, E):
        self.g, self.node_t, self.direction, self.E = g, node_t, direction, E

    def has(self, x):
        k = z3.Const("k!ni", Key)
        return z3.Exists([k], esel(self.E, x, self.node_t, k) if self.direction == "pred" else esel(self.E, self.node_t, x, k))

    def __iter__(self):
        raise Unsupported("iteration over neighbours outside a cut loop")


class NodeView:
    def __init__(self, g):
        self.g = g

    def __call__(self):
        return self

    def __iter__(self):
        raise Unsupported("iteration over graph nodes outside a cut loop")


class MGraph:
    def __init__(self, ctx, objs, N=None, E=None, tag="g", frozen=False):
        self.ctx, self.objs = ctx, objs
        self.N = ctx.fresh(G.SetN, f"{tag}.N") if N is None else N
        self.E = ctx.fresh(EdgeS, f"{tag}.E") if E is None else E
        self.frozen = frozen  # the caller's graph: any mutation is a failed frame obligation (C13)
        self.tag = tag
        self.nodes = NodeView(self)
        self.mutations = 0

    def wf(self):
        """edges only between members"""
        u, v, k = z3.Const("u!wf", Node), z3.Const("v!wf", Node), z3.Const("k!wf", Key)
        return z3.ForAll([u, v, k], z3.Implies(esel(self.E, u, v, k), z3.And(member(self.N, u), member(self.N, v))))

    def _mut(self, what):
        self.mutations += 1
        if self.frozen:
            self.ctx.check(f"frame:{self.tag}.{what}", False, props=["C13"], info="mutation of a graph the caller owns")

    def add_node(self, n):
        self._mut("add_node")
        self.N = insert(self.N, self.objs.nt(n))

    def has_node(self, n):
        return self.ctx.branch(member(self.N, self.objs.nt(n)), "has_node")

    def add_edge(self, u, v, key=None):
        self._mut("add_edge")
        if key is None:
            raise Unsupported("add_edge without key")
        ut, vt, k = self.objs.nt(u), self.objs.nt(v), self.objs.kt(key)
        self.E = eset(self.E, ut, vt, k, True)
        self.N = insert(insert(self.N, ut), vt)
        return key

    def remove_edge(self, u, v, key=None):
        self._mut("remove_edge")
        if key is None:
            raise Unsupported("remove_edge without key")
        ut, vt, k = self.objs.nt(u), self.objs.nt(v), self.objs.kt(key)
        self.ctx.check("defined:remove_edge-of-an-existing-edge", esel(self.E, ut, vt, k), info="NetworkXError")
        self.E = eset(self.E, ut, vt, k, False)

    def remove_node(self, n):
        self._mut("remove_node")
        nt = self.objs.nt(n)
        self.ctx.check("defined:remove_node-of-a-member", member(self.N, nt), info="NetworkXError")
        self._remove_set(insert(G.EMPTY, nt))

    def _remove_set(self, S):
        E2 = self.ctx.fresh(EdgeS, f"{self.tag}.E")
        u, v, k = z3.Const("u!rm", Node), z3.Const("v!rm", Node), z3.Const("k!rm", Key)
        self.ctx.assume(z3.ForAll([u, v, k], esel(E2, u, v, k) == z3.And(esel(self.E, u, v, k), z3.Not(member(S, u)), z3.Not(member(S, v)))))
        N2 = self.ctx.fresh(G.SetN, f"{self.tag}.N")
        self.ctx.assume(z3.ForAll([u], member(N2, u) == z3.And(member(self.N, u), z3.Not(member(S, u)))))
        self.E, self.N = E2, N2

    def remove_nodes_from(self, S):
        self._mut("remove_nodes_from")
        if not hasattr(S, "t"):
            raise Unsupported("remove_nodes_from a non-symbolic collection")
        self._remove_set(S.t)

    def out_edges(self, n, keys=False):
        if not keys:
            raise Unsupported("out_edges without keys")
        return EdgeList(self, self.objs.nt(n), "out", self.E)

    def in_edges(self, n, keys=False):
        if not keys:
            raise Unsupported("in_edges without keys")
        return EdgeList(self, self.objs.nt(n), "in", self.E)

    def predecessors(self, n):
        return NeighbourIter(self, self.objs.nt(n), "pred", self.E)

    def successors(self, n):
        return NeighbourIter(self, self.objs.nt(n), "succ", self.E)

    def __iter__(self):
        raise Unsupported("iteration over the graph outside a cut loop")

    def copy(self):
        return MGraph(self.ctx, self.objs, self.N, self.E, tag=self.tag + "'", frozen=False)
