"""Sidecar contract for uberjob/_util/retry.py (property C10, retry clause).

Contract of ``create_retry(attempts, exc_type)`` for every integer ``attempts`` and every
exception class ``exc_type`` (represented by a fresh class ET: ``except exc_type`` is decided
natively by CPython, so the proof is parametric in the class):

  attempts < 1                      raises ValueError
  attempts == 1                     returns ``identity`` (so f runs exactly once per call)
  attempts >= 2, wrapper(*a, **k):
     * every invocation of f receives exactly (*a, **k)
     * returns r      =>  r is the object returned by the LAST invocation of f, no invocation
                          of f follows a successful one, and  #invocations <= attempts
     * raises e       =>  e is the very exception object raised by the LAST invocation of f;
                          isinstance(e, exc_type) => #invocations == attempts (exhausted);
                          otherwise it propagated at once
     * falling out of the loop (which would return None) is unreachable
Loop invariant (loop 0, ``for attempt_index in range(attempts)``):
     calls == attempt_index  and  0 <= attempt_index <= attempts - 1
"""
import functools

from ujvc.core import Unsupported
from ujvc.units import get, unit
from ujvc.vc import VC, IntS, RangeLoop, SInt
from ujvc.z3env import z3

REL = "_util/retry.py"


class _Ghost:
    pass


class _AttemptsLoop(RangeLoop):
    exit_unreachable = True  # falling out of the loop would make wrapper return None

    def __init__(self, g, attempts):
        super().__init__()
        self.g, self.attempts = g, attempts

    def havoc_state(self, ctx):
        self.g.calls = ctx.fresh(IntS, "calls")
        self.g.last = None

    def inv(self, ctx, i):
        return z3.And(self.g.calls == i, i >= 0, i <= self.attempts - 1)


@unit(
    "retry.create_retry",
    props=["C10"],
    functions=[(REL, "create_retry"), (REL, "identity")],
    assumptions=["T7 user call functions do not touch uberjob internals", "T9 functools.wraps is transparent",
                 "precondition: attempts is an int (assert_is_instance is not under contract)"],
    min_obligations=10,
)
def retry_unit(ctx):
    class ET(Exception):
        pass

    class ETsub(ET):
        pass

    class Other(Exception):
        pass

    class OnlyBase(BaseException):
        pass

    g = _Ghost()
    g.calls = z3.IntVal(0)
    g.last = None
    n = ctx.fresh(IntS, "attempts")
    attempts = SInt(ctx, n)
    A1, KV = object(), object()

    def f(*args, **kwargs):
        ctx.check("f/args-forwarded", bool(len(args) == 1 and args[0] is A1 and list(kwargs.items()) == [("k", KV)]
                                          and kwargs["k"] is KV), props=["C10"])
        ctx.check("f/no-call-after-success", bool(g.last is None or g.last[0] != "ret"), props=["C10"])
        g.calls = g.calls + 1
        o = ctx.choose(4, "f")
        if o == 0:
            r = object()
            g.last = ("ret", r)
            return r
        e = (ETsub, Other, OnlyBase)[o - 1]()
        g.last = ("raise", e)
        raise e

    vc = VC(ctx, loops={"attempts": _AttemptsLoop(g, n)})
    env = {
        "wraps": functools.wraps,
        "assert_is_instance": lambda *a, **k: None,
        "__vc": vc,
        "range": vc.range,
    }
    get(REL, "identity").compile_into(env)
    create_retry = get(REL, "create_retry", cut_loops={0: "attempts"}, keep_nonlocal=True).compile_into(env)

    try:
        retry = create_retry(attempts, ET)
    except ValueError:
        ctx.check("create_retry/raises-ValueError-iff-attempts<1", n < 1)
        return "raises ValueError"
    ctx.check("create_retry/returns-iff-attempts>=1", n >= 1)
    wrapped = retry(f)
    if wrapped is f:
        ctx.check("create_retry/identity-iff-attempts==1", n == 1)
        return "identity"
    ctx.check("create_retry/wrapper-iff-attempts>=2", n >= 2)
    try:
        r = wrapped(A1, k=KV)
    except BaseException as e:
        if ctx.dead is not None:
            raise
        ctx.check("wrapper/raises:is-last-attempt's-exception", bool(g.last is not None and g.last[0] == "raise" and g.last[1] is e))
        if isinstance(e, ET):
            ctx.check("wrapper/raises:exc_type=>attempts-exhausted", g.calls == n)
        else:
            ctx.check("wrapper/raises:other=>at-most-attempts", z3.And(g.calls >= 1, g.calls <= n))
        return "raises"
    # normal return: must come from a successful invocation, not from falling out of the loop
    if g.last is None or g.last[0] != "ret":
        ctx.check("wrapper/loop-exit-unreachable", z3.BoolVal(False), info="wrapper returned without a successful attempt")
        return "fell-out"
    ctx.check("wrapper/returns:is-last-attempt's-result", bool(g.last[1] is r))
    ctx.check("wrapper/returns:at-most-attempts", z3.And(g.calls >= 1, g.calls <= n))
    return "returns"


from .sysprobe import replay_for as _replay_for  # noqa: E402

REPLAYS = [("retry.*", _replay_for(['C10', 'C04'], 1500))]
