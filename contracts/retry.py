"""Sidecar contract for uberjob/_util/retry.py (property C10, retry clause).

Contract of ``create_retry(attempts, exc_type)`` for every integer ``attempts`` and every
exception class ``exc_type`` (represented by a fresh class ET: ``except exc_type`` is decided
natively by CPython, so the proof is parametric in the class):

  attempts < 1                      raises ValueError
  attempts == 1                     returns ``identity`` (so f runs exactly once per call)
  attempts >= 2, wrapper(*a, **k):
     * every invocation of f receives exactly (*a, **k)
     * returns r      =>  r is the object returned by the LAST invocation of f, no invocation
                          of f follows a successful one, and  #invocations <= attempts
     * raises e       =>  e is the very exception object raised by the LAST invocation of f;
                          isinstance(e, exc_type) => #invocations == attempts (exhausted);
                          otherwise it propagated at once
     * returning without a successful invocation (falling out of the loop would return None) is unreachable
Loop invariant (the loop around the attempts, found by what it iterates):  calls == index - start, plus index <= stop - 1 when the
loop makes all the attempts (then its normal exit is infeasible); a loop that makes all but the last attempt is accepted too.
"""
import functools

from ujvc.core import Unsupported
from ujvc.units import get, unit
from ujvc.vc import VC, IntS, RangeLoop, SInt
from ujvc.z3env import z3

REL = "_util/retry.py"


class _Ghost:
    pass


class _AttemptsLoop(RangeLoop):
    """``for <index> in range(start, stop)`` around the attempts.  Invariant:  calls == index - start  and no attempt so far succeeded;
    when the loop is meant to make ALL attempts (stop - start == attempts: the last one re-raises inside the loop) additionally
    index <= stop - 1, which makes the normal loop exit infeasible (falling out would return None);  when it makes all but the last
    (stop - start == attempts - 1: the final attempt follows the loop) the exit is reachable with calls == attempts - 1.
    Any other trip count is not a shape this contract describes: undecided."""

    def __init__(self, g, attempts):
        super().__init__()
        self.g, self.attempts = g, attempts
        self.all_attempts = None

    def _classify(self, ctx, it):
        from ujvc.vc import _i

        start, stop = _i(it.start), _i(it.stop)
        self.start, self.stop = start, stop

        def valid(f):
            s = z3.Solver()
            s.set("timeout", 2000)
            for a in ctx.pc:
                s.add(a)
            s.add(z3.Not(f))
            return s.check() == z3.unsat

        if valid(stop - start == self.attempts):
            # two candidate invariants (disjunctive proof attempt, ujvc/units.py): the loop exit is infeasible because the last attempt
            # re-raises inside the loop (index <= stop - 1), or it is reachable with every attempt made and swallowed
            self.all_attempts = ctx.choose(2, "alt:retry-loop-invariant") == 0
        elif valid(stop - start == self.attempts - 1):
            self.all_attempts = False
        else:
            raise Unsupported("the retry loop makes neither all attempts nor all but the last one")

    def establish(self, ctx, it, locs):
        self._classify(ctx, it)
        RangeLoop.establish(self, ctx, it, locs)

    def havoc_state(self, ctx):
        self.g.calls = ctx.fresh(IntS, "calls")
        self.g.last = None

    def inv(self, ctx, i):
        base = z3.And(self.g.calls == i - self.start, i >= self.start)
        return z3.And(base, i <= self.stop - 1) if self.all_attempts else base


@unit(
    "retry.create_retry",
    props=["C10", "C06", "C09"],      # C06 / C09: a call or store operation that failed on every attempt is never reported as having succeeded
    functions=[(REL, "create_retry"), (REL, "create_retry.<locals>.inner_retry"), (REL, "create_retry.<locals>.inner_retry.<locals>.wrapper"), (REL, "identity")],
    assumptions=["T7 user call functions do not touch uberjob internals", "T9 functools.wraps is transparent",
                 "precondition: attempts is an int (assert_is_instance is not under contract)"],
    min_obligations=10,
)
def retry_unit(ctx):
    class ET(Exception):
        pass

    class ETsub(ET):
        pass

    class FalsyET(ET):
        """an exception instance that is falsy (an aggregate error carrying zero item failures): its truth value must never be consulted"""

        def __len__(self):
            return 0

    class Other(Exception):
        pass

    class OnlyBase(BaseException):
        pass

    g = _Ghost()
    g.calls = z3.IntVal(0)
    g.last = None
    n = ctx.fresh(IntS, "attempts")
    attempts = SInt(ctx, n)
    A1, KV = object(), object()
    # the call's own keyword arguments may have ANY name - also the names a retry helper is likely to use for its own parameters
    KW = {"k": KV, "attempts": object(), "exc_type": object(), "f": object(), "fn": object(), "func": object(), "self": object(), "args": object(),
          "kwargs": object(), "retry": object(), "exception": object(), "wrapper": object()}

    def f(*args, **kwargs):
        ctx.check("f/args-forwarded", bool(len(args) == 1 and args[0] is A1 and list(kwargs) == list(KW)
                                          and all(kwargs[k_] is KW[k_] for k_ in KW)), props=["C10"])
        ctx.check("f/no-call-after-success", bool(g.last is None or g.last[0] != "ret"), props=["C10"])
        g.calls = g.calls + 1
        o = ctx.choose(5, "f")
        if o == 0:
            r = object()
            g.last = ("ret", r)
            return r
        e = (ETsub, Other, OnlyBase, FalsyET)[o - 1]()
        g.last = ("raise", e)
        raise e

    loop = _AttemptsLoop(g, n)
    vc = VC(ctx, loops={})
    vc.resolve_loop = lambda key, it: loop if hasattr(it, "start") and hasattr(it, "stop") else None
    env = {
        "wraps": functools.wraps,
        "assert_is_instance": lambda *a, **k: None,
        "__vc": vc,
        "range": vc.range,
    }
    get(REL, "identity").compile_into(env)
    create_retry = get(REL, "create_retry", cut_loops="auto", keep_nonlocal=True).compile_into(env)

    try:
        retry = create_retry(attempts, ET)
    except ValueError:
        ctx.check("create_retry/raises-ValueError-iff-attempts<1", n < 1)
        return "raises ValueError"
    ctx.check("create_retry/returns-iff-attempts>=1", n >= 1)
    wrapped = retry(f)
    if wrapped is f:
        ctx.check("create_retry/identity-iff-attempts==1", n == 1)
        return "identity"
    ctx.check("create_retry/wrapper-iff-attempts>=2", n >= 2)
    try:
        r = wrapped(A1, **KW)
    except BaseException as e:
        if ctx.dead is not None:
            raise
        ctx.classify(e)
        ctx.check("wrapper/raises:is-last-attempt's-exception", bool(g.last is not None and g.last[0] == "raise" and g.last[1] is e))
        if isinstance(e, ET):
            ctx.check("wrapper/raises:exc_type=>attempts-exhausted", g.calls == n)
        else:
            ctx.check("wrapper/raises:other=>at-most-attempts", z3.And(g.calls >= 1, g.calls <= n))
        return "raises"
    # normal return: must come from a successful invocation, not from falling out of the loop
    if g.last is None or g.last[0] != "ret":
        ctx.check("wrapper/loop-exit-unreachable", z3.BoolVal(False), info="wrapper returned without a successful attempt")
        return "fell-out"
    ctx.check("wrapper/returns:is-last-attempt's-result", bool(g.last[1] is r))
    ctx.check("wrapper/returns:at-most-attempts", z3.And(g.calls >= 1, g.calls <= n))
    return "returns"


@unit("retry.invocations-are-independent", props=["C10", "C06", "C09"], functions=[(REL, "create_retry"), (REL, "create_retry.<locals>.inner_retry"), (REL, "create_retry.<locals>.inner_retry.<locals>.wrapper")],
      assumptions=["concrete attempts = 3; the loop runs natively"], min_obligations=2, kind="concrete-parametric")
def retry_stateless_unit(ctx):
    """the attempt budget is per INVOCATION of the wrapped function, not per decorated function or per decorator: after an invocation that used up
    failures, the next invocation of the same wrapper (and of another function wrapped by the same decorator) again gets all its attempts"""
    class ET(Exception):
        def __len__(self):      # a FALSY exception (zero item failures): whoever asks "was there an exception?" by truth value loses it
            return 0

    env = {"wraps": functools.wraps, "assert_is_instance": lambda *a, **k: None}
    get(REL, "identity").compile_into(env)
    create_retry = get(REL, "create_retry", native_loops="all").compile_into(env)
    retry = create_retry(3, ET)
    calls = []

    def flaky(tag, fail_first):
        n = {"k": 0}

        def f():
            n["k"] += 1
            calls.append((tag, n["k"]))
            if n["k"] <= fail_first:
                raise ET(f"{tag} attempt {n['k']}")
            return (tag, n["k"])

        return f

    def outcome(w):
        try:
            return w()
        except ET as e:             # an invocation that should have succeeded within its budget: reported by the obligations below
            return ("raised", str(e))

    a = flaky("a", 2)
    wa = retry(a)
    r1 = outcome(wa)                # fails twice, succeeds on the third attempt
    b = flaky("b", 2)
    r2 = outcome(retry(b))          # another function through the same decorator: again three attempts
    c = flaky("c", 2)
    a2 = flaky("a", 5)
    wa2 = retry(a2)
    try:
        wa2()
        exhausted = None
    except ET as e:
        exhausted = e
    wc = retry(c)
    r3 = outcome(wc)
    ctx.check("every-invocation-gets-its-own-budget-of-attempts(whatever-failed-before-through-the-same-decorator-or-wrapper)",
              bool(r1 == ("a", 3) and r2 == ("b", 3) and r3 == ("c", 3)), info=str(calls))
    ctx.check("an-exhausted-invocation-raises-its-own-last-exception-after-exactly-attempts-tries", bool(exhausted is not None and str(exhausted) == "a attempt 3"), info=str(calls))
    a3 = flaky("z", 0)
    wz = retry(a3)
    ctx.check("a-second-invocation-of-the-same-wrapper-runs-the-function-again(no-result-or-error-is-remembered)", bool(outcome(wz) == ("z", 1) and outcome(wz) == ("z", 2)))
    return "ok"


from .sysprobe import replay_for as _replay_for  # noqa: E402

NATIVE_SCRIPT = """
import sys
from uberjob._util.retry import create_retry
bad = []
names = ["k", "attempts", "exc_type", "f", "fn", "func", "self", "args", "kwargs", "retry", "exception", "wrapper"]
for n in (2, 3):
    for fail_first in (0, 1, n - 1, n):
        seen = []
        def f(*a, **k):
            seen.append((a, dict(k)))
            if len(seen) <= fail_first: raise ValueError("attempt %d" % len(seen))
            return ("ok", len(seen))
        kw = {nm: object() for nm in names}
        try: out = ("ret", create_retry(n)(f)(1, **kw))
        except Exception as e: out = ("raise", type(e).__name__, str(e))
        want = ("ret", ("ok", fail_first + 1)) if fail_first < n else ("raise", "ValueError", "attempt %d" % n)
        if out != want or any(a != (1,) or list(k) != names or any(k[x] is not kw[x] for x in names) for a, k in seen):
            bad.append((n, fail_first, out, want, len(seen)))
for b in bad[:4]: print("create_retry(%d) around a call with keyword arguments named like a helper's parameters, failing %d time(s) first: got %r, expected %r (%d invocations)" % b)
sys.exit(1 if bad else 0)
"""


def _replay_native(ob):
    import os

    from ujvc.units import run_native_p
    from ujvc.z3env import REPO_SRC

    p = run_native_p(["/venv/bin/python", "-c", NATIVE_SCRIPT], env=dict(os.environ, PYTHONPATH=REPO_SRC), timeout=120)
    if p.returncode == 1:
        return {"reproduced": True, "detail": (p.stdout + p.stderr)[-2000:], "script": NATIVE_SCRIPT}
    return _replay_for(['C10', 'C04'], 1500)(ob)


REPLAYS = [("retry.*", _replay_native)]
