"""Frame contract for uberjob/_rendering.render (property C13): render never modifies the Plan / graph it is given.

The caller's graph ITSELF is handed to the real ``render``, watched (its class is swapped for a subclass of its own class, so it stays a
real networkx graph for every reader, nxv included): every mutating method (add_node, add_edge(s_from), remove_node(s_from), remove_edge(s_from), clear, update,
and attribute writes through .nodes[..]) is a failed obligation ``frame:<operation>``; ``copy()`` returns an ordinary
independent copy, which render may change freely.  The check is parametric in the graph (the mutating call sites are
reached for any plan with scoped nodes when ``level`` is given, and for any plan when a predicate is given); it is run on
a few concrete plans x {level None / 0 / 1 / 2} x {predicate or not} x {Plan, bare graph, dry-run pair}.
nxv.render itself is not under contract (it receives the private copy).
"""
from ujvc.units import base_env, get, unit

from .runphys import _catch

REL = "_rendering.py"
MUTATORS = ["add_node", "add_nodes_from", "add_edge", "add_edges_from", "add_weighted_edges_from", "remove_node", "remove_nodes_from",
            "remove_edge", "remove_edges_from", "clear", "clear_edges", "update"]


@unit("frames.render", props=["C13"], functions=[(REL, "render")],
      assumptions=["T5 MultiDiGraph.copy() is independent of the original", "nxv.render only reads the graph it is given"],
      min_obligations=3, kind="concrete-parametric")
def render_frame_unit(ctx):
    import importlib

    from ujvc.z3env import ensure_repo_first

    ensure_repo_first()
    import uberjob

    rendering = importlib.import_module("uberjob._rendering")
    violations = []

    def guard(real_graph):
        """the caller's graph ITSELF, watched: its class is swapped for a subclass of its own class whose mutating methods record the call (a real
        networkx graph in every other respect, so whoever only reads it - nxv included - sees no difference); copies are plain graphs"""
        base = type(real_graph)

        def mk(name):
            def method(self, *a, **k):
                violations.append(name)
                return getattr(base, name)(self, *a, **k)
            return method

        def copy(self, *a, **k):
            self.__class__ = base
            try:
                return self.copy(*a, **k)
            finally:
                self.__class__ = Guarded

        ns = {name: mk(name) for name in MUTATORS if hasattr(base, name)}
        ns["copy"] = copy
        Guarded = type("Guarded" + base.__name__, (base,), ns)
        real_graph.__class__ = Guarded
        return real_graph

    which = ctx.choose(3, "plan")
    plan = uberjob.Plan()
    a = plan.call(lambda: 1)
    if which >= 1:
        with plan.scope("s"):
            b = plan.call(lambda x: x, a)
            with plan.scope("t", 2):
                c = plan.call(lambda x, y: x, b, a)
        d = plan.call(lambda x: x, c)
        plan.add_dependency(a, d)
    if which == 2:
        with plan.scope("u"):
            plan.lit(5)
    level = [None, 0, 1, 2][ctx.choose(4, "level")]
    class FalsySelection(frozenset):
        """a predicate that is a callable OBJECT and falsy (an empty 'nodes to hide' selection): ``if predicate:`` is not ``if predicate is not None:``"""

        def __call__(self, u, d):
            return type(u).__name__ == "Call" and u not in self

    pk = ctx.choose(3, "predicate")
    pred = None if pk == 0 else (lambda u, d: type(u).__name__ == "Call") if pk == 1 else FalsySelection()
    form = ctx.choose(3, "argument-form")
    real_graph = plan.graph
    snap = (list(real_graph.nodes(data=True)), [(id(u), id(v), repr(k)) for u, v, k in real_graph.edges(keys=True)], [(id(n), n.scope) for n in real_graph.nodes()])
    guarded = guard(real_graph)
    arg = plan if form == 0 else guarded if form == 1 else (plan, a)
    env = base_env(REL, keep=("Plan", "Graph", "Node", "Scope", "default_style", "Registry", "Dependency", "Call", "Literal"))
    env["validation"] = importlib.import_module("uberjob._util.validation")
    f = get(REL, "render", native_loops="all", cut_comps=False).compile_into(env)
    kind, val = _catch(ctx, lambda: f(arg, level=level, predicate=pred, format="svg"))
    ctx.check("render-succeeds-on-this-plan", bool(kind == "ret"), info=repr(val)[:300])
    ctx.check("frame:the-caller's-graph-is-never-mutated(only-its-copy-is)", bool(not violations), info=f"mutating operations on the caller's graph: {violations}")
    snap2 = (list(real_graph.nodes(data=True)), [(id(u), id(v), repr(k)) for u, v, k in real_graph.edges(keys=True)],
             [(id(n), getattr(n, "scope", "<a node render added>")) for n in real_graph.nodes()])
    ctx.check("frame:nodes,edges,scopes-identical-afterwards", bool(snap == snap2))
    return "ok"


RENDER_SCRIPT = """
import sys, uberjob
def snap(plan):
    g = plan.graph
    return ([(id(n), type(n).__name__, n.scope) for n in g.nodes()], sorted((id(u), id(v), repr(k)) for u, v, k in g.edges(keys=True)))
bad = []
for level in (None, 0, 1, 2):
    class FalsySelection(frozenset):           # a falsy callable object as predicate
        def __call__(self, u, d): return type(u).__name__ == "Call"
    for pred in (None, lambda u, d: type(u).__name__ == "Call", FalsySelection()):
        plan = uberjob.Plan()
        a = plan.call(lambda: 1)
        with plan.scope("s"):
            b = plan.call(lambda x: x, a)
            with plan.scope("t", 2):
                c = plan.call(lambda x, y: x, b, a)
        d = plan.call(lambda x: x, c)
        s0 = snap(plan)
        try: uberjob.render(plan, level=level, predicate=pred, format="svg")
        except Exception as e: bad.append(("render raised", level, repr(e)))
        if snap(plan) != s0: bad.append(("render modified the caller's plan", level, pred is not None))
        try:
            if uberjob.run(plan, output=d, progress=None) != 1: bad.append(("plan no longer runs to the same result", level))
        except Exception as e: bad.append(("plan no longer runs", level, repr(e)))
for b in bad[:5]: print("C13 violated:", b)
sys.exit(1 if bad else 0)
"""


def _replay(ob):
    import os
    import subprocess

    from ujvc.z3env import REPO_SRC

    p = __import__('ujvc.units', fromlist=['run_native_p']).run_native_p(["/venv/bin/python", "-c", RENDER_SCRIPT], env=dict(os.environ, PYTHONPATH=REPO_SRC), timeout=300)
    return {"reproduced": p.returncode == 1, "detail": (p.stdout + p.stderr)[-2000:], "script": RENDER_SCRIPT}


REPLAYS = [("frames.*", _replay)]
