"""Frame contract for uberjob/_rendering.render (property C13): render never modifies the Plan / graph it is given.

The caller's graph is handed to the real ``render`` as a READ-ONLY proxy around a real MultiDiGraph: every query is
delegated, every mutating method (add_node, add_edge(s_from), remove_node(s_from), remove_edge(s_from), clear, update,
and attribute writes through .nodes[..]) is a failed obligation ``frame:<operation>``; ``copy()`` returns an ordinary
independent copy, which render may change freely.  The check is parametric in the graph (the mutating call sites are
reached for any plan with scoped nodes when ``level`` is given, and for any plan when a predicate is given); it is run on
a few concrete plans x {level None / 0 / 1 / 2} x {predicate or not} x {Plan, bare graph, dry-run pair}.
nxv.render itself is not under contract (it receives the private copy).
"""
from ujvc.units import base_env, get, unit

from .runphys import _catch

REL = "_rendering.py"
MUTATORS = ["add_node", "add_nodes_from", "add_edge", "add_edges_from", "add_weighted_edges_from", "remove_node", "remove_nodes_from",
            "remove_edge", "remove_edges_from", "clear", "clear_edges", "update"]


@unit("frames.render", props=["C13"], functions=[(REL, "render")],
      assumptions=["T5 MultiDiGraph.copy() is independent of the original", "nxv.render only reads the graph it is given"],
      min_obligations=3, kind="concrete-parametric")
def render_frame_unit(ctx):
    import importlib

    from ujvc.z3env import ensure_repo_first

    ensure_repo_first()
    import uberjob

    rendering = importlib.import_module("uberjob._rendering")
    violations = []

    class Frozen:
        """read-only view of the caller's graph"""

        def __init__(self, g):
            object.__setattr__(self, "_g", g)

        def __getattr__(self, name):
            if name in MUTATORS:
                def bad(*a, **k):
                    violations.append(name)
                    return getattr(self._g.copy(), name)(*a, **k)
                return bad
            return getattr(self._g, name)

        def __setattr__(self, k, v):
            violations.append("setattr:" + k)

        def __iter__(self):
            return iter(self._g)

        def __len__(self):
            return len(self._g)

        def __contains__(self, n):
            return n in self._g

        def __getitem__(self, n):
            return self._g[n]

        def copy(self, *a, **k):
            return self._g.copy(*a, **k)

    which = ctx.choose(3, "plan")
    plan = uberjob.Plan()
    a = plan.call(lambda: 1)
    if which >= 1:
        with plan.scope("s"):
            b = plan.call(lambda x: x, a)
            with plan.scope("t", 2):
                c = plan.call(lambda x, y: x, b, a)
        d = plan.call(lambda x: x, c)
        plan.add_dependency(a, d)
    if which == 2:
        with plan.scope("u"):
            plan.lit(5)
    level = [None, 0, 1, 2][ctx.choose(4, "level")]
    pred = (lambda u, d: type(u).__name__ == "Call") if ctx.choose(2, "predicate") == 1 else None
    form = ctx.choose(3, "argument-form")
    real_graph = plan.graph
    snap = (list(real_graph.nodes(data=True)), [(id(u), id(v), repr(k)) for u, v, k in real_graph.edges(keys=True)], [(id(n), n.scope) for n in real_graph.nodes()])
    frozen = Frozen(real_graph)
    plan.graph = frozen
    arg = plan if form == 0 else frozen if form == 1 else (plan, a)
    env = base_env(REL, keep=("Plan", "Graph", "Node", "Scope", "default_style", "Registry", "Dependency", "Call", "Literal"))
    env["validation"] = importlib.import_module("uberjob._util.validation")
    if form == 1:
        env["Graph"] = (env.get("Graph"), Frozen)  # isinstance(plan, (Plan, Graph)) must accept the read-only view of a bare graph
    f = get(REL, "render", native_loops="all", cut_comps=False).compile_into(env)
    if form == 1:
        # validation.assert_is_instance(plan, "plan", (Plan, Graph)) builds the tuple itself
        env["Graph"] = type("GraphOrFrozen", (), {"__instancecheck__": None})
        import networkx as nx

        class _Meta(type):
            def __instancecheck__(cls, inst):
                return isinstance(inst, (nx.MultiDiGraph, Frozen))

        env["Graph"] = _Meta("Graph", (), {})
    kind, val = _catch(ctx, lambda: f(arg, level=level, predicate=pred, format="svg"))
    ctx.check("render-succeeds-on-this-plan", bool(kind == "ret"), info=repr(val)[:300])
    ctx.check("frame:the-caller's-graph-is-never-mutated(only-its-copy-is)", bool(not violations), info=f"mutating operations on the caller's graph: {violations}")
    snap2 = (list(real_graph.nodes(data=True)), [(id(u), id(v), repr(k)) for u, v, k in real_graph.edges(keys=True)], [(id(n), n.scope) for n in real_graph.nodes()])
    ctx.check("frame:nodes,edges,scopes-identical-afterwards", bool(snap == snap2))
    return "ok"


RENDER_SCRIPT = """
import sys, uberjob
def snap(plan):
    g = plan.graph
    return ([(id(n), type(n).__name__, n.scope) for n in g.nodes()], sorted((id(u), id(v), repr(k)) for u, v, k in g.edges(keys=True)))
bad = []
for level in (None, 0, 1, 2):
    for pred in (None, lambda u, d: type(u).__name__ == "Call"):
        plan = uberjob.Plan()
        a = plan.call(lambda: 1)
        with plan.scope("s"):
            b = plan.call(lambda x: x, a)
            with plan.scope("t", 2):
                c = plan.call(lambda x, y: x, b, a)
        d = plan.call(lambda x: x, c)
        s0 = snap(plan)
        try: uberjob.render(plan, level=level, predicate=pred, format="svg")
        except Exception as e: bad.append(("render raised", level, repr(e)))
        if snap(plan) != s0: bad.append(("render modified the caller's plan", level, pred is not None))
        try:
            if uberjob.run(plan, output=d, progress=None) != 1: bad.append(("plan no longer runs to the same result", level))
        except Exception as e: bad.append(("plan no longer runs", level, repr(e)))
for b in bad[:5]: print("C13 violated:", b)
sys.exit(1 if bad else 0)
"""


def _replay(ob):
    import os
    import subprocess

    from ujvc.z3env import REPO_SRC

    p = __import__('ujvc.units', fromlist=['run_native_p']).run_native_p(["/venv/bin/python", "-c", RENDER_SCRIPT], env=dict(os.environ, PYTHONPATH=REPO_SRC), timeout=300)
    return {"reproduced": p.returncode == 1, "detail": (p.stdout + p.stderr)[-2000:], "script": RENDER_SCRIPT}


REPLAYS = [("frames.*", _replay)]
