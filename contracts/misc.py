"""Small functions that the larger contracts assume through stubs; each is short and loop-free, so its unit is a complete case analysis.

   get_mutable_plan(plan, inplace)     C13: the plan itself iff inplace, otherwise plan.copy() (whose independence is plumbing.copies)
   Plan.add_dependency(source, target) C01: validates both nodes, adds exactly the edge (source, target, Dependency()) - nothing else
   get_full_call_scope / fully_qualified_name   C15: scope of a call = (*user scope, qualified name of the function)
   _coerce_progress                    C15 / C20: which observer factory a ``progress`` argument selects
   PathSource / LiteralSource / ModifiedTimeSource   C05 / C12 / C18: sources return what they are documented to, never write
   SimpleProgressObserver.increment_* / __enter__    C20: every notification updates the state and sets ``_stale`` while holding ``_lock``
                                                     (the assumption of progress.final-render); __enter__ starts exactly the update thread
"""
import importlib

from ujvc.core import Unsupported
from ujvc.units import base_env, get, unit, user_value
from ujvc.z3env import ensure_repo_first, z3

from . import mgraph as M
from .gstate import Node, member
from .rewrite import real_classes
from .runphys import _catch

SP = "progress/_simple_progress_observer.py"


@unit("misc.get_mutable_plan", props=["C13"], functions=[("_transformations/__init__.py", "get_mutable_plan")], min_obligations=2, kind="concrete-parametric")
def get_mutable_plan_unit(ctx):
    log = []

    class P:
        def copy(self):
            log.append("copy")
            return P()

    f = get("_transformations/__init__.py", "get_mutable_plan", native_loops="all").compile_into({})
    p = P()
    r = f(p, inplace=False)
    ctx.check("inplace=False:returns-plan.copy()(one-copy),never-the-plan-itself", bool(r is not p and isinstance(r, P) and log == ["copy"]))
    del log[:]
    r = f(p, inplace=True)
    ctx.check("inplace=True:returns-the-very-plan,no-copy", bool(r is p and log == []))
    return "ok"


@unit("misc.Plan.add_dependency", props=["C01", "C09"], functions=[("_plan.py", "Plan.add_dependency")],
      assumptions=["T5 MultiDiGraph.has_node / add_edge (contracts/mgraph.py)"], min_obligations=4)
def add_dependency_unit(ctx):
    cls = real_classes()
    objs = M.Objects(ctx, cls)
    for a in M.key_axioms():
        ctx.assume(a)
    g = M.MGraph(ctx, objs, tag="plan.graph")
    N0, E0 = g.N, g.E
    s_obj = objs.new_node("Call", "source", fn=None, scope=(), stack_frame=None)
    t_obj = objs.new_node("Literal", "target", value=1, scope=())
    log = []

    class _validation:
        @staticmethod
        def assert_is_instance(v, name, t, optional=False):
            log.append((name, v, t))

    class PlanSelf:
        graph = g

    env = {"validation": _validation, "Node": cls["Node"], "Dependency": cls["Dependency"]}
    f = get("_plan.py", "Plan.add_dependency", native_loops="all").compile_into(env)
    kind, val = _catch(ctx, lambda: f(PlanSelf(), s_obj, t_obj))
    st, tt = objs.nt(s_obj), objs.nt(t_obj)
    ctx.check("both-arguments-validated-as-Nodes", bool([(n, v) for n, v, t in log] == [("source", s_obj), ("target", t_obj)] and all(t is cls["Node"] for _, _, t in log)))
    both = z3.And(member(N0, st), member(N0, tt))
    if kind == "raise":
        ctx.check("raises-KeyError-only-when-a-node-is-not-in-the-plan;graph-untouched", z3.And(z3.Not(both), g.E == E0, g.N == N0) if isinstance(val, KeyError) else False)
        return "raise"
    ctx.check("returns-only-when-both-nodes-are-in-the-plan", both)
    a, b, k = z3.Const("a!ad", Node), z3.Const("b!ad", Node), z3.Const("k!ad", M.Key)
    ctx.check("post:E'==E+{(source,target,Dependency)};N'==N", z3.And(
        z3.ForAll([a, b, k], M.esel(g.E, a, b, k) == z3.Or(M.esel(E0, a, b, k), z3.And(a == st, b == tt, k == M.DEP))),
        z3.ForAll([a], member(g.N, a) == member(N0, a))))
    return "ok"


@unit("misc.call-scope", props=["C15"], functions=[("_graph.py", "get_full_call_scope"), ("_util/__init__.py", "fully_qualified_name")],
      min_obligations=4, kind="concrete-parametric")
def call_scope_unit(ctx):
    fq = get("_util/__init__.py", "fully_qualified_name", native_loops="all").compile_into({})
    env = {"fully_qualified_name": fq}
    gfs = get("_graph.py", "get_full_call_scope", native_loops="all").compile_into(env)

    class C:
        def __init__(self, fn, scope):
            self.fn, self.scope = fn, scope

    def local_fn():
        pass

    class Callable_:
        def __call__(self):
            pass

    import operator

    U1, U2 = object(), ("x", 1)
    ctx.check("scope-of-a-call==(*user-scope,qualified-name-of-its-function)", bool(gfs(C(local_fn, (U1, U2))) == (U1, U2, fq(local_fn)) and gfs(C(local_fn, ())) == (fq(local_fn),)))
    ctx.check("qualified-name:module.qualname-for-ordinary-functions", bool(fq(importlib.import_module) == "importlib.import_module"))
    ctx.check("qualified-name:builtins/operator/__main__-functions-without-module-prefix", bool(fq(len) == "len" and fq(operator.getitem) == "getitem"))
    ctx.check("qualified-name:callable-instances-named-by-their-class;never-raises-for-a-callable", bool(fq(Callable_()).endswith("Callable_") and isinstance(fq(lambda: 0), str)))
    return "ok"


@unit("misc._coerce_progress", props=["C15", "C20"], functions=[("_run.py", "_coerce_progress")], min_obligations=5, kind="concrete-parametric")
def coerce_progress_unit(ctx):
    class Progress:
        pass

    NULL, DEFAULT = Progress(), Progress()
    made = []

    def composite_progress(*ps):
        made.append(ps)
        return ("composite", ps)

    env = {"null_progress": NULL, "default_progress": DEFAULT, "composite_progress": composite_progress, "Progress": Progress}
    f = get("_run.py", "_coerce_progress", native_loops="all").compile_into(env)
    p1, p2 = Progress(), Progress()
    ctx.check("None/False/empty=>no-observer(null_progress)", bool(f(None) is NULL and f(False) is NULL and f(()) is NULL))
    ctx.check("True=>the-default-display", bool(f(True) is DEFAULT))
    ctx.check("a-Progress=>itself", bool(f(p1) is p1))
    ctx.check("an-iterable-of-Progress=>composite-of-exactly-those-in-order", bool(f([p1, p2]) == ("composite", (p1, p2)) and f((p2,)) == ("composite", (p2,))))
    ctx.check("a-one-shot-iterable(generator,iterator)-of-Progress=>composite-of-exactly-those-in-order(it-is-consumed-once)",
              bool(f(iter([p1, p2])) == ("composite", (p1, p2)) and f(p for p in [p2, p1]) == ("composite", (p2, p1))))
    kind, val = _catch(ctx, lambda: f(object()))
    ctx.check("anything-else=>TypeError", bool(kind == "raise" and isinstance(val, TypeError)))
    return "ok"


@unit("misc.sources", props=["C05", "C12", "C18", "C13"],
      functions=[("stores/_path_source.py", "PathSource.__init__"), ("stores/_literal_source.py", "LiteralSource.__init__"), ("stores/_modified_time_source.py", "ModifiedTimeSource.__init__"),
                 ("stores/_path_source.py", "PathSource.read"), ("stores/_path_source.py", "PathSource.write"), ("stores/_path_source.py", "PathSource.get_modified_time"),
                 ("stores/_path_source.py", "PathSource._get_modified_time"), ("stores/_literal_source.py", "LiteralSource.read"), ("stores/_literal_source.py", "LiteralSource.write"),
                 ("stores/_literal_source.py", "LiteralSource.get_modified_time"), ("stores/_modified_time_source.py", "ModifiedTimeSource.read"),
                 ("stores/_modified_time_source.py", "ModifiedTimeSource.write"), ("stores/_modified_time_source.py", "ModifiedTimeSource.get_modified_time")],
      assumptions=["the module-level get_modified_time of _file_store is under contract in stores.get_modified_time"], min_obligations=8, kind="concrete-parametric")
def sources_unit(ctx):
    from ujvc.units import real_method_fallback

    import datetime as _dtm
    import types as _types

    TS, TS2 = 1700000000.5, 1800000000.25
    MT = _dtm.datetime.fromtimestamp(TS)
    exists = ctx.choose(2, "file-exists") == 0
    required = ctx.choose(2, "required") == 0
    calls = []
    now_ts = {"v": TS}

    def get_modified_time(path):
        calls.append(path)
        return MT if exists else None

    # the file system as the class may consult it directly (a refactoring may inline the module-level helper): the path exists with modification time
    # TS, or it does not exist (ENOENT - the one kind of 'nothing stored' the properties speak about; other errors are not specified here)
    def _stat_ts(path):
        calls.append(path)
        if not exists:
            raise FileNotFoundError(2, "No such file or directory", str(path))
        return now_ts["v"]

    ghost_os = _types.SimpleNamespace(
        path=_types.SimpleNamespace(getmtime=_stat_ts, exists=lambda p: exists, isfile=lambda p: exists),
        stat=lambda p: _types.SimpleNamespace(st_mtime=_stat_ts(p), st_mtime_ns=int(_stat_ts(p) * 1e9)), fspath=lambda p: p if isinstance(p, (str, bytes)) else p.__fspath__())
    # PathSource
    rel = "stores/_path_source.py"
    env = {"get_modified_time": get_modified_time, "os": ghost_os, "dt": _dtm, "OSError": OSError, "FileNotFoundError": FileNotFoundError}

    class PS:
        pass

    for m in ("read", "write", "get_modified_time"):       # private helper methods (whatever they are called) come in through the method fallback
        setattr(PS, m, get(rel, f"PathSource.{m}", native_loops="all").compile_into(env))
    env["get_modified_time"] = get_modified_time     # the method of the same name shadowed the module-level function: re-bind
    PS.__getattr__ = real_method_fallback(rel, "PathSource", env)
    s = PS()
    s.path, s.required = "/d/p", required
    kind, val = _catch(ctx, s.get_modified_time)
    if exists:
        ctx.check("PathSource.get_modified_time:the-file's-modified-time-when-it-exists", bool(kind == "ret" and val == MT and bool(calls) and set(calls) == {"/d/p"}))
    elif required:
        ctx.check("PathSource.get_modified_time:required-and-missing=>OSError", bool(kind == "raise" and isinstance(val, OSError)))
    else:
        ctx.check("PathSource.get_modified_time:optional-and-missing=>None", bool(kind == "ret" and val is None))
    kind, val = _catch(ctx, s.read)
    ctx.check("PathSource.read:returns-the-path-itself-iff-the-file-exists-or-the-source-is-required(else-OSError)",
              bool((kind == "ret" and val == "/d/p") if (exists or required) else (kind == "raise" and isinstance(val, OSError))))
    kind, val = _catch(ctx, lambda: s.write(1))
    ctx.check("PathSource.write:not-supported", bool(kind == "raise" and isinstance(val, NotImplementedError)))
    # the file is replaced between two runs that use the same registry (the same PathSource object): every query asks the file system again
    before = dict(vars(s))
    MT2 = _dtm.datetime.fromtimestamp(TS2)
    del calls[:]
    now_ts["v"] = TS2

    def get_modified_time2(path):
        calls.append(path)
        return MT2 if exists else None

    env["get_modified_time"] = get_modified_time2
    kind, val = _catch(ctx, s.get_modified_time)
    if exists:
        ctx.check("PathSource.get_modified_time:asks-the-file-system-on-every-call(a-replaced-file-shows-its-new-time)", bool(kind == "ret" and val == MT2 and bool(calls)), props=["C05"])
    ctx.check("PathSource:queries-leave-the-source-object-as-it-was(C13:the-registry's-entries-are-not-modified)",
              bool(set(vars(s)) == set(before) and all(vars(s)[k] is before[k] for k in before)), props=["C13", "C05"], info=str(sorted(set(vars(s)) ^ set(before))))
    # construction through the real __init__: the path object and the flag are kept as given (str and pathlib alike)
    import pathlib as _pl

    for path_given in ("/d/q.txt", _pl.PurePosixPath("/d/q.txt")):
        class PS2:
            pass

        PS2.__init__ = get(rel, "PathSource.__init__", native_loops="all").compile_into(dict(env))
        kind, o2 = _catch(ctx, lambda: PS2(path_given, required=required))
        ctx.check("PathSource.__init__:keeps-the-very-path-and-the-flag", bool(kind == "ret" and getattr(o2, "path", None) is path_given and getattr(o2, "required", None) is required))
    # LiteralSource / ModifiedTimeSource
    for rel, cname, fields in (("stores/_literal_source.py", "LiteralSource", ("value", "modified_time")), ("stores/_modified_time_source.py", "ModifiedTimeSource", ("modified_time",))):
        class S:
            pass

        for m in ("read", "write", "get_modified_time"):
            setattr(S, m, get(rel, f"{cname}.{m}", native_loops="all").compile_into({}))
        o = S()
        import datetime as _dt0

        # the time is a real aware datetime (code that looks at tzinfo / utcoffset must find one), the value an opaque object
        V, T = object(), _dt0.datetime(2021, 6, 1, 12, 0, tzinfo=_dt0.timezone(_dt0.timedelta(hours=-7)))
        if "value" in fields:
            o.value = V
        o.modified_time = T
        ctx.check(f"{cname}.get_modified_time:the-time-it-was-given", bool(o.get_modified_time() is T))
        r = o.read()
        ctx.check(f"{cname}.read:{'the-value-it-was-given' if 'value' in fields else 'the-modified-time'}", bool(r is (V if "value" in fields else T)))
        kind, val = _catch(ctx, lambda: o.write(1))
        ctx.check(f"{cname}.write:not-supported", bool(kind == "raise" and isinstance(val, NotImplementedError)))
        # through the real constructor, with every form of time a user may give: aware (a zone that is neither UTC nor, in general, the local one),
        # naive, None.  The source hands out the VERY object it was given - its instant and its naive / aware form are the user's (C18: the stale
        # check normalises; a second normalisation here would shift the instant by the local offset) - and queries never change the source (C13)
        import datetime as _dt

        S.__init__ = get(rel, f"{cname}.__init__", native_loops="all").compile_into({"dt": _dt, "isinstance": isinstance, "TypeError": TypeError})
        aware = _dt.datetime(2024, 3, 10, 1, 30, tzinfo=_dt.timezone(_dt.timedelta(hours=5, minutes=30)))
        for t_given in (aware, _dt.datetime(2024, 11, 3, 1, 30, fold=1), None):
            kind, o = _catch(ctx, (lambda: S(V, t_given)) if "value" in fields else (lambda: S(t_given)))
            if kind != "ret":
                ctx.check(f"{cname}.__init__:accepts-aware-naive-and-None", False, info=repr(o))
                continue
            snap = {k_: getattr(o, k_) for k_ in fields}
            got = [o.get_modified_time(), o.read(), o.get_modified_time(), o.read()]
            want_read = V if "value" in fields else t_given
            ctx.check(f"{cname}:constructed-source-hands-out-the-very-time-it-was-given(aware/naive/None;every-call)",
                      bool(got[0] is t_given and got[2] is t_given and got[1] is want_read and got[3] is want_read), props=["C05", "C18", "C12"], info=repr(got))
            ctx.check(f"{cname}:queries-leave-the-source-object-as-it-was(C13)", bool(all(getattr(o, k_) is snap[k_] for k_ in fields) and set(vars(o)) <= set(fields)),
                      props=["C13", "C05"], info=repr(vars(o)))
    return "ok"


@unit("misc.progress-notifications", props=["C20", "C15"],
      functions=[(SP, "SimpleProgressObserver.increment_total"), (SP, "SimpleProgressObserver.increment_running"), (SP, "SimpleProgressObserver.increment_completed"),
                 (SP, "SimpleProgressObserver.increment_failed"), (SP, "SimpleProgressObserver.__enter__"), (SP, "SimpleProgressObserver.__exit__")],
      assumptions=["T4 threading.Lock is a mutex; Thread(target).start() runs the target once"], min_obligations=6, kind="concrete-parametric")
def notifications_unit(ctx):
    """the rely of progress.final-render: every notification sets _stale and updates the state while holding _lock (and only then);
    increment_failed records the exception (up to the cap); __enter__ starts exactly the update thread; __exit__ sets the event then joins"""
    log = []
    held = {"n": 0}

    class Lock:
        def __enter__(self):
            held["n"] += 1
            log.append("acquire")

        def __exit__(self, *a):
            held["n"] -= 1
            log.append("release")
            return False

    class StateStub:
        def __getattr__(self, name):
            def m(*a):
                log.append(("state." + name, a, held["n"]))

            return m

    class Self:
        def __init__(self):
            object.__setattr__(self, "_d", {})

        def __setattr__(self, k, v):
            if k == "_stale":
                log.append(("_stale=", v, held["n"]))
            self._d[k] = v

        def __getattr__(self, k):
            try:
                return object.__getattribute__(self, "_d")[k]
            except KeyError:
                raise AttributeError(k) from None

    which = ctx.choose(6, "method")
    s = Self()
    s._lock, s._state = Lock(), StateStub()
    s._exception_tuples, s._max_exception_count = [], 2
    # the configuration a constructed observer carries (read by any method that wants it)
    s._initial_update_delay, s._min_update_interval, s._max_update_interval = 0.5, 0.25, 5.0
    env = base_env(SP)
    S, A = ("a", 1), 3
    if which < 4:
        name = ("increment_total", "increment_running", "increment_completed", "increment_failed")[which]
        f = get(SP, f"SimpleProgressObserver.{name}", native_loops="all").compile_into(env)
        try:
            raise ValueError("boom")
        except ValueError as e:
            EXC = e
        kw = {"section": "run", "scope": S}
        if which == 0:
            kw["amount"] = A
        if which == 3:
            kw["exception"] = EXC
        for rep in range(3 if which == 3 else 1):
            f(s, **kw)
        stale_sets = [e for e in log if e[0] == "_stale="]
        state_calls = [e for e in log if isinstance(e, tuple) and str(e[0]).startswith("state.")]
        ctx.check(f"{name}:sets-_stale=True-while-holding-_lock", bool(stale_sets and all(v is True and h == 1 for _, v, h in stale_sets)))
        want_args = ("run", S, A) if which == 0 else ("run", S)
        ctx.check(f"{name}:forwards-to-the-state's-{name}(section,scope{',amount' if which == 0 else ''})-once,while-holding-_lock",
                  bool(len(state_calls) == (3 if which == 3 else 1) and all(c[0] == "state." + name and c[1] == want_args and c[2] == 1 for c in state_calls)))
        ctx.check(f"{name}:lock-released-on-return", bool(held["n"] == 0 and log.count("acquire") == log.count("release")))
        if which == 3:
            ets = s._exception_tuples
            ctx.check("increment_failed:records-(scope,(type,exception,traceback))-up-to-the-cap",
                      bool(len(ets) == 2 and all(t[0] == S and t[1][0] is ValueError and t[1][1] is EXC and t[1][2] is EXC.__traceback__ for t in ets)))
        return name
    created = []

    class Thread:
        def __init__(self, group=None, target=None, name=None, args=(), kwargs=None, *, daemon=None):
            self.target, self.args, self.started, self.joined = target, args, 0, 0
            created.append(self)

        def start(self):
            self.started += 1
            log.append("thread.start")

        def join(self, *a, **k):
            self.joined += 1
            self.join_args = getattr(self, "join_args", []) + [(a, k)]
            log.append("thread.join")

    class _threading:
        pass

    _threading.Thread = Thread
    env["threading"] = _threading
    s._run_update_thread = "RUN_UPDATE_THREAD"
    if which == 4:
        f = get(SP, "SimpleProgressObserver.__enter__", native_loops="all").compile_into(env)
        f(s)
        ctx.check("__enter__:starts-exactly-one-thread-whose-target-is-the-update-loop", bool(len(created) == 1 and created[0].target == "RUN_UPDATE_THREAD" and created[0].started == 1 and s._thread is created[0]))
        return "enter"

    class Event:
        def set(self):
            log.append("event.set")

    s._done_event = Event()
    t = Thread(target="x")
    s._thread = t
    f = get(SP, "SimpleProgressObserver.__exit__", native_loops="all").compile_into(env)
    f(s, None, None, None)
    ctx.check("__exit__:sets-the-done-event-THEN-joins-the-update-thread(so-the-final-rendering-happens-before-run-returns)",
              bool([e for e in log if e in ("event.set", "thread.join")] == ["event.set", "thread.join"] and t.joined == 1))
    ja = getattr(t, "join_args", [])
    ctx.check("__exit__:the-join-has-no-time-limit(a-final-rendering-slower-than-any-interval-is-still-waited-for)",
              bool(len(ja) == 1 and all(x is None for x in ja[0][0]) and all(v is None for v in ja[0][1].values())), info=str(ja))
    return "exit"


@unit("misc.progress-factories", props=["C20", "C15"],
      functions=[("progress/__init__.py", "composite_progress"), ("progress/__init__.py", "html_progress"), ("progress/_progress.py", "Progress.observer"), ("progress/_progress.py", "Progress.__init__")],
      assumptions=["the bundled observers are single-use (their done event stays set, their state keeps the counts of the run they observed)"], min_obligations=4, kind="concrete-parametric")
def progress_factories_unit(ctx):
    """every run gets FRESH single-use observers: Progress.observer() calls its factory each time; a composite creates a new composite from new member
    observers on every observer() call (never observers created once and reused); html_progress binds the output and the three intervals"""
    import functools

    pr_env = {}
    P_init = get("progress/_progress.py", "Progress.__init__", native_loops="all").compile_into(pr_env)
    P_obs = get("progress/_progress.py", "Progress.observer", native_loops="all").compile_into(pr_env)

    class Progress:
        __init__ = P_init
        observer = P_obs

    made = []

    class Member(Progress):
        def __init__(self, tag):
            self.tag = tag
            Progress.__init__(self, self._mk)

        def _mk(self):
            o = ("observer-of", self.tag, len(made))
            made.append(o)
            return o

    class CompositeProgressObserver:
        def __init__(self, members):
            self.members = list(members)

    class HtmlProgressObserver:
        def __init__(self, output, **kw):
            self.output, self.kw = output, kw

    env = {"Progress": Progress, "CompositeProgressObserver": CompositeProgressObserver, "HtmlProgressObserver": HtmlProgressObserver, "partial": functools.partial}
    cp = get("progress/__init__.py", "composite_progress", cut_comps=False, native_loops="all").compile_into(env)
    a, b = Member("a"), Member("b")
    comp = cp(a, b)
    ctx.check("composite_progress:creates-no-observer-before-a-run-asks-for-one", bool(made == [] and isinstance(comp, Progress)))
    o1 = comp.observer()
    o2 = comp.observer()
    ok = (isinstance(o1, CompositeProgressObserver) and isinstance(o2, CompositeProgressObserver) and o1 is not o2
          and [m[1] for m in o1.members] == ["a", "b"] and [m[1] for m in o2.members] == ["a", "b"]
          and len(made) == 4 and not (set(map(id, o1.members)) & set(map(id, o2.members))))
    ctx.check("composite_progress:every-observer()-call-builds-a-new-composite-from-NEW-member-observers-in-order(single-use-displays-are-never-reused-across-runs)", bool(ok), info=str(made))
    hp = get("progress/__init__.py", "html_progress", native_loops="all").compile_into(env)
    OUT = user_value("output")
    h = hp(OUT)
    h1, h2 = h.observer(), h.observer()
    ctx.check("html_progress:a-fresh-HtmlProgressObserver(output,...intervals)-per-run", bool(isinstance(h1, HtmlProgressObserver) and h1 is not h2 and h1.output is OUT and h2.output is OUT
                                                                                         and set(h1.kw) == {"initial_update_delay", "min_update_interval", "max_update_interval"}))
    calls = []
    p = Progress(lambda: calls.append(1) or ("fresh", len(calls)))
    ctx.check("Progress.observer:calls-the-factory-on-every-call", bool(p.observer() == ("fresh", 1) and p.observer() == ("fresh", 2)))
    return "ok"


@unit("misc.fully_qualified_name", props=["C15", "C19"], functions=[("_util/__init__.py", "fully_qualified_name")],
      assumptions=["id(x) is unique only among objects alive at the same time: a later object may get the id of a dead one (CPython reuses addresses) - modelled by an id() that "
                   "answers the same number for objects whose lifetimes do not overlap", "functools.lru_cache (dropped by the extraction) keeps its keys alive and compares them by "
                   "equality / hash, so it cannot confuse two live callables that are not equal"],
      min_obligations=4, kind="concrete-parametric")
def fqn_unit(ctx):
    """The name under which a callable is reported (progress scopes 'user scope plus function name', C15; stale scopes; error texts) depends on the callable
    GIVEN and on nothing else: not on which callables were named before, not on an address that an earlier, dead callable happened to have."""
    from ujvc.units import base_env

    rel = "_util/__init__.py"

    def fresh():
        env = base_env(rel)
        for k_, v_ in list(env.items()):            # module-level caches start empty in every environment (the sidecar compares with a fresh start)
            if isinstance(v_, (dict, list, set)):
                env[k_] = type(v_)()
        env["id"] = lambda o: 0x7f00deadbeef        # lifetimes below never overlap
        return get(rel, "fully_qualified_name").compile_into(env)

    def mk(kind, name):
        if kind == "function":
            def g():
                pass
            g.__qualname__, g.__name__, g.__module__ = name, name.rsplit(".", 1)[-1], "pkg.mod"
            return g
        if kind == "bound-method":
            cls = type(name.split(".")[0], (), {"__module__": "pkg.mod"})

            def meth(self):
                pass
            meth.__qualname__ = name
            setattr(cls, name.rsplit(".", 1)[-1], meth)
            return getattr(cls(), name.rsplit(".", 1)[-1])
        cls = type(name, (), {"__module__": "pkg.mod", "__call__": lambda self: None})      # a callable object: named after its class
        return cls()

    kind = ("function", "bound-method", "callable-object")[ctx.choose(3, "callable-kind")]
    f = fresh()
    seen = []
    for name in ("Pipeline.extract", "Pipeline.transform", "Pipeline.load"):
        obj = mk(kind, name)
        got = f(obj)
        alone = fresh()(obj)                    # the same function text, started afresh, asked about this one callable only
        seen.append((name, got, alone))
        del obj                                  # dead before the next one is created: the next may get its id
    ctx.check("name-depends-only-on-the-callable-given(not-on-what-was-named-before,not-on-a-reused-id)", bool(all(g_ == a_ for _, g_, a_ in seen)), info=repr(seen))
    ctx.check("different-callables-of-one-kind-get-their-own-names", bool(len({g_ for _, g_, _ in seen}) == 3), info=repr(seen))
    ctx.check("the-name-ends-with-the-callable's-own-qualified-name", bool(all(isinstance(g_, str) and g_.endswith(n_) for n_, g_, _ in seen)), info=repr(seen))
    again = mk(kind, "Pipeline.extract")
    ctx.check("asking-twice-about-one-live-callable-gives-the-same-name", bool(f(again) == f(again)))
    return "ok"


# ---------------------------------------------------------------------------------------
# native replay for the source stores: the real classes on real files / real datetimes
# ---------------------------------------------------------------------------------------
SOURCES_SCRIPT = '''
import datetime as dt, os, sys, tempfile, time, pathlib
from uberjob.stores import PathSource, LiteralSource, ModifiedTimeSource
bad = []
aware = dt.datetime(2024, 3, 10, 1, 30, tzinfo=dt.timezone(dt.timedelta(hours=5, minutes=30)))
for tz in ("UTC", "EST5", "JST-9"):
    os.environ["TZ"] = tz; time.tzset()
    for t in (aware, dt.datetime(2024, 11, 3, 1, 30, fold=1), None):
        for mk, name in ((lambda: ModifiedTimeSource(t), "ModifiedTimeSource"), (lambda: LiteralSource("v", t), "LiteralSource")):
            s = mk(); r0 = repr(s)
            got = [s.get_modified_time(), s.read(), s.get_modified_time(), s.read()]
            want = [t, t if name == "ModifiedTimeSource" else "v"] * 2
            if any(a is not b for a, b in zip(got, want)) or repr(s) != r0:
                bad.append((tz, name, repr(t), "handed out %r; repr before/after %s / %s" % (got, r0, repr(s))))
with tempfile.TemporaryDirectory() as d:
    for mkp in (str, pathlib.Path):
        p = os.path.join(d, "src.txt"); open(p, "w").write("1")
        s = PathSource(mkp(p)); os.utime(p, (1000000000, 1000000000)); m1 = s.get_modified_time(); s.read()
        os.utime(p, (1500000000, 1500000000)); m2 = s.get_modified_time()
        if m1 is None or m2 is None or not m2 > m1: bad.append(("PathSource", mkp.__name__, "file replaced between two queries", "%r then %r" % (m1, m2)))
        plain = os.path.join(d, "plainfile"); open(plain, "w").write("x")
        for missing in (os.path.join(d, "nothing-here"),):     # other errors than 'does not exist' (a parent that is a regular file, no permission) are not specified by the properties
            try: r = PathSource(mkp(missing), required=False).get_modified_time()
            except Exception as e: r = e
            if r is not None: bad.append(("PathSource", mkp.__name__, "optional source, nothing stored at %s" % os.path.basename(missing), repr(r)))
            try: PathSource(mkp(missing), required=True).get_modified_time(); bad.append(("PathSource", mkp.__name__, "required and missing", "no error"))
            except OSError: pass
for b in bad[:6]: print("source store misbehaves:", b)
sys.exit(1 if bad else 0)
'''


def _replay_sources(ob):
    import os

    from ujvc.units import run_native_p
    from ujvc.z3env import REPO_SRC

    p = run_native_p(["/venv/bin/python", "-c", SOURCES_SCRIPT], env=dict(os.environ, PYTHONPATH=REPO_SRC), timeout=120)
    return {"reproduced": p.returncode == 1, "detail": (p.stdout + p.stderr)[-2500:], "script": SOURCES_SCRIPT}


REPLAYS = [("misc.sources*", _replay_sources)]
