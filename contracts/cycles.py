"""Bounded stand-in for the second clause of C07 ('a dependency cycle among the nodes a run has to examine is reported as an
error before any call executes or any store is accessed, never as a hang or a silently partial run') on the REAL uberjob.run.

The deductive part of that clause is: run reaches run_physical / the stale check with exactly their contracts' parameters
(contracts/runpath.py), both call run_function_on_graph, which calls assert_acyclic on the whole graph before it creates a
thread (contracts/coordinator.py), and assert_acyclic raises iff the graph has a cycle (contracts/kahn.py).  This unit keeps the
clause decided when that chain is restructured (e.g. a switch that skips the check on some path): labelled bounded, never
counted as proved.
Bound: cycles of length 1..3 (plain dependencies and argument edges) placed upstream of the output, with 0..2 acyclic calls in
front; registry None / empty / non-empty (stored node on or off the cycle); max_workers 1 and 3; both schedulers; 30 s watchdog.
"""
import os
import subprocess
import textwrap

from ujvc.units import unit
from ujvc.z3env import REPO_SRC

SCRIPT = textwrap.dedent(
    r'''
    import itertools, os, sys, threading
    import uberjob
    from uberjob import Plan, Registry, ValueStore

    problems = []
    events = []
    class Store(ValueStore):
        def __init__(self, name): self.name, self.v, self.has = name, None, False
        def read(self): events.append(("read", self.name)); return self.v
        def write(self, v): events.append(("write", self.name)); self.v, self.has = v, True
        def get_modified_time(self): events.append(("mtime", self.name)); return None

    def build(cycle_len, edge, prefix, where):
        plan = Plan()
        def mk(name):
            def f(*a): events.append(("start", name)); return name
            f.__name__ = name; return f
        pre = []
        for i in range(prefix):
            pre.append(plan.call(mk(f"pre{i}"), *(pre[-1:])))
        cyc = [plan.call(mk(f"cyc{i}"), *(pre[-1:] if i == 0 else [])) for i in range(cycle_len)]
        for i in range(cycle_len):
            a, b = cyc[i], cyc[(i + 1) % cycle_len]
            if edge == "lit":
                # the cycle runs through a barrier literal that is nobody's argument (the kind prune_plan replaces by direct dependencies)
                l = plan.lit(("barrier", i)); plan.add_dependency(a, l); plan.add_dependency(l, b)
            elif edge == "dep" or cycle_len == 1: plan.add_dependency(a, b)
            else:
                from uberjob.graph import PositionalArg
                plan.graph.add_edge(a, b, PositionalArg(len(list(plan.graph.in_edges(b)))))
        out = plan.call(mk("out"), cyc[-1])
        side = plan.call(mk("side"))                     # not upstream of the output
        return plan, pre, cyc, out, side

    def one(cycle_len, edge, prefix, reg_kind, workers, sched, dry):
        events.clear()
        plan, pre, cyc, out, side = build(cycle_len, edge, prefix, None)
        kw = dict(output=out, max_workers=workers, scheduler=sched, progress=None)
        if reg_kind != "none":
            reg = Registry()
            if reg_kind == "stored-on-cycle": reg.add(cyc[0], Store("c0"))
            elif reg_kind == "stored-downstream": reg.add(out, Store("out"))
            elif reg_kind == "stored-upstream" and pre: reg.add(pre[0], Store("pre0"))
            kw["registry"] = reg
        if dry: kw["dry_run"] = True
        res = {}
        def go():
            try: res["value"] = uberjob.run(plan, **kw)
            except BaseException as e: res["error"] = e
        t = threading.Thread(target=go, daemon=True); t.start(); t.join(30)
        tag = f"cycle={cycle_len}/{edge} prefix={prefix} registry={reg_kind} workers={workers} scheduler={sched} dry_run={dry}"
        if t.is_alive():
            problems.append(f"{tag}: run hangs"); return
        touched = [e for e in events if e[0] in ("start", "read", "write") or (e[0] == "mtime" and not dry)]
        if dry:
            # a dry run executes nothing and touches no store whatever the graph looks like (C14); nothing more is asked of it here
            if touched: problems.append(f"{tag}: dry run touched {touched[:3]}")
            return
        if "error" not in res:
            problems.append(f"{tag}: cyclic plan was not rejected: run returned {res.get('value')!r} after {touched[:4]}"); return
        if touched:
            problems.append(f"{tag}: cycle reported ({type(res['error']).__name__}) only after {touched[:4]}")

    n = 0
    for cycle_len, edge, prefix, reg_kind, workers, sched, dry in itertools.product(
            (1, 2, 3), ("dep", "arg", "lit"), (0, 2), ("none", "empty", "stored-on-cycle", "stored-downstream", "stored-upstream"), (1, 3), ("default", "random"), (False, True)):
        if edge == "arg" and cycle_len == 1: continue
        one(cycle_len, edge, prefix, reg_kind, workers, sched, dry); n += 1
        if len(problems) >= 5: break
    # controls: the same shapes WITHOUT the back edge must run to completion (the check must not reject acyclic plans)
    def acyclic(chain, workers, sched, reg_kind):
        events.clear()
        plan = Plan()
        def mk(name):
            def f(*a): events.append(("start", name)); return name
            f.__name__ = name; return f
        nodes = []
        for i in range(chain):
            nodes.append(plan.call(mk(f"n{i}"), *(nodes[-1:])))
            if i >= 2: plan.add_dependency(nodes[i - 2], nodes[i])
        kw = dict(output=nodes[-1], max_workers=workers, scheduler=sched, progress=None)
        if reg_kind == "empty": kw["registry"] = Registry()
        elif reg_kind == "stored":
            r = Registry(); r.add(nodes[0], Store("s0")); kw["registry"] = r
        res = {}
        def go():
            try: res["v"] = uberjob.run(plan, **kw)
            except BaseException as e: res["e"] = e
        t = threading.Thread(target=go, daemon=True); t.start(); t.join(30)
        if t.is_alive(): problems.append(f"acyclic chain of {chain} (registry={reg_kind}, workers={workers}, {sched}): run hangs"); return
        if "e" in res: problems.append(f"acyclic chain of {chain} (registry={reg_kind}, workers={workers}, {sched}) was rejected: {res['e']!r}"); return
        want = 1 if reg_kind == "stored" else None
        if [e for e in events if e[0] == "start"] != [("start", f"n{i}") for i in range(chain)]: problems.append(f"acyclic chain of {chain}: executed {events}")
    for chain, workers, sched, reg_kind in itertools.product((1, 2, 4), (1, 3), ("default", "random"), ("none", "empty", "stored")):
        if problems: break          # one failing input is enough (a hanging run costs its whole watchdog)
        acyclic(chain, workers, sched, reg_kind); n += 1
    for p in problems[:5]: print("VIOLATED C07", p)
    print(f"{n} cyclic runs, {len(problems)} problem(s)"); sys.stdout.flush(); os._exit(1 if problems else 0)
    '''
)


def replay(ob=None):
    from ujvc.units import run_native

    r = run_native(SCRIPT, 150)
    return {"reproduced": r["rc"] == 1 or r["timed_out"], "detail": r["out"], "script": SCRIPT, "rc": 1 if r["timed_out"] else r["rc"]}


def _cycles(ctx):
    """bounded: cycles of length 1..3 upstream of the output x registry none/empty/non-empty x 1,3 workers x both schedulers x dry/real (<= 480 runs, 30 s watchdog each)"""
    r = replay()
    if r["rc"] not in (0, 1):   # the probe itself failed (e.g. a private name it imports was renamed): no verdict
        ctx.unsupported("cycle probe did not run: " + r["detail"][-600:])
    ctx.check("bounded/cycle-probe-ran", True, info=r["detail"][-1500:])
    ctx.check("bounded/every-cyclic-plan-rejected-before-any-call-or-store-access;never-a-hang-or-a-partial-run", bool(r["rc"] != 1), info=r["detail"][-2500:])
    return "ok"


unit("cycles.run-rejects-cycles[bounded]", props=["C07", "C04"], functions=[("_run.py", "run"), ("_util/networkx_util.py", "topological_sort"), ("_util/networkx_util.py", "assert_acyclic"),
                                                                        ("_transformations/pruning.py", "prune_plan"), ("_transformations/pruning.py", "_prune_literal_if_trivial")],
     assumptions=["bounded stand-in: cycles <= 3 nodes through dependency / argument edges and through barrier literals (which prune_plan bypasses), see contracts/cycles.py"],
     min_obligations=2, kind="bounded")(_cycles)

REPLAYS = [("cycles.*", replay), ("runpath.run/C07*", replay)]
