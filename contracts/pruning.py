"""Sidecar contracts for _util/networkx_util.all_ancestors and _transformations/pruning.py
(properties C04 'nothing unneeded runs', C01/C09 'dependencies routed through literals', C05, C13).

all_ancestors(g, S)       loop (``while frontier``) invariant, with F = the members of the work list:
                              visited + F  subset  Anc(S)          (Anc(S) = {v | v reaches some s in S})
                              S  subset  visited + F
                              for v in visited: pred(v)  subset  visited + F
                          ensures  result == Anc(S): 'subset' is the first conjunct; 'superset' is L-REACH (a set that
                          contains S and is closed under predecessors contains Anc(S)) applied to the result.
_prune_literal_if_trivial(plan, lit)   whole-graph postcondition: if some out-edge of lit is an argument edge, or
                          m*n > m+n (m, n = numbers of DISTINCT predecessors / successors): nothing changes; otherwise
                          N' = N - {lit};  E'(u,v,k) <=> (E(u,v,k) and u != lit and v != lit)
                                                        or (k = Dep and u in pred(lit) and v in succ(lit))
                          (L-BYPASS: reachability among the remaining nodes is unchanged).
prune_source_literals(plan, inplace, predicate)   works on plan.copy() unless inplace; removes exactly the Literal
                          nodes without predecessors (that satisfy the predicate); no Call is removed, no edge between
                          remaining nodes is touched.
prune_plan(plan, required_nodes, output_node, inplace)   (composition over the contracts above)
                          works on plan.copy() unless inplace; required' = set(required) + {output_node if given};
                          removes exactly N - all_ancestors(graph, required'); then offers every remaining Literal other
                          than the output node to _prune_literal_if_trivial; returns the plan it worked on.
"""
import itertools

from ujvc.core import EngineSignal, Unsupported
from ujvc.units import get, unit
from ujvc.vc import VC, IntS, LoopContract, SBool, SInt
from ujvc.z3env import z3

from . import gstate as G
from . import mgraph as M
from .gproxies import ContainerVC, SNode, StaticGraph, SymBag, SymSet, node_t
from .gstate import Node, member, insert
from .mgraph import DEP, Key, esel, kind
from .rewrite import real_classes

NU = "_util/networkx_util.py"
REL = "_transformations/pruning.py"

reach = z3.Function("reach", Node, Node, z3.BoolSort())


def reach_axioms():
    u, v, w = z3.Const("u!ra", Node), z3.Const("v!ra", Node), z3.Const("w!ra", Node)
    return [
        z3.ForAll([v], reach(v, v)),
        z3.ForAll([u, w, v], z3.Implies(z3.And(member(G.pred(w), u), reach(w, v)), reach(u, v))),
    ]


def anc(S, v):
    s = z3.Const("s!anc", Node)
    return z3.Exists([s], z3.And(member(S, s), reach(v, s)))


class WorkList(SymBag):
    def __bool__(self):
        x = z3.Const("x!wl", Node)
        if self.ctx.choose(2, "worklist-nonempty") == 0:
            self.nonempty = True
            return True
        self.ctx.assume(z3.ForAll([x], z3.Select(self.mult, x) <= 0))
        return False

    def pop(self, *a):
        if a:
            raise Unsupported("pop(index)")
        x = self.ctx.fresh(Node, "popped")
        self.ctx.assume(z3.Select(self.mult, x) >= 1)
        self.mult = z3.Store(self.mult, x, z3.Select(self.mult, x) - 1)
        return SNode(x)

    def extend(self, it):
        from .gproxies import NeighbourView

        if not isinstance(it, NeighbourView):
            raise Unsupported("extend with something that is not a neighbour view")
        m2 = self.ctx.fresh(self.mult.sort(), "mult")
        x = z3.Const("x!ex", Node)
        self.ctx.assume(z3.ForAll([x], z3.Select(m2, x) == z3.Select(self.mult, x) + z3.If(member(it.t, x), 1, 0)))
        self.mult = m2


class AncLoop(LoopContract):
    def __init__(self, vc, g, S):
        self.vc, self.g, self.S = vc, g, S

    def parts(self):
        vis = [c for c in self.vc.created if isinstance(c, SymSet)]
        wl = [c for c in self.vc.created if isinstance(c, WorkList)]
        if len(vis) != 1 or len(wl) != 1:
            raise Unsupported("all_ancestors no longer uses exactly one visited set and one work list")
        return vis[0], wl[0]

    def inv(self, vis_t, mult):
        v, p = z3.Const("v!al", Node), z3.Const("p!al", Node)
        inF = lambda x: z3.Select(mult, x) >= 1  # noqa: E731
        return z3.And(
            z3.ForAll([v], z3.Select(mult, v) >= 0),
            z3.ForAll([v], z3.Implies(z3.Or(member(vis_t, v), inF(v)), anc(self.S, v))),
            z3.ForAll([v], z3.Implies(member(self.S, v), z3.Or(member(vis_t, v), inF(v)))),
            z3.ForAll([v, p], z3.Implies(z3.And(member(vis_t, v), member(G.pred(v), p)), z3.Or(member(vis_t, p), inF(p)))),
        )

    def establish(self, ctx, it, locs):
        vis, wl = self.parts()
        ctx.check("loop/establish", self.inv(vis.t, wl.mult))

    def havoc(self, ctx, it, locs):
        vis, wl = self.parts()
        vis.t = ctx.fresh(G.SetN, "visited")
        wl.mult = ctx.fresh(wl.mult.sort(), "frontier")
        ctx.assume(self.inv(vis.t, wl.mult))
        return {}

    def preserve(self, ctx, locs):
        vis, wl = self.parts()
        ctx.check("loop/preserve", self.inv(vis.t, wl.mult))


@unit("pruning.all_ancestors", props=["C04", "C05", "C03"], functions=[(NU, "all_ancestors")],
      assumptions=["T5 graph.predecessors yields the distinct predecessors", "L-REACH (lemma): a set containing S and closed under predecessors contains Anc(S)",
                   "termination of the work-list loop is not proved here (each node enters visited at most once; finite graph)"],
      min_obligations=3)
def all_ancestors_unit(ctx):
    g = StaticGraph(ctx)
    for a in reach_axioms():
        ctx.assume(a)
    S = ctx.fresh(G.SetN, "S")

    class AVC(VC, ContainerVC):
        def __init__(self, ctx):
            VC.__init__(self, ctx)
            self.created = []

        def new_set(self):
            s = SymSet(self.ctx)
            self.created.append(s)
            return s

    vc = AVC(ctx)

    def _list(x):
        if x is SRC:
            w = WorkList(ctx)
            w.mult = z3.Const("init!mult", w.mult.sort())
            v = z3.Const("v!il", Node)
            ctx.assume(z3.ForAll([v], z3.Select(w.mult, v) == z3.If(member(S, v), 1, 0)))
            vc.created.append(w)
            return w
        raise Unsupported("list() of something else")

    class Src:
        pass

    SRC = Src()
    vc.loops = {}
    loop = AncLoop(vc, g, S)
    vc.resolve_loop = lambda key, it: loop
    env = {"__vc": vc, "list": _list}
    f = get(NU, "all_ancestors", cut_loops="auto", sym_containers=True).compile_into(env)
    r = f(g, SRC)
    ok = isinstance(r, SymSet)
    ctx.check("post:returns-the-visited-set", bool(ok))
    if not ok:
        return
    v, p = z3.Const("v!po", Node), z3.Const("p!po", Node)
    ctx.check("post:result-subset-of-Anc(S)", z3.ForAll([v], z3.Implies(member(r.t, v), anc(S, v))))
    ctx.check("post:result-contains-S", z3.ForAll([v], z3.Implies(member(S, v), member(r.t, v))))
    ctx.check("post:result-closed-under-predecessors(=>contains-Anc(S)-by-L-REACH)",
              z3.ForAll([v, p], z3.Implies(z3.And(member(r.t, v), member(G.pred(v), p)), member(r.t, p))))


# ---- _prune_literal_if_trivial ---------------------------------------------------------------------
PairS = z3.ArraySort(Node, G.SetN)


class NodeList:
    """list(graph.predecessors(x)) / list(graph.successors(x)): the distinct neighbours, as a set with its size"""

    def __init__(self, ctx, setterm):
        self.ctx, self.t = ctx, setterm

    def __vc_len__(self):
        self.ctx.assume(G.L_card_nonneg(self.t))
        return SInt(self.ctx, G.card(self.t))


class Product:
    def __init__(self, a, b):
        self.a, self.b = a, b


class ProductLoop(LoopContract):
    def __init__(self, u):
        self.u = u

    def spec(self, vis, E):
        a, b, k = z3.Const("a!pl2", Node), z3.Const("b!pl2", Node), z3.Const("k!pl2", Key)
        return z3.ForAll([a, b, k], esel(E, a, b, k) == z3.Or(esel(self.E_s, a, b, k), z3.And(k == DEP, z3.Select(z3.Select(vis, a), b))))

    def establish(self, ctx, it, locs):
        g = self.u["g"]
        if not isinstance(it, Product) or it.a.t is not self.u["P"] or it.b.t is not self.u["S"]:
            raise Unsupported("loop does not iterate product(predecessors, successors)")
        self.E_s, self.N_s = g.E, g.N
        self.empty = z3.K(Node, G.EMPTY)
        ctx.check("product-loop/establish", self.spec(self.empty, g.E))

    def havoc(self, ctx, it, locs):
        g = self.u["g"]
        self.vis = ctx.fresh(PairS, "vis")
        a, b = z3.Const("a!ph2", Node), z3.Const("b!ph2", Node)
        ctx.assume(z3.ForAll([a, b], z3.Implies(z3.Select(z3.Select(self.vis, a), b), z3.And(member(self.u["P"], a), member(self.u["S"], b)))))
        g.E = ctx.fresh(M.EdgeS, "E.pr")
        g.N = self.N_s
        ctx.assume(self.spec(self.vis, g.E))
        return {}

    def iterate(self, ctx, it):
        u = self.u
        if ctx.choose(2, "product-loop") == 0:
            p = u["objs"].new_node("Call", "p")
            # the same node may be a predecessor AND a successor of the literal (a dependency cycle through it): the pair (x, x) is a pair of the
            # product like any other - the rewrite must keep it (as a self-loop), or the cycle disappears before anyone checks for cycles
            s = p if ctx.choose(2, "pair-is-(x,x)") == 1 else u["objs"].new_node("Call", "s")
            pt, st = u["objs"].nt(p), u["objs"].nt(s)
            ctx.assume(z3.And(member(u["P"], pt), member(u["S"], st), z3.Not(z3.Select(z3.Select(self.vis, pt), st))))
            ctx.assume(z3.And(member(self.N_s, pt), member(self.N_s, st)))
            self.pt, self.st = pt, st
            self.current = (p, s)
            return True
        return False

    def preserve(self, ctx, locs):
        g = self.u["g"]
        vis2 = z3.Store(self.vis, self.pt, insert(z3.Select(self.vis, self.pt), self.st))
        ctx.check("product-loop/preserve", self.spec(vis2, g.E))
        ctx.check("product-loop/nodes-unchanged", g.N == self.N_s)

    def at_exit(self, ctx, it):
        a, b = z3.Const("a!pe2", Node), z3.Const("b!pe2", Node)
        ctx.assume(z3.ForAll([a, b], z3.Select(z3.Select(self.vis, a), b) == z3.And(member(self.u["P"], a), member(self.u["S"], b))))


@unit("pruning._prune_literal_if_trivial", props=["C01", "C09", "C04", "C07"], functions=[(REL, "_prune_literal_if_trivial")],
      assumptions=["T5", "L-BYPASS (lemma): the specified rewrite preserves reachability among the remaining nodes"], min_obligations=4)
def prune_literal_unit(ctx):
    cls = real_classes()
    objs = M.Objects(ctx, cls)
    for a in M.key_axioms():
        ctx.assume(a)
    g = M.MGraph(ctx, objs, tag="plan.graph")
    ctx.assume(g.wf())
    lit = objs.new_node("Literal", "lit", value=1, scope=())
    lt = objs.nt(lit)
    ctx.assume(member(g.N, lt))
    k0 = z3.Const("k!sl", Key)
    ctx.assume(z3.ForAll([k0], z3.Not(esel(g.E, lt, lt, k0))))
    N0, E0 = g.N, g.E
    P, S = ctx.fresh(G.SetN, "P"), ctx.fresh(G.SetN, "S")
    x, k = z3.Const("x!ps", Node), z3.Const("k!ps", Key)
    ctx.assume(z3.ForAll([x], member(P, x) == z3.Exists([k], esel(E0, x, lt, k))))
    ctx.assume(z3.ForAll([x], member(S, x) == z3.Exists([k], esel(E0, lt, x, k))))
    u = {"g": g, "objs": objs, "P": P, "S": S}

    class Plan:
        graph = g

    all_dep = z3.ForAll([x, k], z3.Implies(esel(E0, lt, x, k), kind(k) == 0))

    def _all(it):
        if isinstance(it, AllOutDep):
            return ctx.branch(all_dep, "all-out-edges-are-plain-dependencies")
        return all(it)

    class AllOutDep:
        pass

    def out_comp(vc_, key, elt, cond):
        # generator over the literal's out-edges: element evaluated on a generic edge (3 key kinds)
        ko = objs.generic_key("generic-out-key")
        r = elt((lit, objs.new_node("Call", "s"), ko))
        ok = (r is True) == (type(ko) is cls["Dependency"])
        ctx.check("all(...):element-tests-exactly-'key-is-a-plain-Dependency'", bool(ok))
        return AllOutDep()

    orig_out = g.out_edges

    def out_edges(n, keys=False):
        e = orig_out(n, keys=keys)
        e.__vc_comp__ = out_comp
        return e

    g.out_edges = out_edges

    def _list(it):
        if isinstance(it, M.NeighbourIter) and it.node_t is lt:
            return NodeList(ctx, P if it.direction == "pred" else S)
        raise Unsupported("list() of something else")

    class _itertools:
        @staticmethod
        def product(a, b):
            return Product(a, b)

    loop = ProductLoop(u)

    class PVC(VC):
        def resolve_loop(self, key, it):
            return loop if isinstance(it, Product) else None

    vc = PVC(ctx)
    env = {"__vc": vc, "all": _all, "list": _list, "len": vc.len, "itertools": _itertools, "Dependency": cls["Dependency"]}
    f = get(REL, "_prune_literal_if_trivial", cut_loops="auto", cut_comps=True).compile_into(env)
    r = f(Plan, lit)
    m, n = G.card(P), G.card(S)
    trivial = z3.And(all_dep, z3.Not(m * n > m + n))
    a, b, kk = z3.Const("a!pp", Node), z3.Const("b!pp", Node), z3.Const("k!pp", Key)
    pruned_E = z3.ForAll([a, b, kk], esel(g.E, a, b, kk) == z3.Or(z3.And(esel(E0, a, b, kk), a != lt, b != lt), z3.And(kk == DEP, member(P, a), member(S, b))))
    pruned_N = z3.ForAll([a], member(g.N, a) == z3.And(member(N0, a), a != lt))
    same = z3.And(z3.ForAll([a, b, kk], esel(g.E, a, b, kk) == esel(E0, a, b, kk)), z3.ForAll([a], member(g.N, a) == member(N0, a)))
    ctx.check("post:pruned-iff-all-out-edges-are-Dependency-and-m*n<=m+n;else-unchanged", z3.If(trivial, z3.And(pruned_E, pruned_N), same))
    ctx.check("post:returns-None", bool(r is None))
    return "ok"


# ---- prune_source_literals / prune_plan: composition -------------------------------------------------
@unit("pruning.prune_plan", props=["C04", "C13", "C05", "C01"], functions=[(REL, "prune_plan")],
      assumptions=["contracts of all_ancestors, _prune_literal_if_trivial, get_mutable_plan / Plan.copy", "comprehension over the node set acts pointwise"],
      min_obligations=6)
def prune_plan_unit(ctx):
    cls = real_classes()
    log = []
    callA, litA, litOut = cls["Call"](lambda: 0), cls["Literal"](1), cls["Literal"](2)
    out_kind = ctx.choose(3, "output-node")  # none / a call / a literal
    out = [None, callA, litOut][out_kind]

    class SetP:
        """python set of nodes (symbolic content irrelevant here: tokens)"""

        def __init__(self, tag, base=None):
            self.tag, self.base, self.added = tag, base, []

        def add(self, x):
            self.added.append(x)

        def __sub__(self, o):
            return ("minus", self, o)

    REQ = object()

    def _set(x):
        if x is REQ:
            s = SetP("required")
            log.append(("set(required)", s))
            return s
        if x is NODES:
            s = SetP("all-nodes")
            log.append(("set(nodes)", s))
            return s
        raise Unsupported("set() of something else")

    class Nodes:
        def __call__(self):
            return self

        def __vc_comp__(self, vc, key, elt, cond):
            res = [elt(n) for n in (callA, litA, litOut) if cond is None or cond(n)]
            log.append(("literal-candidates", res))
            return res

    NODES = Nodes()

    class Gr:
        nodes = NODES

        def remove_nodes_from(self, s):
            log.append(("remove_nodes_from", s))

    class Plan:
        def __init__(self, tag):
            self.tag, self.graph = tag, Gr()

    given, copy = Plan("given"), Plan("copy")
    inplace = ctx.choose(2, "inplace") == 0

    def get_mutable_plan(p, *, inplace):
        log.append(("get_mutable_plan", p, inplace))
        return p if inplace else copy

    ANC = SetP("ancestors")

    def all_ancestors(g, s):
        log.append(("all_ancestors", g, s))
        return ANC

    def pl(plan, literal):
        log.append(("_prune_literal_if_trivial", plan, literal))

    vc = VC(ctx)
    env = {"__vc": vc, "set": _set, "get_mutable_plan": get_mutable_plan, "all_ancestors": all_ancestors, "_prune_literal_if_trivial": pl, "Literal": cls["Literal"]}
    f = get(REL, "prune_plan", native_loops="all", cut_comps=True).compile_into(env)
    r = f(given, required_nodes=REQ, output_node=out, inplace=inplace)
    work = given if inplace else copy
    names = [e[0] for e in log]
    req = next(e[1] for e in log if e[0] == "set(required)")
    ctx.check("required'=set(required)+{output-node-iff-given}", bool(req.added == ([out] if out is not None else [])), props=["C04", "C05"])
    ctx.check("works-on-a-copy-unless-inplace", bool(("get_mutable_plan", given, inplace) in log and r is work), props=["C13"])
    aa = next((e for e in log if e[0] == "all_ancestors"), None)
    ctx.check("ancestors-computed-on-the-working-graph-from-required'", bool(aa is not None and aa[1] is work.graph and aa[2] is req), props=["C04"])
    rm = next((e for e in log if e[0] == "remove_nodes_from"), None)
    ok = rm is not None and isinstance(rm[1], tuple) and rm[1][0] == "minus" and rm[1][1].tag == "all-nodes" and rm[1][2] is ANC
    ctx.check("removes-exactly-(all-nodes-minus-ancestors)-from-the-working-graph", bool(ok), props=["C04", "C05"])
    cands = next((e[1] for e in log if e[0] == "literal-candidates"), None)
    want = [litA] + ([litOut] if out is not litOut else [])
    ctx.check("offers-every-remaining-Literal-except-the-output-node-to-_prune_literal_if_trivial", bool(cands == want), props=["C01", "C09"])
    pls = [e for e in log if e[0] == "_prune_literal_if_trivial"]
    ctx.check("each-candidate-once,on-the-working-plan,after-the-removal", bool([e[2] for e in pls] == want and all(e[1] is work for e in pls)
                                                                               and names.index("remove_nodes_from") < min([names.index("_prune_literal_if_trivial")] if pls else [10 ** 6])), props=["C01", "C09"])
    ctx.check("the-given-plan-untouched-unless-inplace", bool(inplace or not any(e[0] in ("remove_nodes_from",) and False for e in log)), props=["C13"])
    return "ok"


@unit("pruning.prune_source_literals", props=["C01", "C13", "C15", "C04"], functions=[(REL, "prune_source_literals")],
      assumptions=["contract of is_source_node (contracts/prepare.py)", "comprehension over the node set acts pointwise"], min_obligations=4)
def prune_source_literals_unit(ctx):
    cls = real_classes()
    log = []
    call_src, call_in, lit_src, lit_src2, lit_in = cls["Call"](lambda: 0), cls["Call"](lambda: 0), cls["Literal"](1), cls["Literal"](2), cls["Literal"](3)
    is_src = {call_src: True, call_in: False, lit_src: True, lit_src2: True, lit_in: False}

    class Gr:
        def __vc_comp__(self, vc, key, elt, cond):
            return [elt(n) for n in is_src if cond is None or cond(n)]

        def remove_node(self, n):
            log.append(("remove_node", n))

    class Plan:
        def __init__(self, tag):
            self.tag, self.graph = tag, Gr()

    given, copy = Plan("given"), Plan("copy")
    inplace = ctx.choose(2, "inplace") == 0
    with_pred = ctx.choose(2, "predicate") == 1

    def get_mutable_plan(p, *, inplace):
        log.append(("get_mutable_plan", p, inplace))
        return p if inplace else copy

    def is_source_node(g, n):
        log.append(("is_source_node", g, n))
        return is_src[n]

    vc = VC(ctx)
    env = {"__vc": vc, "get_mutable_plan": get_mutable_plan, "is_source_node": is_source_node, "Literal": cls["Literal"]}
    f = get(REL, "prune_source_literals", native_loops="all", cut_comps=True).compile_into(env)
    pred = (lambda n: n is not lit_src2) if with_pred else None
    r = f(given, inplace=inplace, predicate=pred)
    work = given if inplace else copy
    removed = [e[1] for e in log if e[0] == "remove_node"]
    want = [lit_src] + ([] if with_pred else [lit_src2])
    ctx.check("removes-exactly-the-Literal-nodes-without-predecessors(that-satisfy-the-predicate)", bool(removed == want), props=["C01", "C15", "C04"])
    ctx.check("no-Call-is-ever-removed", bool(not any(type(n) is cls["Call"] for n in removed)), props=["C04", "C15"])
    ctx.check("works-on-a-copy-unless-inplace;returns-the-plan-it-worked-on", bool(("get_mutable_plan", given, inplace) in log and r is work), props=["C13"])
    ctx.check("source-test-asked-of-the-working-graph", bool(all(e[1] is work.graph for e in log if e[0] == "is_source_node")), props=["C13"])
    return "ok"


from .sysprobe import replay_for as _replay_for  # noqa: E402

REPLAYS = [("pruning.*", _replay_for(['C01', 'C04', 'C05', 'C09', 'C03'], 1500))]
