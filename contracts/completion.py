"""Completion lemma of the engine (C04 'the calls executed are exactly those the output depends on', C05 'each exactly once', C15
'completed equals total'): a lemma OVER THE CONTRACTS - when run_function_on_graph returns normally, every node of the graph it was
given has been processed successfully.  Safety statement (it says nothing about whether the run returns: liveness is not proved).

Hypotheses (all are postconditions / invariants of other units):
   GI      G1, G2, G3, G6 (always) and G4 (nobody holds the counter lock any more)                      contracts/engine.py, gstate.py
   H-INIT  every node without predecessors was enqueued initially and `enqueued` only grows              prepare.prepare_nodes, queues.create_queue, rely
   H-QUIET quiescence after the pool was drained and joined: every enqueued node was taken from the queue (queue.join() returned:
           unfinished_tasks == 0, T3) and its token was given back (all workers joined): it is started-and-(completed-or-failed) or
           skipped; every completed node finished its successor loop                                         coordinator.*, engine post
   H-OK    the run returns normally: nothing failed, nothing was skipped (stop was never set)           coordinator.run_function_on_graph
Step VC (rank induction L-IND over the predecessor relation; the graph is acyclic - kahn.assert_acyclic):
   all predecessors of x completed  =>  x completed.
"""
from ujvc.units import unit
from ujvc.z3env import z3

from . import gstate as G
from .gstate import Node, member


@unit("completion.every-node-processed-when-the-run-returns-normally", props=["C04", "C05", "C15", "C02"], functions=[],
      assumptions=["lemma over the contracts (rank-induction step; L-IND in Lean)", "H-INIT, H-QUIET, H-OK as stated in contracts/completion.py",
                   "cardinality lemma schema L_card_ext (cvc5)"], min_obligations=3, kind="lemma", prove_timeout_ms=60000)
def completion(ctx):
    for a in G.graph_axioms():
        ctx.assume(a)
    st = G.Static(ctx)
    for a in st.axioms():
        ctx.assume(a)
    w = G.World(ctx, "q")
    for g in G.GI_always(w, st):
        ctx.assume(g)
    ctx.assume(G.G4(w, st))
    y, p = z3.Const("y!cp", Node), z3.Const("p!cp", Node)
    # H-INIT
    ctx.assume(z3.ForAll([y], z3.Implies(G.npred(y) == 0, member(w.enqueued, y))))
    # H-QUIET
    ctx.assume(z3.ForAll([y], z3.Implies(member(w.enqueued, y), z3.Or(member(w.started, y), member(w.skipped, y)))))
    ctx.assume(z3.ForAll([y], z3.Implies(member(w.started, y), z3.Or(member(w.completed, y), member(w.failed, y)))))
    ctx.assume(z3.ForAll([y], z3.Implies(member(w.completed, y), member(w.finished, y))))
    # H-OK
    ctx.assume(z3.ForAll([y], z3.And(z3.Not(member(w.failed, y)), z3.Not(member(w.skipped, y)))))
    x = ctx.fresh(Node, "x")
    ctx.assume(z3.ForAll([p], z3.Implies(member(G.pred(x), p), member(w.completed, p))))       # induction hypothesis
    ctx.assume(G.L_card_nonneg(G.pred(x)))
    ctx.assume(G.L_card_zero(G.pred(x)))
    dx = z3.Select(w.decs, x)
    ctx.assume(G.L_card_ext(dx, G.pred(x)))                 # instances of the cardinality lemma schemas (checked by cvc5 in lemmas.card-schemas)
    ctx.assume(G.L_card_ext(G.pred(x), G.EMPTY))
    ctx.assume(G.L_card_empty())
    ctx.check("step/every-predecessor-released-x(x-is-in-done_succ-of-each-of-them)",
              z3.ForAll([p], z3.Implies(member(G.pred(x), p), member(z3.Select(w.done_succ, p), x))))
    ctx.check("step/case:no-predecessor=>enqueued-initially", z3.Implies(G.npred(x) == 0, member(w.enqueued, x)))
    ctx.check("step/case:one-predecessor=>enqueued-by-it", z3.Implies(G.npred(x) == 1, member(w.enqueued, x)))
    ctx.check("step/case:several-predecessors=>every-one-decremented-the-counter", z3.Implies(G.npred(x) >= 2, z3.ForAll([p], member(dx, p) == member(G.pred(x), p))))
    ctx.check("step/case:several-predecessors=>counter-is-zero,so-enqueued", z3.Implies(G.npred(x) >= 2, member(w.enqueued, x)))
    ctx.check("step/x-was-enqueued", member(w.enqueued, x))
    ctx.check("step:all-predecessors-completed=>x-completed", member(w.completed, x))
    return "ok"


def _quiescent_world(ctx, k_none=False):
    for a in G.graph_axioms():
        ctx.assume(a)
    st = G.Static(ctx)
    st.k_none = k_none
    for a in st.axioms():
        ctx.assume(a)
    w = G.World(ctx, "q")
    for g in G.GI_always(w, st):
        ctx.assume(g)
    ctx.assume(G.G4(w, st))
    y = z3.Const("y!cq", Node)
    ctx.assume(z3.ForAll([y], z3.Implies(G.npred(y) == 0, member(w.enqueued, y))))                                            # H-INIT
    ctx.assume(z3.ForAll([y], z3.Implies(member(w.enqueued, y), z3.Or(member(w.started, y), member(w.skipped, y)))))      # H-QUIET
    ctx.assume(z3.ForAll([y], z3.Implies(member(w.started, y), z3.Or(member(w.completed, y), member(w.failed, y)))))
    ctx.assume(z3.ForAll([y], z3.Implies(member(w.completed, y), member(w.finished, y))))
    return st, w


@unit("completion.GI-holds-initially", props=["C01", "C04", "C06", "C10"], functions=[],
      assumptions=["lemma over the contracts: base case of the rely/guarantee proof - the state built by run_function_on_graph before the pool starts (prepare.prepare_nodes, "
                   "queues.create_queue, the literal initialisations of stop / first_node_error / error_count) satisfies every invariant", "cardinality lemma schemas (cvc5)"],
      min_obligations=6, kind="lemma")
def gi_initially(ctx):
    from .engine import G5

    for a in G.graph_axioms():
        ctx.assume(a)
    for k_none in (False, True):
        st = G.Static(ctx)
        st.k_none = k_none
        for a in st.axioms():
            ctx.assume(a)
        w = G.World(ctx, "init")
        y, p = z3.Const("y!gi", Node), z3.Const("p!gi", Node)
        ctx.assume(z3.ForAll([y], member(w.enqueued, y) == (G.npred(y) == 0)))          # the queue holds exactly the source nodes (prepare_nodes, create_queue)
        for f in ("started", "completed", "failed", "skipped", "finished", "active", "held"):
            ctx.assume(z3.ForAll([y], z3.Not(member(getattr(w, f), y))))
        ctx.assume(z3.ForAll([y, p], z3.And(z3.Not(member(z3.Select(w.done_succ, p), y)), z3.Not(member(z3.Select(w.decs, y), p)))))
        ctx.assume(z3.ForAll([y], z3.Implies(member(st.multi, y), z3.Select(w.count, y) == G.npred(y))))   # remaining_pred_count_mapping as prepared
        ctx.assume(z3.And(z3.Not(w.stop), z3.Not(w.stopF), w.error_count == 0, z3.Not(w.first_set)))
        # cardinality facts about empty sets: instances of the schemas
        ctx.assume(G.L_card_empty())
        ctx.assume(z3.ForAll([y], G.L_card_ext(z3.Select(w.decs, y), G.EMPTY)))
        ctx.assume(G.L_card_ext(w.failed, G.EMPTY))
        ctx.assume(G.L_card_ext(w.active, G.EMPTY))
        ctx.assume(z3.ForAll([y], G.L_card_zero(G.pred(y))))
        tag = "max_errors=None" if k_none else "max_errors=int"
        for name, g in G.ALWAYS:
            ctx.check(f"{name}-holds-initially[{tag}]", g(w, st))
        ctx.check(f"G4-holds-initially[{tag}]", G.G4(w, st))
        ctx.check(f"G5-holds-initially[{tag}]", z3.And(G5(w, st)))
    return "ok"


@unit("completion.no-stop=>every-call-whose-dependencies-succeeded-is-executed", props=["C10", "C06"], functions=[],
      assumptions=["lemma over the contracts (no induction): at quiescence, if stop was never set (max_errors=None, or the error budget was not exceeded) nothing was skipped"],
      min_obligations=2, kind="lemma", prove_timeout_ms=60000)
def no_stop(ctx):
    st, w = _quiescent_world(ctx, k_none=True)
    y, p = z3.Const("y!ns", Node), z3.Const("p!ns", Node)
    ctx.assume(z3.ForAll([y], z3.Not(member(w.skipped, y))))            # skipped only grows when stop was read True
    x = ctx.fresh(Node, "x")
    dx = z3.Select(w.decs, x)
    ctx.assume(z3.ForAll([p], z3.Implies(member(G.pred(x), p), member(w.completed, p))))
    ctx.assume(G.L_card_nonneg(G.pred(x)))
    ctx.assume(G.L_card_ext(dx, G.pred(x)))
    ctx.assume(G.L_card_ext(G.pred(x), G.EMPTY))
    ctx.assume(G.L_card_empty())
    ctx.check("every-direct-dependency-completed=>x-was-enqueued", member(w.enqueued, x))
    ctx.check("every-direct-dependency-completed-and-stop-never-set=>x-was-executed(completed-or-failed)", z3.Or(member(w.completed, x), member(w.failed, x)))
    return "ok"


@unit("completion.one-worker:exact-number-of-failures", props=["C10"], functions=[],
      assumptions=["lemma over the contracts: G5 (failure-lock invariant, proved in engine.process_node) at quiescence, where nothing is in flight (active is empty)"],
      min_obligations=2, kind="lemma")
def one_worker(ctx):
    from .engine import G5

    st, w = _quiescent_world(ctx, k_none=False)
    for f in G5(w, st):
        ctx.assume(f)
    y = z3.Const("y!ow", Node)
    ctx.assume(z3.ForAll([y], z3.Not(member(w.active, y))))
    ctx.assume(G.L_card_ext(w.active, G.EMPTY))
    ctx.assume(G.L_card_empty())
    ctx.check("any-worker-count:at-most-max_errors+max_workers-calls-fail", G.card(w.failed) <= st.k + st.W)
    ctx.check("stop-set=>at-least-max_errors+1-calls-failed", z3.Implies(w.stopF, G.card(w.failed) >= st.k + 1))
    ctx.check("one-worker-and-stop-set=>exactly-max_errors+1-calls-failed", z3.Implies(z3.And(st.W == 1, w.stopF), G.card(w.failed) == st.k + 1))
    ctx.check("stop-not-set=>at-most-max_errors-calls-failed(and-by-the-previous-lemma-every-enabled-call-ran)", z3.Implies(z3.Not(w.stopF), G.card(w.failed) <= st.k))
    return "ok"
