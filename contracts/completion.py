"""Completion lemma of the engine (C04 'the calls executed are exactly those the output depends on', C05 'each exactly once', C15
'completed equals total'): a lemma OVER THE CONTRACTS - when run_function_on_graph returns normally, every node of the graph it was
given has been processed successfully.  Safety statement (it says nothing about whether the run returns: liveness is not proved).

Hypotheses (all are postconditions / invariants of other units):
   GI      G1, G2, G3, G6 (always) and G4 (nobody holds the counter lock any more)                      contracts/engine.py, gstate.py
   H-INIT  every node without predecessors was enqueued initially and `enqueued` only grows              prepare.prepare_nodes, queues.create_queue, rely
   H-QUIET quiescence after the pool was drained and joined: every enqueued node was taken from the queue (queue.join() returned:
           unfinished_tasks == 0, T3) and its token was given back (all workers joined): it is started-and-(completed-or-failed) or
           skipped; every completed node finished its successor loop                                         coordinator.*, engine post
   H-OK    the run returns normally: nothing failed, nothing was skipped (stop was never set)           coordinator.run_function_on_graph
Step VC (rank induction L-IND over the predecessor relation; the graph is acyclic - kahn.assert_acyclic):
   all predecessors of x completed  =>  x completed.
"""
from ujvc.units import unit
from ujvc.z3env import z3

from . import gstate as G
from .gstate import Node, member


@unit("completion.every-node-processed-when-the-run-returns-normally", props=["C04", "C05", "C15", "C02"], functions=[],
      assumptions=["lemma over the contracts (rank-induction step; L-IND in Lean)", "H-INIT, H-QUIET, H-OK as stated in contracts/completion.py",
                   "cardinality lemma schema L_card_ext (cvc5)"], min_obligations=3, kind="lemma", prove_timeout_ms=60000)
def completion(ctx):
    for a in G.graph_axioms():
        ctx.assume(a)
    st = G.Static(ctx)
    for a in st.axioms():
        ctx.assume(a)
    w = G.World(ctx, "q")
    for g in G.GI_always(w, st):
        ctx.assume(g)
    ctx.assume(G.G4(w, st))
    y, p = z3.Const("y!cp", Node), z3.Const("p!cp", Node)
    # H-INIT
    ctx.assume(z3.ForAll([y], z3.Implies(G.npred(y) == 0, member(w.enqueued, y))))
    # H-QUIET
    ctx.assume(z3.ForAll([y], z3.Implies(member(w.enqueued, y), z3.Or(member(w.started, y), member(w.skipped, y)))))
    ctx.assume(z3.ForAll([y], z3.Implies(member(w.started, y), z3.Or(member(w.completed, y), member(w.failed, y)))))
    ctx.assume(z3.ForAll([y], z3.Implies(member(w.completed, y), member(w.finished, y))))
    # H-OK
    ctx.assume(z3.ForAll([y], z3.And(z3.Not(member(w.failed, y)), z3.Not(member(w.skipped, y)))))
    x = ctx.fresh(Node, "x")
    ctx.assume(z3.ForAll([p], z3.Implies(member(G.pred(x), p), member(w.completed, p))))       # induction hypothesis
    ctx.assume(G.L_card_nonneg(G.pred(x)))
    ctx.assume(G.L_card_zero(G.pred(x)))
    dx = z3.Select(w.decs, x)
    ctx.assume(G.L_card_ext(dx, G.pred(x)))                 # instances of the cardinality lemma schemas (checked by cvc5 in lemmas.card-schemas)
    ctx.assume(G.L_card_ext(G.pred(x), G.EMPTY))
    ctx.assume(G.L_card_empty())
    ctx.check("step/every-predecessor-released-x(x-is-in-done_succ-of-each-of-them)",
              z3.ForAll([p], z3.Implies(member(G.pred(x), p), member(z3.Select(w.done_succ, p), x))))
    ctx.check("step/case:no-predecessor=>enqueued-initially", z3.Implies(G.npred(x) == 0, member(w.enqueued, x)))
    ctx.check("step/case:one-predecessor=>enqueued-by-it", z3.Implies(G.npred(x) == 1, member(w.enqueued, x)))
    ctx.check("step/case:several-predecessors=>every-one-decremented-the-counter", z3.Implies(G.npred(x) >= 2, z3.ForAll([p], member(dx, p) == member(G.pred(x), p))))
    ctx.check("step/case:several-predecessors=>counter-is-zero,so-enqueued", z3.Implies(G.npred(x) >= 2, member(w.enqueued, x)))
    ctx.check("step/x-was-enqueued", member(w.enqueued, x))
    ctx.check("step:all-predecessors-completed=>x-completed", member(w.completed, x))
    return "ok"
