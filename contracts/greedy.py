"""Bounded stand-in for _execution/greedy.py (T12): the default scheduler's priority mapping is only an ordering hint - the engine uses it through
``priority_mapping.get(node, -1)`` (total by construction, queues.create_queue) - so all that any property needs from it is that it TERMINATES and
RAISES NOTHING on every acyclic plan graph (a hang or an exception here would break C07 / C02 before the first call runs).  networkx's union-find,
strongly-connected-components and DiGraph are not under contract, so this is decided by exhaustive small-scope enumeration only (labelled bounded):
all DAGs with <= 4 nodes (edges i -> j for i < j) x every assignment of edge kinds {Dependency, PositionalArg} x node kinds {Call, Literal} (<= 3 nodes:
all; 4 nodes: all graphs, 6 seeded kind assignments each), parallel edges included.
Checked: returns a dict; every node of the graph is a key; the priorities are exactly 0 .. n-1 (a permutation); 5 s watchdog per call.
"""
import os
import subprocess
import textwrap

from ujvc.units import unit
from ujvc.z3env import REPO_SRC

SCRIPT = textwrap.dedent(
    r'''
    import itertools, os, random, sys, threading
    import networkx as nx
    from uberjob._execution import greedy
    from uberjob.graph import Call, Literal, Dependency, PositionalArg, KeywordArg
    rnd = random.Random(int(os.environ.get("VERIF_SEED", "0") or 0))
    problems, n_graphs = [], 0
    def check(n, edges, ekinds, nkinds, parallel):
        global n_graphs
        nodes = [(Call(len) if k == "c" else Literal(i)) for i, k in enumerate(nkinds)]
        g = nx.MultiDiGraph()
        for x in nodes: g.add_node(x)
        for (i, j), ek in zip(edges, ekinds):
            g.add_edge(nodes[i], nodes[j], Dependency() if ek == "d" else PositionalArg(sum(1 for (a, b) in edges if b == j and a < i)))
            if parallel: g.add_edge(nodes[i], nodes[j], KeywordArg("k%d" % i, 0) if ek != "d" else PositionalArg(7))
        res = {}
        def go():
            try: res["m"] = greedy.get_priority_mapping(g)
            except BaseException as e: res["e"] = e
        t = threading.Thread(target=go, daemon=True); t.start(); t.join(5)
        n_graphs += 1
        tag = f"n={n} edges={edges} kinds={ekinds} nodes={nkinds} parallel={parallel}"
        if t.is_alive(): problems.append(tag + ": get_priority_mapping does not terminate"); return
        if "e" in res: problems.append(tag + f": raised {res['e']!r}"); return
        m = res["m"]
        if not isinstance(m, dict) or set(m) != set(nodes) or sorted(m.values()) != list(range(n)):
            problems.append(tag + f": not a permutation of 0..n-1 over the nodes: {sorted(map(str, m.values())) if isinstance(m, dict) else m!r}")
    for n in (1, 2, 3, 4):
        pairs = [(i, j) for i in range(n) for j in range(i + 1, n)]
        for mask in range(1 << len(pairs)):
            edges = [p for b, p in enumerate(pairs) if mask >> b & 1]
            if n <= 3:
                combos = [(ek, nk) for ek in itertools.product("da", repeat=len(edges)) for nk in itertools.product("cl", repeat=n)]
            else:
                combos = [(tuple(rnd.choice("da") for _ in edges), tuple(rnd.choice("ccl") for _ in range(n))) for _ in range(6)]
            for ek, nk in combos:
                check(n, edges, ek, nk, parallel=False)
                if edges and rnd.random() < 0.2: check(n, edges, ek, nk, parallel=True)
                if len(problems) >= 5: break
    for p in problems[:5]: print("VIOLATED T12", p)
    print(f"{n_graphs} graphs, {len(problems)} problem(s)"); sys.stdout.flush(); os._exit(1 if problems else 0)
    '''
)


def replay(ob=None):
    p = __import__('ujvc.units', fromlist=['run_native_p']).run_native_p(["/venv/bin/python", "-c", SCRIPT], env=dict(os.environ, PYTHONPATH=REPO_SRC), timeout=900)
    return {"reproduced": p.returncode == 1, "detail": p.stdout[-3000:] + p.stderr[-1500:], "script": SCRIPT, "rc": p.returncode}


def _greedy(ctx):
    """bounded: get_priority_mapping on all DAGs with <= 4 nodes x edge kinds x node kinds (about 1500 graphs, 5 s watchdog each): terminates, raises nothing, returns a permutation of 0..n-1 over the nodes"""
    r = replay()
    if r["rc"] not in (0, 1):
        ctx.unsupported("greedy probe did not run: " + r["detail"][-600:])
    ctx.check("bounded/greedy-probe-ran", True, info=r["detail"][-800:])
    ctx.check("bounded/get_priority_mapping-terminates,raises-nothing-and-numbers-every-node-on-every-small-acyclic-plan-graph", bool(r["rc"] != 1), info=r["detail"][-2500:])
    return "ok"


_G = "_execution/greedy.py"
unit("greedy.priority-mapping[bounded<=4-nodes]", props=["C07", "C02"],
     functions=[(_G, "get_priority_mapping"), (_G, "get_condensation_graph_and_mapping"), (_G, "get_components_graph_and_mapping"), (_G, "condense_graph"),
                (_G, "get_special_connected_components"), (_G, "pred_search")],
     assumptions=["bounded stand-in for T12 (networkx union-find / SCC / DiGraph are not under contract)"], min_obligations=2, kind="bounded")(_greedy)

REPLAYS = [("greedy.*", replay)]
