"""Sidecar contracts for the sequential parts of run_function_on_graph.py: worker_thread.process_items,
worker_pool and the coordinator body of run_function_on_graph (properties C06, C07, C10; premises of C01/C04).

process_items   loop 0 (``while True``) is cut; per iteration: exactly one queue.get(); process_item(item) is
                called exactly once iff item is not DONE, with that item; queue.task_done() is called exactly
                once on EVERY exit of the iteration (normal, the DONE return, an exception escaping
                process_item); the function returns iff it got DONE.
worker_pool     loop 0 (``for _ in range(worker_count)``) invariant  started == i;  loop 1 (``for worker in
                workers``) invariant  joined == j;  every exit of the context (normal, exception in the body,
                failure while starting a thread) has joined == started; the body runs with started == worker_count.
coordinator     assert_acyclic is the first effect (if it raises nothing else happened: no thread, no queue, no
                call); the shared cells start as stop=False, first_node_error=None, error_count=0; create_queue
                gets prepare_nodes' sources; worker_pool gets the coerced worker_count; on EVERY exit of
                queue.join() (normal or exceptional) stop is set to True and exactly worker_count DONEs are put
                before the pool is left (joined); afterwards first_node_error is raised iff it is set - the very
                object - and the function returns None otherwise.
"""
import contextlib

from ujvc.core import EngineSignal, Unsupported
from ujvc.units import get, unit
from ujvc.vc import VC, IntS, LoopContract, RangeLoop, SInt
from ujvc.z3env import z3

REL = "_execution/run_function_on_graph.py"


def _catch(ctx, fn):
    try:
        return ("ret", fn())
    except EngineSignal:
        raise
    except BaseException as e:
        if ctx.dead is not None:
            raise ctx.dead
        ctx.classify(e)
        return ("raise", e)


# ---------------------------------------------------------------------------------------------------
class ItemsLoop(LoopContract):
    """The worker's loop, whatever its shape.  The queue protocol is a ghost automaton kept by the unit's queue / process_item stand-ins:
         IDLE --get--> HOLD(x);   HOLD(x), x is not DONE --process_item(x)--> USED(x);   USED(x) | HOLD(DONE) --task_done--> IDLE
    (anything else is a failed obligation where it happens).  Two candidate invariants for the loop head (disjunctive proof attempt):
      A  nothing outstanding (state IDLE):            ``while True: item = get(); ...``
      B  one item in hand, not yet looked at (HOLD):  ``item = get(); while item is not DONE: ...; item = get()``
    Every iteration consumes exactly one get (progress) and ends in the head state again."""

    def __init__(self, state):
        self.state = state
        self.head = None

    def establish(self, ctx, it, locs):
        st = self.state
        self.head = "IDLE" if ctx.choose(2, "alt:worker-loop-invariant") == 0 else "HOLD"
        ctx.check("loop/establish:no-item-outstanding" if self.head == "IDLE" else "loop/establish:exactly-the-item-just-fetched-is-in-hand",
                  bool(st["state"] == self.head))
        if st["state"] != self.head:
            ctx.end_path("this candidate invariant does not hold at loop entry")     # the other candidate is tried on its own paths

    def havoc(self, ctx, it, locs):
        st = self.state
        st.update(gets=0, dones=0, processed=[], state=self.head, item=None)
        if self.head == "HOLD":
            st["item"] = DONE if ctx.choose(2, "get") == 1 else object()
            # the local that carries the item in hand: the one that held it at loop entry
            names = [k for k, v in locs.items() if v is self.entry_item] if getattr(self, "entry_item", None) is not None else []
            return {n: st["item"] for n in names}
        return {}

    def preserve(self, ctx, locs):
        st = self.state
        ctx.check("iteration:exactly-one-get", bool(st["gets"] == 1))
        ctx.check("iteration:task_done-exactly-once", bool(st["dones"] == 1))
        ctx.check("iteration:ends-in-the-loop-head-state", bool(st["state"] == self.head))
        ctx.check("iteration:not-DONE=>process_item(item)-exactly-once", bool(len(st["processed"]) == 1 and st["processed"][0] is not DONE))


DONE = object()


class ItemBoom(Exception):
    pass


@unit("coordinator.process_items", props=["C07", "C01", "C04"], functions=[(REL, "worker_thread.<locals>.process_items")],
      assumptions=["T3 queue.get blocks until an item is available and hands it to exactly one caller"], min_obligations=6)
def process_items_unit(ctx):
    st = dict(gets=0, dones=0, processed=[], item=None, state="IDLE", finished=False)

    class Q:
        def get(self):
            ctx.check("get:only-when-nothing-is-outstanding", bool(st["state"] == "IDLE"))
            st["gets"] += 1
            st["item"] = DONE if ctx.choose(2, "get") == 1 else object()
            st["state"] = "HOLD"
            if loop.head is None:
                loop.entry_item = st["item"]
            return st["item"]

        def task_done(self):
            ok = st["state"] == "USED" or (st["state"] == "HOLD" and st["item"] is DONE)
            ctx.check("task_done:exactly-once-per-get,after-the-item-was-processed(or-was-DONE)", bool(ok))
            st["dones"] += 1
            st["finished"] = st["item"] is DONE
            st["state"] = "IDLE"

    def process_item(item):
        ctx.check("process_item:only-after-get-and-before-task_done", bool(st["state"] == "HOLD" and item is st["item"] and item is not DONE))
        st["processed"].append(item)
        st["state"] = "USED"
        if ctx.choose(2, "process_item") == 1:
            raise ItemBoom()

    loop = ItemsLoop(st)
    vc = VC(ctx, loops={})
    vc.resolve_loop = lambda key, it: loop
    env = {"__vc": vc, "queue": Q(), "process_item": process_item, "DONE": DONE}
    f = get(REL, "worker_thread.<locals>.process_items", cut_loops="auto").compile_into(env)
    from ujvc.units import call_by_name

    kind, val = _catch(ctx, lambda: call_by_name(f, queue=env["queue"], process_item=process_item))
    # reached only when the function was left: after DONE, or by an escaping exception
    ctx.check("exit:task_done-exactly-once-for-the-last-get", bool(st["state"] == "IDLE" and st["dones"] >= 1))
    if kind == "ret":
        ctx.check("returns-only-on-DONE", bool(st["item"] is DONE and st["finished"] and val is None))
    else:
        ctx.check("raises-only-what-process_item-raised", bool(isinstance(val, ItemBoom) and st["processed"][-1:] == [st["item"]]))
    return kind


@unit("coordinator.worker_thread", props=["C07", "C01", "C04", "C10"], functions=[(REL, "worker_thread"), (REL, "thread")],
      assumptions=["T4 Thread(target, args, kwargs).start() runs target(*args, **kwargs) exactly once in a new thread"], min_obligations=3, kind="concrete-parametric")
def worker_thread_unit(ctx):
    """worker_thread(queue, process_item) starts exactly ONE thread whose target is the process_items loop on this very queue and
    process_item (shape-independent: the target is run here on a scripted queue), and returns that thread"""
    from ujvc.units import base_env

    created = []

    class Thread:
        def __init__(self, group=None, target=None, name=None, args=(), kwargs=None, *, daemon=None):
            self.target, self.args, self.kwargs, self.started = target, tuple(args), dict(kwargs or {}), 0
            created.append(self)

        def start(self):
            self.started += 1

    class _threading:
        pass

    _threading.Thread = Thread
    X = object()
    script = [X, None]  # None stands for DONE (filled below)
    log = []

    class Q:
        def get(self):
            log.append("get")
            return script.pop(0)

        def task_done(self):
            log.append("task_done")

    def PI(item):
        log.append(("process_item", item))

    env = base_env(REL)
    script[1] = env["DONE"]
    env.update({"threading": _threading})
    get(REL, "thread").compile_into(env)
    wt = get(REL, "worker_thread", native_loops="all").compile_into(env)
    q = Q()
    r = wt(q, PI)
    ok = len(created) == 1 and created[0].started == 1 and r is created[0]
    ctx.check("worker_thread:creates-and-starts-exactly-one-thread-and-returns-it", bool(ok))
    if not ok:
        return "bad"
    ctx.check("worker_thread:nothing-ran-in-the-calling-thread", bool(log == []))
    t = created[0]
    t.target(*t.args, **t.kwargs)
    ctx.check("worker_thread:the-thread's-target-is-the-process_items-loop-on-THIS-queue-and-process_item",
              bool(log == ["get", ("process_item", X), "task_done", "get", "task_done"]), info=str(log))
    return "ok"


# ---------------------------------------------------------------------------------------------------
class CountList:
    """python list of thread objects, abstracted to its length"""

    def __init__(self, ctx):
        self.ctx = ctx
        self.length = z3.IntVal(0)

    def append(self, x):
        if not isinstance(x, ThreadTok):
            raise Unsupported("workers list gets a non-thread")
        self.length = self.length + 1


class ThreadTok:
    def __init__(self, g):
        self.g = g

    def join(self, *a):
        self.g["joined"] = self.g["joined"] + 1


class StartLoop(RangeLoop):
    def __init__(self, g, lst_get):
        super().__init__()
        self.g, self.lst_get = g, lst_get

    def havoc_state(self, ctx):
        self.g["started"] = ctx.fresh(IntS, "started")
        self.lst_get().length = ctx.fresh(IntS, "nworkers")

    def inv(self, ctx, i):
        return z3.And(self.g["started"] == i, self.lst_get().length == i, i >= 0)


class JoinLoop(LoopContract):
    def __init__(self, g, lst_get):
        self.g, self.lst_get = g, lst_get

    def establish(self, ctx, it, locs):
        if it is not self.lst_get():
            raise Unsupported("loop 1 of worker_pool does not iterate the workers list")
        ctx.check("join-loop/establish", self.g["joined"] == 0)
        self.g["join_loop_entered"] = True
        ctx.check("join-loop/list-holds-exactly-the-started-threads", self.lst_get().length == self.g["started"])

    def havoc(self, ctx, it, locs):
        self.j = ctx.fresh(IntS, "j")
        ctx.assume(z3.And(self.j >= 0, self.j <= self.lst_get().length))
        self.g["joined"] = self.j
        return {}

    def iterate(self, ctx, it):
        if ctx.branch(self.j < self.lst_get().length, "join-loop"):
            self.current = ThreadTok(self.g)
            return True
        return False

    def preserve(self, ctx, locs):
        ctx.check("join-loop/preserve:joined==j+1", self.g["joined"] == self.j + 1)

    def at_exit(self, ctx, it):
        pass


class BodyBoom(BaseException):
    pass


class StartBoom(RuntimeError):
    pass


@unit("coordinator.worker_pool", props=["C07", "C10"], functions=[(REL, "worker_pool")],
      assumptions=["T4 Thread.start runs the target exactly once; Thread.join returns only after the target ended (and does not raise)"],
      min_obligations=6)
def worker_pool_unit(ctx):
    g = {"started": z3.IntVal(0), "joined": z3.IntVal(0)}
    lists = []

    from ujvc.vc import SymRange

    class WRange(SymRange):
        """range(n) used in a comprehension that builds the workers list: n sequential evaluations of the element
        expression, cut into 'the evaluation at a generic index i with i threads already started'"""

        def __vc_comp__(self, vc, key, elt, cond):
            if cond is not None or not key.startswith("list"):
                raise Unsupported("unexpected comprehension shape in worker_pool")
            lst = CountList(ctx)
            lists.append(lst)
            n = self.stop.t if isinstance(self.stop, SInt) else z3.IntVal(self.stop)
            i = ctx.fresh(IntS, "i")
            ctx.assume(z3.And(i >= 0, i < n))
            g["started"] = i
            x = elt(SInt(ctx, i))  # may raise StartBoom with started == i
            ctx.check("comprehension:element-is-a-started-thread", bool(isinstance(x, ThreadTok)) and g["started"] == i + 1)
            g["started"] = n
            lst.length = n
            return lst

    class WVC(VC):
        def new_list(self):
            lst = CountList(ctx)
            lists.append(lst)
            return lst

        def range(self, *a):
            if len(a) == 1 and isinstance(a[0], SInt):
                return WRange(ctx, 0, a[0])
            return VC.range(self, *a)

        def resolve_loop(self, key, it):
            if isinstance(it, SymRange):
                return StartLoop(g, lambda: lists[0])
            if isinstance(it, CountList):
                return JoinLoop(g, lambda: lists[0])
            return None

    W = ctx.fresh(IntS, "worker_count")
    ctx.assume(W >= 1)
    Q, PI = object(), object()

    def worker_thread(queue, process_item):
        ctx.check("worker_thread:gets-the-pool's-queue-and-process_item", bool(queue is Q and process_item is PI))
        if ctx.choose(2, "thread-start") == 1:
            raise StartBoom("can't start new thread")
        g["started"] = g["started"] + 1
        return ThreadTok(g)

    vc = WVC(ctx)
    env = {"__vc": vc, "range": vc.range, "contextmanager": contextlib.contextmanager, "worker_thread": worker_thread}
    # loops are matched to contracts by what they iterate (range(worker_count) / the workers list), not by position
    wp = get(REL, "worker_pool", cut_loops="auto", cut_comps=True, sym_containers=True).compile_into(env)
    entered = []

    def use():
        with wp(Q, PI, SInt(ctx, W)):
            entered.append(True)
            ctx.check("body-runs-with-exactly-worker_count-threads-started", g["started"] == W, props=["C10", "C07"])
            if ctx.choose(2, "body") == 1:
                raise BodyBoom()

    kind, val = _catch(ctx, use)
    ctx.check("exit:every-started-thread-joined", g["joined"] == g["started"], props=["C07"],
              info="on every exit of the pool: normal, exception in the body, failure while starting a thread")
    if kind == "raise":
        ctx.check("exit:only-the-body's-or-start's-exception-propagates", bool(isinstance(val, (BodyBoom, StartBoom))))
    return kind


# ---------------------------------------------------------------------------------------------------
class DoneLoop(RangeLoop):
    def __init__(self, g):
        super().__init__()
        self.g = g

    def havoc_state(self, ctx):
        self.g["dones"] = ctx.fresh(IntS, "dones_put")

    def inv(self, ctx, i):
        return z3.And(self.g["dones"] == i, i >= 0)

    def at_exit(self, ctx, it):
        self.g["done_loop_exited"] = True


class Cycle(Exception):
    pass


class JoinBoom(BaseException):
    pass


PREV = None


@unit(
    "coordinator.run_function_on_graph",
    props=["C06", "C07", "C10", "C01", "C04"],
    functions=[(REL, "run_function_on_graph"), (REL, "coerce_worker_count"), (REL, "coerce_max_errors")],
    inlined=["coerce_worker_count", "coerce_max_errors"],
    assumptions=["T3 queue.join returns normally only when unfinished_tasks == 0", "T4", "contracts of assert_acyclic, prepare_nodes, create_queue, worker_pool (proved in their own units)"],
    min_obligations=10,
)
def coordinator_unit(ctx):
    from ujvc.z3env import ensure_repo_first

    ensure_repo_first()
    from uberjob._errors import NodeError

    log = []
    g = {"dones": z3.IntVal(0), "done_loop_exited": False, "pool": "out"}
    cells = {}
    first_err = NodeError.__new__(NodeError)

    class Sh:
        def __setattr__(self, k, v):
            log.append(("write", k, v))
            cells[k] = v

        def __getattr__(self, k):
            if k == "first_node_error":
                # whatever the workers left there (all workers are joined: the value is stable now)
                if "choice" not in g:
                    g["choice"] = ctx.choose(2, "first_node_error")
                if g["choice"] == 1:
                    log.append(("read-first", first_err))
                    return first_err
                log.append(("read-first", None))
                return None
            if k in cells and k not in ("stop", "error_count"):
                return cells[k]          # something the coordinator only stores and hands on (the failure lock of a state object)
            raise Unsupported(f"coordinator reads shared cell {k}")

    def as_state_class(real_cls):
        """the shared state kept as attributes of one object: the REAL initialiser runs on a proxy whose attribute writes and reads are the cell
        writes and reads of this contract"""
        class StateProxy(Sh):
            def __init__(self_, *a, **k):
                real_cls.__init__(self_, *a, **k)

        return StateProxy

    wc_none = ctx.choose(2, "worker_count-is-None") == 1
    Wt = ctx.fresh(IntS, "worker_count")
    me_none = ctx.choose(2, "max_errors-is-None") == 1
    Kt = ctx.fresh(IntS, "max_errors")
    GRAPH, SCHED, SOURCES, SINGLE, MAPPING = object(), object(), object(), object(), object()

    def FN(node):      # the function to run on every node (callable), identified by identity
        return None

    def assert_acyclic(graph):
        log.append(("assert_acyclic", graph))
        if ctx.choose(2, "assert_acyclic") == 1:
            raise Cycle()

    def prepare_nodes(graph):
        log.append(("prepare_nodes", graph))
        return (SOURCES, SINGLE, MAPPING)

    class Queue:
        def join(self):
            log.append(("join",))
            if g["pool"] == "out" and not pool_args:
                # the worker threads are not managed through worker_pool() on this path (started and joined inline, or not started at all): this
                # contract composes run_function_on_graph WITH the contract of worker_pool - it does not apply; the engine stress and the probes decide
                ctx.unsupported("run_function_on_graph waits for the queue without having entered worker_pool(): the coordinator contract does not apply")
            ctx.check("join:inside-the-pool", bool(g["pool"] == "in"))
            if ctx.choose(2, "queue.join") == 1:
                raise JoinBoom()

        def put(self, x):
            ctx.check("coordinator-puts-only-DONE", bool(x is DONE))
            ctx.check("DONE-put:after-stop-was-set-and-inside-the-pool", bool(cells.get("stop") is True and g["pool"] == "in"))
            g["dones"] = g["dones"] + 1

    QUEUE = Queue()

    def create_queue(graph, items, scheduler):
        log.append(("create_queue", graph, items, scheduler))
        return QUEUE

    pool_args = {}

    @contextlib.contextmanager
    def worker_pool(queue, process_item, worker_count):
        pool_args.update(queue=queue, process_item=process_item, worker_count=worker_count)
        if not cells:
            # the stop flag / first error / error count are not closure cells of run_function_on_graph (e.g. attributes of a state object):
            # this contract's shared-variable discipline is stated on the cells - it does not apply, the engine stress and the probes decide
            ctx.unsupported("the engine's shared state is not kept in closure cells of run_function_on_graph: the coordinator contract does not apply")
        ctx.check("pool-entered-after-shared-state-initialised",
                  bool(cells.get("stop") is False and cells.get("first_node_error", 0) is None and cells.get("error_count") == 0))
        g["pool"] = "in"
        log.append(("pool-enter",))
        try:
            yield
        finally:
            # contract of worker_pool: all workers joined on every exit; they end only after getting DONE
            g["pool"] = "left"
            log.append(("pool-exit",))
            ctx.check("pool-left:stop-set", bool(cells.get("stop") is True), props=["C07"])
            ctx.check("pool-left:exactly-worker_count-DONEs-put", z3.And(g["dones"] == W.t if isinstance(W, SInt) else g["dones"] == W),
                      props=["C07"])

    class _threading:
        @staticmethod
        def Lock():
            return object()

    class _os:
        @staticmethod
        def cpu_count():
            return 4

    def _int(x):
        return x if isinstance(x, SInt) else int(x)

    vc = VC(ctx, loops={"dones": DoneLoop(g)})
    env = {
        "__vc": vc, "__sh": Sh(), "range": vc.range, "int": _int, "min": min, "os": _os, "threading": _threading,
        "assert_acyclic": assert_acyclic, "prepare_nodes": prepare_nodes, "create_queue": create_queue, "worker_pool": worker_pool,
        "DONE": DONE, "NodeError": NodeError, "ValueError": ValueError,
    }
    get(REL, "coerce_worker_count").compile_into(env)
    get(REL, "coerce_max_errors").compile_into(env)
    get(REL, "coerce_node_error").compile_into(env)
    rf = get(REL, "run_function_on_graph", cut_loops={0: "successors-in-nested-process_node", 1: "dones"}).compile_into(env)
    for _n, _v in list(env.items()):
        # a module-level class (inlined by R9) whose initialiser sets the three shared variables: the state object of the engine
        _init = getattr(_v, "__init__", None)
        if isinstance(_v, type) and hasattr(_init, "__code__") and {"stop", "first_node_error", "error_count"} <= set(_init.__code__.co_names):
            env[_n] = as_state_class(_v)
    wc_arg = None if wc_none else SInt(ctx, Wt)
    me_arg = None if me_none else SInt(ctx, Kt)
    W = SInt(ctx, z3.IntVal(min(32, 4 + 4))) if wc_none else SInt(ctx, Wt)
    kind, val = _catch(ctx, lambda: rf(GRAPH, FN, worker_count=wc_arg, max_errors=me_arg, scheduler=SCHED))

    names = [e[0] for e in log]
    ctx.check("assert_acyclic-is-the-first-effect", bool(names[:1] == ["assert_acyclic"] and log[0][1] is GRAPH), props=["C07"])
    if kind == "raise" and isinstance(val, Cycle):
        ctx.check("cycle=>nothing-else-happened(no-thread,no-queue,no-call)", bool(names == ["assert_acyclic"]), props=["C07"])
        return "cycle"
    if kind == "raise" and isinstance(val, ValueError):
        bad_w = (not wc_none)
        ctx.check("ValueError-only-for-invalid-limits-and-before-any-thread", bool("pool-enter" not in names and "create_queue" not in names))
        if not wc_none and not me_none:
            ctx.check("ValueError=>worker_count<1-or-max_errors<0", z3.Or(Wt < 1, Kt < 0))
        elif not wc_none:
            ctx.check("ValueError=>worker_count<1-or-max_errors<0", Wt < 1)
        elif not me_none:
            ctx.check("ValueError=>worker_count<1-or-max_errors<0", Kt < 0)
        else:
            ctx.check("ValueError=>worker_count<1-or-max_errors<0", False)
        return "invalid"
    if not wc_none:
        ctx.check("valid=>worker_count>=1", Wt >= 1, props=["C10"])
    if not me_none:
        ctx.check("valid=>max_errors>=0", Kt >= 0, props=["C10"])
    cq = [e for e in log if e[0] == "create_queue"]
    ctx.check("create_queue(graph,sources-of-prepare_nodes,scheduler)-once", bool(len(cq) == 1 and cq[0][1] is GRAPH and cq[0][2] is SOURCES and cq[0][3] is SCHED))
    ok_pool = pool_args.get("queue") is QUEUE and callable(pool_args.get("process_item"))      # what it does with an item: the engine units
    ctx.check("worker_pool(queue,process_node,..)", bool(ok_pool))
    pw = pool_args.get("worker_count")
    if wc_none:
        ctx.check("worker_pool-gets-the-default-worker-count", bool(isinstance(pw, int) and pw == 8), props=["C10"])
    else:
        ctx.check("worker_pool-gets-exactly-the-requested-worker_count", bool(isinstance(pw, SInt)) and pw.t == Wt, props=["C10"])
    ctx.check("order:acyclic,prepare,create_queue,pool-enter,join,pool-exit",
              bool(names[:6] == ["assert_acyclic", "prepare_nodes", "create_queue", "pool-enter", "join", "pool-exit"] or
                   [n for n in names if n not in ("write",)][:6] == ["assert_acyclic", "prepare_nodes", "create_queue", "pool-enter", "join", "pool-exit"]))
    ctx.check("pool-was-left(all-workers-joined)", bool(g["pool"] == "left"), props=["C07"])
    joined_raised = any(lab == "queue.join=1" for lab in ctx.labels())
    if joined_raised:
        ctx.check("join-raised=>that-exception-propagates-after-cleanup", bool(kind == "raise" and isinstance(val, JoinBoom)), props=["C07"])
        return "join-raised"
    reads = [e for e in log if e[0] == "read-first"]
    ctx.check("first_node_error-read-after-the-pool-was-left", bool(reads and names.index("read-first") > names.index("pool-exit")), props=["C06"])
    if reads and reads[-1][1] is not None:
        ctx.check("failure-recorded=>raises-that-very-NodeError", bool(kind == "raise" and val is first_err), props=["C06"])
    else:
        ctx.check("no-failure-recorded=>returns-None", bool(kind == "ret" and val is None), props=["C06"])
    return kind


from .engine_replay import replay as _engine_replay  # noqa: E402

REPLAYS = [("coordinator.*", _engine_replay)]
