"""Sidecar contracts for argument gathering: Plan._gather (+ nested recurse), Plan._call with argument lists of ANY length, and
the gather_* builtins (property C02: 'argument values that contain no symbolic node are passed as the very objects supplied;
list, tuple, set and dict structures (nested, exact built-in types only) that contain nodes are rebuilt with the same shape with
each node replaced by its value').  Deductive and unbounded: structural induction over the argument value, symbolic lengths.

Vocabulary (sort Obj = python objects by identity):
   isnode(x)          x is a uberjob Node                      tkind(x) in {0 other, 1 list, 2 tuple, 3 set, 4 dict}  (EXACT type)
   olen(x), item(x,i) length and i-th item in iteration order; for a dict the i-th item is the (key, value) pair tuple of .items()
   val(n)             the run-time value of node n             (semantics of the graph, see 'glue' below)
   contains(x)        x is a node or a builtin container (exact type) one of whose items contains a node      [recursive definition]
   SUB(x, v)          v is the value C02 demands for argument x:                                               [recursive definition]
                         isnode(x)                  : v is val(x)
                         not contains(x)            : v is x  (the very object)
                         container containing nodes : tkind(v)=tkind(x), olen(v)=olen(x), SUB(item(x,i), item(v,i)) for all i
 Both recursive definitions are unfolded ONCE at the value under consideration; recursive calls are cut by the induction
 hypothesis (IH) on the items.  Assumption: argument structures are finite and acyclic (a self-containing list makes recurse
 diverge with RecursionError - not part of C02).

 recurse(root)   ensures   contains(root)  =>  result is a node and SUB(root, val(result))
                           not contains(root) =>  result is root
                 and recursive calls are made on items of root only (so IH applies), exactly one per item.
 Plan._gather(sf, value)  ensures  result is a node in the plan and SUB(value, val(result)); a non-node result of recurse is
                           wrapped by Plan.lit (val(lit(x)) is x: the very object, plumbing.Plan._call unit).
 Plan._call(sf, fn, *args, **kwargs) for symbolic numbers p, q of arguments: one new Call c; after the loops
         E' = E + {(G_i, c, Pos i) | i < p} + {(H_j, c, Kw(name_j, j)) | j < q}   with G_i = _gather(arg_i), H_j = _gather(kwarg_j)
         which is WF_args(c) in set form (precondition of argnodes.get_argument_nodes through argnodes.wf-set=>wf-seq).
 gather_list/tuple/set/dict(*args) == list/tuple/set/dict(args)   (R11: the parameter list made explicit).
Glue (composition, stated not proved here): val(c) of a Call c is fn(*[val of the node on edge Pos i], **{name_j: val of the node
 on edge Kw(name_j, j)}) - by runphys.BoundCall.run (slot values in order / under their names), argnodes.get_argument_nodes,
 runphys bound-call construction and C01 (every predecessor finished, its slot holds its value).
"""
from ujvc.core import Unsupported
from ujvc.units import base_env, get, unit
from ujvc.vc import VC, IntS, LoopContract, SBool, SInt
from ujvc.z3env import z3

from . import mgraph as M
from .gstate import Node as NodeS
from .rewrite import real_classes

PL = "_plan.py"
BI = "_builtins.py"

Obj = z3.DeclareSort("Obj")
BoolS = z3.BoolSort()
isnode = z3.Function("isnode", Obj, BoolS)
tkind = z3.Function("tkind", Obj, IntS)
olen = z3.Function("olen", Obj, IntS)
item = z3.Function("item", Obj, IntS, Obj)
contains = z3.Function("contains", Obj, BoolS)
val = z3.Function("val", Obj, Obj)
SUB = z3.Function("SUB", Obj, Obj, BoolS)
rec = z3.Function("rec", Obj, Obj)      # result of the recursive call on an item (cut by IH)
KINDS = {1: list, 2: tuple, 3: set, 4: dict}


def base_axioms():
    x, v = z3.Const("x!ga", Obj), z3.Const("v!ga", Obj)
    return [
        z3.ForAll([x], z3.And(tkind(x) >= 0, tkind(x) <= 4, olen(x) >= 0)),
        z3.ForAll([x], z3.Implies(isnode(x), z3.And(contains(x), tkind(x) == 0))),            # a node is no builtin container
        z3.ForAll([x], z3.Implies(z3.And(tkind(x) == 0, z3.Not(isnode(x))), z3.Not(contains(x)))),  # anything else of another type is opaque
        z3.ForAll([x, v], z3.Implies(isnode(x), SUB(x, v) == (v == val(x)))),
        z3.ForAll([x, v], z3.Implies(z3.Not(contains(x)), SUB(x, v) == (v == x))),
    ]


def unfold(root):
    """the two recursive definitions unfolded once at root"""
    i, v = z3.Const("i!uf", IntS), z3.Const("v!uf", Obj)
    rng = z3.And(0 <= i, i < olen(root))
    return [
        contains(root) == z3.Or(isnode(root), z3.And(tkind(root) != 0, z3.Exists([i], z3.And(rng, contains(item(root, i)))))),
        z3.ForAll([v], z3.Implies(z3.And(contains(root), z3.Not(isnode(root))),
                                  SUB(root, v) == z3.And(tkind(v) == tkind(root), olen(v) == olen(root),
                                                         z3.ForAll([i], z3.Implies(rng, SUB(item(root, i), item(v, i))))))),
    ]


def IH(x, r):
    return z3.Or(z3.And(contains(x), isnode(r), SUB(x, val(r))), z3.And(z3.Not(contains(x)), r == x))


class PObj:
    """a python object known only through its term; ``kind`` is the eager split of type(x) the code may inspect"""

    def __init__(self, w, t, kind=None):
        self.w, self.t, self.kind = w, t, kind

    def items(self):
        if self.kind != 4:
            raise Unsupported(".items() of a non-dict")
        return ItemsOf(self)

    def __vc_comp__(self, vc, key, elt, cond):
        if self.kind == 4:
            # iterating a dict directly yields its KEYS: the values (and the nodes inside them) would be lost
            self.w.ctx.check("dict-is-traversed-through-its-(key,value)-items", False, info="iteration over the dict itself yields keys only")
        return ItemsOf(self).__vc_comp__(vc, key, elt, cond)

    def __iter__(self):
        raise Unsupported("native iteration over a symbolic value")

    def __eq__(self, o):
        raise Unsupported("== on an opaque value")

    __hash__ = None


class ItemsOf:
    """the items of a container in iteration order (for a dict: the pair tuples of .items())"""

    def __init__(self, root):
        self.root = root

    def __vc_comp__(self, vc, key, elt, cond):
        w, root = self.root.w, self.root
        if cond is not None or not key.startswith("list#"):
            raise Unsupported("comprehension over the items with a filter / of another kind")
        if root.kind not in KINDS:
            raise Unsupported("iteration over a value that is no builtin container")
        i = w.ctx.fresh(IntS, "i")
        w.ctx.assume(z3.And(0 <= i, i < olen(root.t)))
        before = len(w.rec_calls)
        r = elt(PObj(w, item(root.t, i)))
        made = w.rec_calls[before:]
        ok = isinstance(r, PObj) and len(made) == 1 and z3.eq(made[0], item(root.t, i)) and z3.eq(r.t, rec(item(root.t, i)))
        w.ctx.check("children:element-expression-is-exactly-one-recursive-call-on-the-item", bool(ok))
        if not ok:
            raise Unsupported("the children are not [recurse(item) for item in items]")
        w.children_built += 1
        return Children(root)

    def __iter__(self):
        raise Unsupported("native iteration over symbolic items")


class Children:
    """[recurse(item) for item in items]: child(i) = rec(item(root, i)), length olen(root)"""

    def __init__(self, root):
        self.root = root

    def child(self, i):
        return rec(item(self.root.t, i))

    def __vc_comp__(self, vc, key, elt, cond):
        w = self.root.w
        if cond is not None or not key.startswith("gen#"):
            raise Unsupported("comprehension over the children other than a plain generator")
        i = z3.Const("i!any", IntS)
        b = elt(PObj(w, self.child(i)))
        if not isinstance(b, SBool):
            raise Unsupported("generator over the children does not yield a symbolic truth value")
        return GenBool(self, i, b.t)

    def __iter__(self):
        raise Unsupported("native iteration over the symbolic children")


class GenBool:
    def __init__(self, children, i, body):
        self.children, self.i, self.body = children, i, body


class World:
    def __init__(self, ctx, cls):
        self.ctx, self.cls = ctx, cls
        self.rec_calls = []
        self.children_built = 0
        self.created = []
        self.call_log = []
        for a in base_axioms():
            ctx.assume(a)

    def fresh_obj(self, hint):
        return self.ctx.fresh(Obj, hint)


def _isinstance_stub(w):
    NodeC = w.cls["Node"]

    def _isinstance(x, c):
        if isinstance(x, PObj):
            if c is NodeC:
                return SBool(w.ctx, isnode(x.t), "isinstance-Node")
            raise Unsupported("isinstance of an opaque value against another class")
        return isinstance(x, c)

    return _isinstance


def _any_stub(w):
    def _any(g):
        if isinstance(g, GenBool):
            n = olen(g.children.root.t)
            return SBool(w.ctx, z3.Exists([g.i], z3.And(0 <= g.i, g.i < n, g.body)), "any-child-is-a-node")
        return any(g)

    return _any


class _Other:
    """stands for every type that is not exactly list / tuple / set / dict (subclasses of them included)"""


def _type_stub(w):
    def _type(x):
        if isinstance(x, PObj):
            if x.kind in KINDS:
                return KINDS[x.kind]
            if x.kind == 0:
                return w.cls["Call"]
            return _Other
        return type(x)

    return _type


def gather_kind(fn):
    from ujvc.z3env import ensure_repo_first

    ensure_repo_first()
    import importlib

    b = importlib.import_module("uberjob._builtins")
    return {b.gather_list: 1, b.gather_tuple: 2, b.gather_set: 3, b.gather_dict: 4}.get(fn)


class PlanSelf:
    """``self`` of Plan._gather: _call and lit carry their contracts"""

    def __init__(self, w, SF):
        self.w, self.SF = w, SF

    def _call_sym(self, stack_frame, fn, children):
        w, ctx = self.w, self.w.ctx
        k = gather_kind(fn)
        w.call_log.append(("_call", stack_frame, fn, children))
        c = w.fresh_obj("gathercall")
        V = w.fresh_obj("V")
        i = z3.Const("i!cs", IntS)
        n = olen(children.root.t)
        ctx.assume(isnode(c))
        ctx.assume(val(c) == V)
        if k is None:
            # a call of some other function: its value is unconstrained
            return PObj(w, c, 0)
        # Plan._call + the contract of Plan._gather for every argument (well-founded: the arguments are results of recursive
        # calls on strict sub-structures) + gather_fn(*xs) == K(xs) + the glue:  val(c) = K([val(_gather(child_i))])
        ctx.assume(z3.And(tkind(V) == k, olen(V) == n))
        ctx.assume(z3.ForAll([i], z3.Implies(z3.And(0 <= i, i < n), SUB(children.child(i), item(V, i)))))
        return PObj(w, c, 0)

    def lit(self, value):
        w, ctx = self.w, self.w.ctx
        if not isinstance(value, PObj):
            raise Unsupported("lit of a concrete value")
        ctx.check("lit:only-applied-to-a-non-node(else-TypeError)", z3.Not(isnode(value.t)))
        l = w.fresh_obj("lit")
        ctx.assume(z3.And(isnode(l), val(l) == value.t))  # plumbing.Plan._call unit: lit holds the very object
        w.call_log.append(("lit", value))
        return PObj(w, l, 0)


class GVC(VC):
    def __init__(self, ctx, w, plan_self):
        VC.__init__(self, ctx)
        self.w, self.plan_self = w, plan_self

    def call_star(self, func, pos, star, kw):
        if isinstance(star, Children):
            bound_self = getattr(func, "__self__", None)
            if bound_self is not self.plan_self or getattr(func, "__name__", "") != "_call" or kw or len(pos) != 2:
                raise Unsupported("the children are star-passed to something else than self._call(stack_frame, gather_fn, *children)")
            return self.plan_self._call_sym(pos[0], pos[1], star)
        return func(*pos, *star, **kw)


def _mk_root(ctx, w):
    kind = ctx.choose(6, "type(root)")  # 0 node, 1 list, 2 tuple, 3 set, 4 dict, 5 anything else
    t = w.fresh_obj("root")
    if kind == 0:
        ctx.assume(isnode(t))
    elif kind == 5:
        ctx.assume(z3.And(z3.Not(isnode(t)), tkind(t) == 0))
    else:
        ctx.assume(z3.And(z3.Not(isnode(t)), tkind(t) == kind))
    for a in unfold(t):
        ctx.assume(a)
    return PObj(w, t, kind)


@unit("gather.recurse", props=["C02"], functions=[(PL, "Plan._gather.<locals>.recurse")],
      assumptions=["argument structures are finite and acyclic", "contracts of Plan._call / Plan.lit (plumbing.Plan._call, gather.Plan._call[unbounded]) and gather_* (gather.builtins)",
                   "glue: val(call) = fn(values of the argument nodes in edge order) - runphys.BoundCall.run, argnodes.get_argument_nodes, C01"],
      min_obligations=10)
def recurse_unit(ctx):
    cls = real_classes()
    w = World(ctx, cls)
    SF = object()
    ps = PlanSelf(w, SF)
    ps._call = ps._call_marker = None

    class _Bound:
        """self._call looked up as an attribute: a bound-method look-alike that call_star recognises"""

        __name__ = "_call"

        def __init__(self, s):
            self.__self__ = s

        def __call__(self, *a, **k):
            raise Unsupported("self._call invoked without star-passing the children")

    ps._call = _Bound(ps)
    vc = GVC(ctx, w, ps)
    env = base_env(PL)
    env.update({"__vc": vc, "self": ps, "stack_frame": SF, "isinstance": _isinstance_stub(w), "any": _any_stub(w), "type": _type_stub(w), "Node": cls["Node"]})
    real = get(PL, "Plan._gather.<locals>.recurse", cut_comps=True, star_calls=True).compile_into(env)

    def rec_stub(x):
        if not isinstance(x, PObj):
            raise Unsupported("recursive call on a concrete value")
        w.rec_calls.append(x.t)
        return PObj(w, rec(x.t))

    env["recurse"] = rec_stub          # recursive calls are cut: IH
    root = _mk_root(ctx, w)
    i = z3.Const("i!ih", IntS)
    ctx.assume(z3.ForAll([i], z3.Implies(z3.And(0 <= i, i < olen(root.t)), IH(item(root.t, i), rec(item(root.t, i))))))
    r = real(root)
    ok = isinstance(r, PObj)
    ctx.check("post:returns-a-value", bool(ok))
    if not ok:
        return "shape"
    ctx.check("post:contains(root)=>result-is-a-node-whose-value-is-root-with-every-node-replaced-by-its-value(same-shape,exact-types)",
              z3.Implies(contains(root.t), z3.And(isnode(r.t), SUB(root.t, val(r.t)))))
    ctx.check("post:no-node-inside=>the-very-object-is-returned", z3.Implies(z3.Not(contains(root.t)), r.t == root.t))
    calls = [c for c in w.call_log if c[0] == "_call"]
    if calls:
        ctx.check("gather-call-created-with-the-caller's-stack-frame", bool(all(c[1] is SF for c in calls) and len(calls) == 1), props=["C02", "C19"])
    ctx.check("recursion-only-through-the-children-comprehension(one-call-per-item)", bool(w.children_built <= 1 and len(w.rec_calls) == w.children_built))
    return "ok"


@unit("gather.Plan._gather", props=["C02"], functions=[(PL, "Plan._gather")], assumptions=["R12: the nested recurse is replaced by a stub carrying the contract proved by gather.recurse"],
      min_obligations=3)
def gather_outer_unit(ctx):
    cls = real_classes()
    w = World(ctx, cls)
    SF = object()
    ps = PlanSelf(w, SF)
    vc = GVC(ctx, w, ps)
    env = base_env(PL)
    value = _mk_root(ctx, w)

    def recurse(x):
        if x is not value:
            raise Unsupported("recurse applied to something else than the value")
        r = w.fresh_obj("rec-result")
        ctx.assume(z3.Implies(contains(x.t), z3.And(isnode(r), SUB(x.t, val(r)))))     # contract of recurse (gather.recurse)
        ctx.assume(z3.Implies(z3.Not(contains(x.t)), r == x.t))
        w.rec_calls.append(x.t)
        return PObj(w, r)

    env.update({"__vc": vc, "isinstance": _isinstance_stub(w), "Node": cls["Node"], "recurse": recurse})
    f = get(PL, "Plan._gather", drop_nested=("recurse",)).compile_into(env)
    r = f(ps, SF, value)
    ok = isinstance(r, PObj)
    ctx.check("post:returns-a-value", bool(ok))
    if not ok:
        return "shape"
    ctx.check("post:result-is-a-node-and-its-value-is-what-C02-demands-for-the-argument", z3.And(isnode(r.t), SUB(value.t, val(r.t))))
    ctx.check("recurse-applied-exactly-once-to-the-value", bool(len(w.rec_calls) == 1))
    return "ok"


# ---------------------------------------------------------------------------------------------------------------
# gather_* builtins
# ---------------------------------------------------------------------------------------------------------------
@unit("gather.builtins", props=["C02"], functions=[(BI, "gather_list"), (BI, "gather_tuple"), (BI, "gather_set"), (BI, "gather_dict")],
      assumptions=["R11: the *args parameter is made explicit and bound to an opaque sequence"], min_obligations=4)
def builtins_unit(ctx):
    ARGS = object()
    for name, K in (("gather_list", "list"), ("gather_tuple", "tuple"), ("gather_set", "set"), ("gather_dict", "dict")):
        log = []

        def mk(kind):
            def ctor(*a, **k):
                log.append((kind, a, k))
                return ("built", kind, a)

            return ctor

        env = {k: mk(k) for k in ("list", "tuple", "set", "dict", "frozenset", "sorted", "reversed")}
        f = get(BI, name, explicit_varargs=True).compile_into(env)
        r = f(ARGS)
        ctx.check(f"{name}(*args)=={K}(args)", bool(r == ("built", K, (ARGS,)) and log == [(K, (ARGS,), {})]), info=str(log))
    return "ok"


# ---------------------------------------------------------------------------------------------------------------
# Plan._call with symbolic numbers of positional and keyword arguments
# ---------------------------------------------------------------------------------------------------------------
class SeqProxy:
    """the tuple ``args`` (or the view kwargs.items()): length n, element i is an opaque argument value"""

    def __init__(self, w, n, tag):
        self.w, self.n, self.tag = w, n, tag

    def items(self):
        if self.tag != "kwargs":
            raise Unsupported(".items() of the positional arguments")
        return SeqProxy(self.w, self.n, "kwargs.items()")

    def __iter__(self):
        raise Unsupported("native iteration over symbolic arguments")


class Enumerated:
    def __init__(self, seq):
        self.seq = seq


class ArgLoop(LoopContract):
    """for index, arg in enumerate(args): graph.add_edge(self._gather(sf, arg), call, PositionalArg(index))    (same for keywords)
    invariant at t:  E = E_entry + {(G(i), c, key(i)) | 0 <= i < t},  N = N_entry + {G(i) | i < t}  (+ c)"""

    def __init__(self, u, which):
        self.u, self.which = u, which
        self.t = None

    def key_t(self, i):
        u = self.u
        return M.pos(i) if self.which == "pos" else M.kw(u["kwname"](i), i)

    def G(self, i):
        return (self.u["Gpos"] if self.which == "pos" else self.u["Gkw"])(i)

    def inv(self, t):
        u = self.u
        g = u["graph"]
        a, b, k, i = z3.Const("a!al", NodeS), z3.Const("b!al", NodeS), z3.Const("k!al", M.Key), z3.Const("i!al", IntS)
        hit = z3.Exists([i], z3.And(0 <= i, i < t, a == self.G(i), b == u["ct"], k == self.key_t(i)))
        x = z3.Const("x!al", NodeS)
        hitn = z3.Exists([i], z3.And(0 <= i, i < t, x == self.G(i)))
        from .gstate import member

        return z3.And(z3.ForAll([a, b, k], M.esel(g.E, a, b, k) == z3.Or(M.esel(self.E0, a, b, k), hit)),
                      z3.ForAll([x], member(g.N, x) == z3.Or(member(self.N0, x), hitn)))

    def establish(self, ctx, it, locs):
        if not isinstance(it, Enumerated) or it.seq.tag != ("args" if self.which == "pos" else "kwargs.items()"):
            raise Unsupported("loop does not enumerate the expected argument sequence")
        g = self.u["graph"]
        self.E0, self.N0 = g.E, g.N
        ctx.check(f"{self.which}-loop/establish", self.inv(z3.IntVal(0)))

    def havoc(self, ctx, it, locs):
        g = self.u["graph"]
        self.n = it.seq.n
        self.t = ctx.fresh(IntS, "t")
        ctx.assume(z3.And(0 <= self.t, self.t <= self.n))
        g.E, g.N = ctx.fresh(M.EdgeS, "E"), ctx.fresh(g.N.sort(), "N")
        ctx.assume(self.inv(self.t))
        return {}

    def iterate(self, ctx, it):
        u = self.u
        if ctx.branch(self.t < self.n, f"more-{self.which}-arguments"):
            idx = SInt(ctx, self.t)
            arg = ArgVal(self.which, self.t)
            if self.which == "pos":
                self.current = (idx, arg)
            else:
                from .argnodes import SName

                self.current = (idx, (SName(u["kwname"](self.t)), arg))
            # key facts of the key the code is expected to build (per instance, see mgraph.pos_key)
            M.pos_key(ctx, self.t) if self.which == "pos" else M.kw_key(ctx, u["kwname"](self.t), self.t)
            return True
        return False

    def preserve(self, ctx, locs):
        ctx.check(f"{self.which}-loop/preserve", self.inv(self.t + 1))

    def at_exit(self, ctx, it):
        ctx.assume(self.t == self.n)


class ArgVal:
    def __init__(self, which, i):
        self.which, self.i = which, i


@unit("gather.Plan._call[unbounded]", props=["C02", "C19"], functions=[(PL, "Plan._call")],
      assumptions=["R11: *args / **kwargs made explicit and bound to symbolic sequences of symbolic length", "T5 MultiDiGraph.add_node/add_edge",
                   "Plan._gather returns a node of the plan (gather.Plan._gather); keyword names are pairwise distinct (python)"],
      min_obligations=8)
def call_unbounded_unit(ctx):
    from .gstate import member
    from .plumbing import BindingGraph

    cls = real_classes()
    objs = M.Objects(ctx, cls)
    for a in M.key_axioms():
        ctx.assume(a)
    g = BindingGraph(ctx, objs, tag="plan.graph")
    g.created = []
    ctx.assume(g.wf())
    N0, E0 = g.N, g.E
    p, q = ctx.fresh(IntS, "p"), ctx.fresh(IntS, "q")
    ctx.assume(z3.And(p >= 0, q >= 0))
    Gpos, Gkw = z3.Function("Gpos", IntS, NodeS), z3.Function("Gkw", IntS, NodeS)
    kwname = z3.Function("kwname", IntS, M.Name)
    u = {"graph": g, "Gpos": Gpos, "Gkw": Gkw, "kwname": kwname}
    SF, FN, SCOPE = object(), (lambda *a, **k: None), ("sc", 1)
    gathered = []

    class GNode:
        """the node _gather returned for an argument (an existing node of the plan or a literal / gather call it just added)"""

    def gather_stub(self_, stack_frame, value):
        if not isinstance(value, ArgVal):
            raise Unsupported("_gather of something else than a loop element")
        t = (Gpos if value.which == "pos" else Gkw)(value.i)
        o = cls["Literal"].__new__(cls["Literal"])
        objs.bind(o, t)
        # contract of _gather as far as the graph is concerned: the result is a node of the plan; the nodes / edges it may
        # have added lie strictly upstream of the result and never touch c (c is not an argument of itself: it was created
        # after the argument values existed) - the frame part is stated on the final graph below
        gathered.append((stack_frame, value))
        ctx.assume(t != u["ct"])
        return o

    class PlanSelf2:
        graph = g
        _scope = SCOPE
        _gather = gather_stub

    vc = VC(ctx)
    loops = {"pos": ArgLoop(u, "pos"), "kw": ArgLoop(u, "kw")}

    def resolve(key, it):
        if isinstance(it, Enumerated):
            return loops["pos" if it.seq.tag == "args" else "kw"]
        return None

    vc.resolve_loop = resolve

    def _enumerate(x, *a):
        if a or not isinstance(x, SeqProxy):
            raise Unsupported("enumerate of something else than the arguments")
        return Enumerated(x)

    env = base_env(PL)
    env.update({"__vc": vc, "Call": cls["Call"], "PositionalArg": cls["PositionalArg"], "KeywordArg": cls["KeywordArg"], "enumerate": _enumerate})
    call = get(PL, "Plan._call", cut_loops="auto", explicit_varargs=True).compile_into(env)
    s = PlanSelf2()
    # the new Call object is bound to a fresh term when it is added to the graph (BindingGraph); its term must be known to the loop
    # contracts: pre-allocate it
    ct = ctx.fresh(NodeS, "c")
    ctx.assume(z3.Not(member(N0, ct)))
    a, b, k = z3.Const("a!pc", NodeS), z3.Const("b!pc", NodeS), z3.Const("k!pc", M.Key)
    ctx.assume(z3.ForAll([a, k], z3.And(z3.Not(M.esel(E0, a, ct, k)), z3.Not(M.esel(E0, ct, a, k)))))
    u["ct"] = ct
    # c is created inside _call and not yet returned: no argument value can mention it, so no gathered node is c
    j0 = z3.Const("j!pc", IntS)
    ctx.assume(z3.ForAll([j0], z3.And(Gpos(j0) != ct, Gkw(j0) != ct)))
    orig_nt = g._nt

    def _nt(o):
        if type(o) is cls["Call"] and id(o) not in objs.node_terms:
            objs.bind(o, ct)
            g.created.append(o)
            return ct
        return orig_nt(o)

    g._nt = _nt
    c = call(s, SF, FN, SeqProxy(objs, p, "args"), SeqProxy(objs, q, "kwargs"))
    ok = type(c) is cls["Call"] and c.fn is FN and c.scope is SCOPE and c.stack_frame is SF and g.created == [c]
    ctx.check("post:returns-ONE-new-Call(fn,scope=plan._scope,stack_frame)", bool(ok), props=["C02", "C19"])
    if not ok:
        return "bad"
    ctx.check("every-argument-gathered-with-the-call's-own-stack-frame", bool(all(sf is SF for sf, _ in gathered)), props=["C19"])
    i = z3.Const("i!pc", IntS)
    hit_pos = z3.Exists([i], z3.And(0 <= i, i < p, a == Gpos(i), b == ct, k == M.pos(i)))
    hit_kw = z3.Exists([i], z3.And(0 <= i, i < q, a == Gkw(i), b == ct, k == M.kw(kwname(i), i)))
    ctx.check("post:E'==E+{(gather(arg_i),c,Pos(i))|i<p}+{(gather(kwarg_j),c,Kw(name_j,j))|j<q}",
              z3.ForAll([a, b, k], M.esel(g.E, a, b, k) == z3.Or(M.esel(E0, a, b, k), hit_pos, hit_kw)))
    # WF_args(c) in set form (precondition of get_argument_nodes via argnodes.wf-set=>wf-seq)
    kf = z3.ForAll([i], z3.And(M.kind(M.pos(i)) == 1, M.kidx(M.pos(i)) == i, M.kind(M.kw(kwname(i), i)) == 2, M.kidx(M.kw(kwname(i), i)) == i,
                               M.kname(M.kw(kwname(i), i)) == kwname(i)))
    ctx.assume(kf)  # definition of the key constructors (mgraph.pos_key / kw_key), here for all indices at once
    ctx.check("post:WF_args(c):every-positional-in-edge-of-c-is-(gather(arg_i),Pos(i))-for-exactly-one-i<p",
              z3.ForAll([a, k], z3.Implies(z3.And(M.esel(g.E, a, ct, k), M.kind(k) == 1), z3.And(0 <= M.kidx(k), M.kidx(k) < p, a == Gpos(M.kidx(k))))))
    ctx.check("post:WF_args(c):for-every-i<p-the-edge-(gather(arg_i),c,Pos(i))-exists",
              z3.ForAll([i], z3.Implies(z3.And(0 <= i, i < p), M.esel(g.E, Gpos(i), ct, M.pos(i)))))
    ctx.check("post:WF_args(c):every-keyword-in-edge-of-c-is-(gather(kwarg_j),Kw(name_j,j))-for-exactly-one-j<q",
              z3.ForAll([a, k], z3.Implies(z3.And(M.esel(g.E, a, ct, k), M.kind(k) == 2),
                                           z3.And(0 <= M.kidx(k), M.kidx(k) < q, a == Gkw(M.kidx(k)), M.kname(k) == kwname(M.kidx(k))))))
    ctx.check("post:WF_args(c):for-every-j<q-the-edge-(gather(kwarg_j),c,Kw(name_j,j))-exists",
              z3.ForAll([i], z3.Implies(z3.And(0 <= i, i < q), M.esel(g.E, Gkw(i), ct, M.kw(kwname(i), i)))))
    ctx.check("post:c-has-no-other-in-edge-and-no-out-edge", z3.ForAll([a, k], z3.And(z3.Implies(M.esel(g.E, a, ct, k), z3.Or(M.kind(k) == 1, M.kind(k) == 2)),
                                                                                    z3.Not(M.esel(g.E, ct, a, k)))))
    return "ok"
