"""Layer 2 of C03 / C05 / C08: lemmas OVER THE CONTRACTS (none of this mentions code) that carry the per-function
postconditions through arbitrary histories.  Every lemma is a first-order verification condition discharged by z3 for graphs of
any size (sort Node uninterpreted); inductions over the DAG are rank inductions whose STEP is the VC (hypothesis assumed for
the predecessors / the nearest stored ancestors), inductions over the history are the invariant rule (initial state: nothing
stored; every transition preserves J).  The two rules themselves (L-IND, L-INV) are proved once and for all in Lean
(lemmas/Induction.lean, thorough tier); instantiating them with the step VCs below is by hand.

Store world w (what the contracts' store view talks about), per node n:
   reg(n), src(n)      n has a value store / it is a registry.source                       (static)
   has_w(n), mt_w(n)   something is stored / its modified time (an instant, C18)
   fresh_w             fresh_time (optional)
   ver_w(n)            GHOST: version counter of the store's content (bumped by every write / source update)
   basis_w(n, u)       GHOST: the version of u's content that n's stored content was computed from
Spec functions proved on the code by contracts/stale.py (predecessor recursion, statement of C05):
   A_w(n) = newest M_w(p) over the predecessors carrying one;  Stale_w(n);  M_w(n)          (see contracts/stale.py)
up(u, n): u is a NEAREST stored ancestor of n (reached through unstored nodes only) - recursive definition over predecessors.

   H1  L-STALE-UP     Stale_w in 'nearest stored ancestor' form:  for stored n
                          not Stale(n)  <=>  has(n) and (mt(n) >= fresh) [unless a pure source] and for all u in up(n):
                                              not Stale(u) and mt(u) <= mt(n)              (rank-induction step + corollary)
   H2  J is inductive  J(w) := for every stored non-source n with has(n): if every u in up(n) has a value and mt(u) <= mt(n)
                                then basis(n,u) = ver(u) for every u in up(n)               ('locally consistent whenever the
                                times look consistent'),  together with  basis(n,u) <= ver(u).
                        Preserved by:  a store write that took effect (value computed from the CURRENT contents of up(n) -
                        H-ATOMIC below -, new time above every existing time),  a source update,  a deletion,  a change of
                        fresh_time;  a failed / cut run is a prefix of such writes (C01/C06 down-closure, C11 atomic store
                        writes), so J holds after every cut.   No precondition on the order of writes is needed.
   H3  J and not Stale(n)  =>  Correct(n)      Correct(n) := has(n) and (n is a source or for all u in up(n): basis(n,u) = ver(u)
                                                              and Correct(u))              (rank-induction step)
        = first sentence of C08 and the 'stored values' half of C03: whatever a later run treats as up to date IS the from-scratch
        value (H-DET: deterministic call functions, so equal input versions give equal contents).
   H4  after a successful run  (run summary from C05/C04/C09/C01: exactly the stale stored nodes were rewritten, each once, every
        upstream rewrite before the downstream read, times increasing)  every stored node is consistent with the final contents
        of its nearest stored ancestors and NOT stale (so a repeated run does nothing: C05 last sentence; fresh_time not in the future).
   H5  frame: a write to n0 changes Stale / M of no node that n0 does not reach (rank-induction step); hence a value completely
        written before a cut stays up to date until something upstream changes or fresh_time advances (C08 second sentence).
Hypotheses taken from other contracts (named in the evidence): H-ATOMIC = between the read-backs that feed compute(n) and write(n)
 no store in up(n) is written (C09 edges write(u) -> read(u) -> ... -> write(n), C04 at most once, C01); H-TIME = modified times
 increase with every write (statement of C03); H-DET; dependent sources whose store is written by a side effect are outside the
 store view (Part II, C03 scope limit).
"""
from ujvc.units import unit
from ujvc.z3env import z3

from . import gstate as G
from .gstate import Node, member

IntS, BoolS = z3.IntSort(), z3.BoolSort()
reg = z3.Function("reg", Node, BoolS)
src = z3.Function("src", Node, BoolS)
rank = z3.Function("rank", Node, IntS)
up = z3.Function("up", Node, Node, BoolS)
reach = z3.Function("hreach", Node, Node, BoolS)  # reach(a, b): a path a ->* b (reflexive)


def E(p, n):
    return member(G.pred(n), p)


def _c(name, sort=Node):
    return z3.Const(name, sort)


class W:
    """one store world: its function symbols and the defining axioms of the spec functions"""

    def __init__(self, tag):
        f = lambda nm, *s: z3.Function(f"{nm}_{tag}", *s)  # noqa: E731
        self.tag = tag
        self.has, self.mt, self.ver = f("has", Node, BoolS), f("mt", Node, IntS), f("ver", Node, IntS)
        self.basis = f("basis", Node, Node, IntS)
        self.hasFresh, self.fresh = z3.Bool(f"hasFresh_{tag}"), z3.Int(f"fresh_{tag}")
        self.Stale, self.hasM, self.M = f("Stale", Node, BoolS), f("hasM", Node, BoolS), f("M", Node, IntS)
        self.hasA, self.A = f("hasA", Node, BoolS), f("A", Node, IntS)

    def local(self, n):
        """the 'own store' disjunct of Stale(n) for a stored n (statement of C05)"""
        older = z3.Or(z3.And(self.hasA(n), self.A(n) > self.mt(n)), z3.And(self.hasFresh, self.fresh > self.mt(n)))
        return z3.Or(z3.Not(self.has(n)), z3.And(z3.Or(self.hasA(n), z3.Not(src(n))), older))

    def defs_at(self, n):
        """defining equations of A, Stale, M at node n (recursion over the predecessors of n)"""
        p = _c("p!d")
        carried = lambda q: z3.And(E(q, n), z3.Not(self.Stale(q)), self.hasM(q))  # noqa: E731
        return z3.And(
            self.hasA(n) == z3.Exists([p], carried(p)),
            z3.ForAll([p], z3.Implies(carried(p), self.M(p) <= self.A(n))),
            z3.Implies(self.hasA(n), z3.Exists([p], z3.And(carried(p), self.M(p) == self.A(n)))),
            self.Stale(n) == z3.Or(z3.Exists([p], z3.And(E(p, n), self.Stale(p))), z3.And(reg(n), self.local(n))),
            z3.Implies(z3.Not(self.Stale(n)), z3.If(reg(n), z3.And(self.hasM(n), self.M(n) == self.mt(n)),
                                                   z3.And(self.hasM(n) == self.hasA(n), z3.Implies(self.hasA(n), self.M(n) == self.A(n))))),
        )

    def defs(self):
        n = _c("n!d")
        return z3.ForAll([n], self.defs_at(n))

    def up_form(self, n):
        """H1 at n"""
        u = _c("u!uf")
        return z3.And(
            self.Stale(n) == z3.Or(z3.Exists([u], z3.And(up(u, n), self.Stale(u))), z3.And(reg(n), self.local(n))),
            z3.Implies(z3.Not(self.Stale(n)), z3.And(
                self.hasA(n) == z3.Exists([u], up(u, n)),
                z3.ForAll([u], z3.Implies(up(u, n), z3.And(self.has(u), self.mt(u) <= self.A(n)))),
                z3.Implies(self.hasA(n), z3.Exists([u], z3.And(up(u, n), self.mt(u) == self.A(n)))))),
        )

    def J(self):
        n, u, v = _c("n!J"), _c("u!J"), _c("v!J")
        looks_ok = z3.ForAll([v], z3.Implies(up(v, n), z3.And(self.has(v), self.mt(v) <= self.mt(n))))
        return z3.And(
            z3.ForAll([n, u], z3.Implies(z3.And(reg(n), z3.Not(src(n)), self.has(n), up(u, n), looks_ok), self.basis(n, u) == self.ver(u))),
            z3.ForAll([n, u], self.basis(n, u) <= self.ver(u)),
        )


def static_axioms():
    p, n, u, a, b, c = _c("p!s"), _c("n!s"), _c("u!s"), _c("a!s"), _c("b!s"), _c("c!s")
    return [
        z3.ForAll([p, n], z3.Implies(E(p, n), rank(p) < rank(n))),                                   # DAG (L-RANK)
        z3.ForAll([n], z3.Implies(src(n), reg(n))),
        # up: nearest stored ancestors (recursive definition over the predecessors)
        z3.ForAll([u, n], up(u, n) == z3.Exists([p], z3.And(E(p, n), z3.Or(z3.And(reg(p), u == p), z3.And(z3.Not(reg(p)), up(u, p)))))),
        # the two introduction rules of up (consequences of the definition, stated separately so that E-matching finds them)
        z3.ForAll([p, n], z3.Implies(z3.And(E(p, n), reg(p)), up(p, n))),
        z3.ForAll([u, p, n], z3.Implies(z3.And(E(p, n), z3.Not(reg(p)), up(u, p)), up(u, n))),
        # reach: reflexive-transitive closure facts that are used (both directions of unfolding at the last edge)
        z3.ForAll([a], reach(a, a)),
        z3.ForAll([a, b, c], z3.Implies(z3.And(reach(a, b), E(b, c)), reach(a, c))),
        z3.ForAll([a, c], z3.Implies(z3.And(reach(a, c), a != c), z3.Exists([b], z3.And(reach(a, b), E(b, c))))),
    ]


def up_facts():
    """consequences of the definition of up that need their own (trivial rank) induction: stated as lemmas, each proved by unit H0"""
    u, n = _c("u!f"), _c("n!f")
    return [z3.ForAll([u, n], z3.Implies(up(u, n), z3.And(reg(u), rank(u) < rank(n), reach(u, n), u != n)))]


# ---------------------------------------------------------------------------------------------------------------------
@unit("history.H0-up-facts", props=["C03", "C05", "C08"], functions=[], assumptions=["lemma over the contracts (rank-induction step, L-IND)"], min_obligations=1, kind="lemma", prove_timeout_ms=60000)
def h0(ctx):
    for a in static_axioms():
        ctx.assume(a)
    n, u, p = ctx.fresh(Node, "n"), _c("u!h0"), _c("p!h0")
    fact = lambda x: z3.ForAll([u], z3.Implies(up(u, x), z3.And(reg(u), rank(u) < rank(x), reach(u, x), u != x)))  # noqa: E731
    ctx.assume(z3.ForAll([p], z3.Implies(E(p, n), fact(p))))          # induction hypothesis for the predecessors
    ctx.check("step:up(u,n)=>u-is-stored,strictly-upstream-of-n(rank,reach)", fact(n))
    return "ok"


@unit("history.H1-stale-in-nearest-stored-ancestor-form", props=["C03", "C05", "C08"], functions=[],
      assumptions=["lemma over the contracts: the predecessor-recursive Stale/M spec proved on the code (contracts/stale.py) - rank-induction step"], min_obligations=2, kind="lemma", prove_timeout_ms=60000)
def h1(ctx):
    for a in static_axioms() + up_facts():
        ctx.assume(a)
    w = W("w")
    ctx.assume(w.defs())
    n, p, u = ctx.fresh(Node, "n"), _c("p!h1"), _c("u!h1")
    ctx.assume(z3.ForAll([p], z3.Implies(E(p, n), w.up_form(p))))      # IH
    ctx.check("step:Stale(n)<=>some-nearest-stored-ancestor-stale-or-own-store-out-of-date", w.up_form(n).arg(0))
    # second part, spelled out (each step is assumed by the next)
    car = lambda q: z3.And(E(q, n), z3.Not(w.Stale(q)), w.hasM(q))  # noqa: E731
    ns = z3.Not(w.Stale(n))
    ctx.check("b/1:a-stored-predecessor-that-carries-a-time-is-a-nearest-stored-ancestor", z3.ForAll([p], z3.Implies(z3.And(car(p), reg(p)), up(p, n))))
    ctx.check("b/2:an-unstored-predecessor-that-carries-a-time-has-a-nearest-stored-ancestor(which-is-one-of-n's)",
              z3.ForAll([p], z3.Implies(z3.And(ns, car(p), z3.Not(reg(p))), z3.Exists([u], z3.And(up(u, p), up(u, n))))))
    ctx.check("b/3:hasA(n)=>n-has-a-nearest-stored-ancestor", z3.Implies(z3.And(ns, w.hasA(n)), z3.Exists([u], up(u, n))))
    ctx.check("b/4:n-has-a-nearest-stored-ancestor=>hasA(n)", z3.Implies(z3.And(ns, z3.Exists([u], up(u, n))), w.hasA(n)))
    ctx.check("step:not-Stale(n)=>A(n)-is-the-newest-time-among-the-nearest-stored-ancestors(all-of-which-hold-a-value)", w.up_form(n).arg(1))
    # corollary used by H3-H5 (no induction): a stored n that is not stale dominates its nearest stored ancestors, none of which is stale
    ctx.assume(w.up_form(n))
    ctx.check("corollary:stored-and-not-stale=>has(n)-and-every-nearest-stored-ancestor-is-not-stale,holds-a-value,and-is-not-newer",
              z3.Implies(z3.And(reg(n), z3.Not(w.Stale(n))),
                         z3.And(w.has(n), z3.ForAll([u], z3.Implies(up(u, n), z3.And(z3.Not(w.Stale(u)), w.has(u), w.mt(u) <= w.mt(n)))))))
    ctx.check("corollary:no-stored-ancestor=>no-upstream-time-and-Stale-is-the-own-store-disjunct",
              z3.And(z3.Implies(z3.And(z3.Not(w.Stale(n)), z3.Not(z3.Exists([u], up(u, n)))), z3.Not(w.hasA(n))),
                     z3.Implies(z3.And(reg(n), z3.Not(z3.Exists([u], up(u, n)))), w.Stale(n) == w.local(n))))
    ctx.check("corollary:converse-for-a-stored-non-source",
              z3.Implies(z3.And(reg(n), z3.Not(src(n)), w.has(n), z3.Or(z3.Not(w.hasFresh), w.fresh <= w.mt(n)),
                                z3.ForAll([u], z3.Implies(up(u, n), z3.And(z3.Not(w.Stale(u)), w.mt(u) <= w.mt(n))))),
                         z3.Not(w.Stale(n))))
    return "ok"


def up_corollary(w):
    """H1's corollaries for every node (quantified), to be assumed by the later lemmas"""
    n, u = _c("n!uc"), _c("u!uc")
    return [
        z3.ForAll([n], z3.Implies(z3.And(reg(n), z3.Not(w.Stale(n))),
                                  z3.And(w.has(n), z3.ForAll([u], z3.Implies(up(u, n), z3.And(z3.Not(w.Stale(u)), w.has(u), w.mt(u) <= w.mt(n))))))),
        z3.ForAll([n], z3.Implies(z3.And(reg(n), z3.Not(src(n)), w.has(n), z3.Or(z3.Not(w.hasFresh), w.fresh <= w.mt(n)),
                                         z3.ForAll([u], z3.Implies(up(u, n), z3.And(z3.Not(w.Stale(u)), w.mt(u) <= w.mt(n))))),
                                  z3.Not(w.Stale(n)))),
        z3.ForAll([n], z3.Implies(z3.Not(reg(n)), w.Stale(n) == z3.Exists([u], z3.And(up(u, n), w.Stale(u))))),
        # a node without stored ancestors carries no upstream time (H1, second part, for the empty case)
        z3.ForAll([n], z3.Implies(z3.And(z3.Not(w.Stale(n)), z3.Not(z3.Exists([u], up(u, n)))), z3.Not(w.hasA(n)))),
        z3.ForAll([n], z3.Implies(z3.And(reg(n), z3.Not(z3.Exists([u], up(u, n)))), w.Stale(n) == w.local(n))),
    ]


def same_except(w, w2, n0, fields):
    """frame of a transition: every ghost / store field of every node other than n0 is unchanged; of n0 only `fields` change"""
    n, u = _c("n!fr"), _c("u!fr")
    out = []
    for name in ("has", "mt", "ver"):
        f, f2 = getattr(w, name), getattr(w2, name)
        out.append(z3.ForAll([n], z3.Implies(z3.Or(n != n0, name not in fields), f2(n) == f(n))))
    out.append(z3.ForAll([n, u], z3.Implies(z3.Or(n != n0, "basis" not in fields), w2.basis(n, u) == w.basis(n, u))))
    return out


@unit("history.H2-J-is-inductive", props=["C03", "C08"], functions=[],
      assumptions=["lemma over the contracts", "H-ATOMIC (C09 ordering edges, C04, C01): the value written to n was computed from the current contents of its nearest stored ancestors",
                   "H-TIME (statement of C03): a write's modified time is above every existing modified time", "C11: a store write takes effect completely or not at all"],
      min_obligations=5, kind="lemma", prove_timeout_ms=60000)
def h2(ctx):
    for a in static_axioms() + up_facts():
        ctx.assume(a)
    w, w2 = W("w"), W("w2")
    n0 = ctx.fresh(Node, "n0")
    now = ctx.fresh(IntS, "now")
    n, u = _c("n!h2"), _c("u!h2")
    ctx.assume(w.J())
    newer = z3.ForAll([n], z3.Implies(w.has(n), w.mt(n) < now))                                   # H-TIME
    k = ctx.choose(5, "transition")
    if k == 0:
        ctx.check("initial-state(nothing-stored)-satisfies-J", z3.Implies(z3.And(z3.ForAll([n], z3.Not(w2.has(n))), z3.ForAll([n, u], w2.basis(n, u) <= w2.ver(u))), w2.J()))
        return "init"
    if k == 1:    # a store write to the stored non-source n0 that took effect
        ctx.assume(z3.And(reg(n0), z3.Not(src(n0)), newer))
        for f in same_except(w, w2, n0, ("has", "mt", "ver", "basis")):
            ctx.assume(f)
        ctx.assume(z3.And(w2.has(n0), w2.mt(n0) == now, w2.ver(n0) == w.ver(n0) + 1))
        ctx.assume(z3.ForAll([u], z3.If(up(u, n0), w2.basis(n0, u) == w.ver(u), w2.basis(n0, u) == w.basis(n0, u))))   # H-ATOMIC
        ctx.check("J-preserved-by:store-write-that-took-effect(any-order,any-cut-point)", w2.J())
    elif k == 2:  # the user updates a source
        ctx.assume(z3.And(src(n0), newer))
        for f in same_except(w, w2, n0, ("has", "mt", "ver")):
            ctx.assume(f)
        ctx.assume(z3.And(w2.has(n0), w2.mt(n0) == now, w2.ver(n0) == w.ver(n0) + 1))
        ctx.check("J-preserved-by:source-update", w2.J())
    elif k == 3:  # a stored value is deleted
        ctx.assume(reg(n0))
        for f in same_except(w, w2, n0, ("has",)):
            ctx.assume(f)
        ctx.assume(z3.Not(w2.has(n0)))
        ctx.check("J-preserved-by:deletion-of-a-stored-value", w2.J())
    else:         # fresh_time changes / a run is cut before any write / a store operation raises without effect
        for f in same_except(w, w2, n0, ()):
            ctx.assume(f)
        ctx.check("J-preserved-by:fresh_time-change-or-an-operation-without-effect", w2.J())
    return "ok"


def correct_def(w, Correct):
    n, u = _c("n!cd"), _c("u!cd")
    return z3.ForAll([n], Correct(n) == z3.And(w.has(n), z3.Or(src(n), z3.ForAll([u], z3.Implies(up(u, n), z3.And(w.basis(n, u) == w.ver(u), Correct(u)))))))


@unit("history.H3-treated-as-up-to-date=>from-scratch-value", props=["C03", "C08"], functions=[],
      assumptions=["lemma over the contracts (rank-induction step over the nearest stored ancestors)", "H1", "H2 (J holds in every reachable world)",
                   "H-DET: deterministic call functions - equal input versions give equal contents, so Correct(n) means the stored value equals the from-scratch value"],
      min_obligations=1, kind="lemma", prove_timeout_ms=60000)
def h3(ctx):
    for a in static_axioms() + up_facts():
        ctx.assume(a)
    w = W("w")
    Correct = z3.Function("Correct", Node, BoolS)
    ctx.assume(w.defs())
    for a in up_corollary(w):
        ctx.assume(a)
    ctx.assume(w.J())
    ctx.assume(correct_def(w, Correct))
    n, u = ctx.fresh(Node, "n"), _c("u!h3")
    ctx.assume(z3.ForAll([u], z3.Implies(up(u, n), z3.Implies(z3.Not(w.Stale(u)), Correct(u)))))      # IH (up(u,n) => rank(u) < rank(n))
    ctx.check("step:J-and-stored-and-not-Stale(n)=>the-stored-value-of-n-is-the-from-scratch-value", z3.Implies(z3.And(reg(n), z3.Not(w.Stale(n))), Correct(n)))
    return "ok"


@unit("history.H4-after-a-successful-run", props=["C03", "C05"], functions=[],
      assumptions=["lemma over the contracts", "run summary (C05: exactly the stale stored non-sources are rewritten; C04: each once; C09/C01: an upstream rewrite precedes the downstream read; H-TIME)",
                   "sources hold a value and are not stale when the run succeeds (a missing source fails the run)", "fresh_time is not later than the times of this run's writes",
                   "scope limit: sources have no predecessors (dependent sources are outside the store view; the probe skips the idempotence clause for them)"],
      min_obligations=3, kind="lemma", prove_timeout_ms=60000)
def h4(ctx):
    for a in static_axioms() + up_facts():
        ctx.assume(a)
    w, e = W("w"), W("e")   # world at the start of the run / at its successful end
    ctx.assume(w.defs())
    ctx.assume(e.defs())
    for a in up_corollary(w) + up_corollary(e):
        ctx.assume(a)
    ctx.assume(w.J())
    n, u, x = _c("n!h4"), _c("u!h4"), _c("x!h4")
    Wr = lambda m: z3.And(reg(m), z3.Not(src(m)), w.Stale(m))      # noqa: E731   the nodes rewritten by the run (C05)
    # run summary
    ctx.assume(z3.ForAll([n], z3.Implies(src(n), z3.And(w.has(n), z3.Not(w.Stale(n))))))
    ctx.assume(z3.ForAll([n], z3.Implies(z3.Not(Wr(n)), z3.And(e.has(n) == w.has(n), e.mt(n) == w.mt(n), e.ver(n) == w.ver(n)))))
    ctx.assume(z3.ForAll([n, u], z3.Implies(z3.Not(Wr(n)), e.basis(n, u) == w.basis(n, u))))
    ctx.assume(z3.ForAll([n], z3.Implies(Wr(n), z3.And(e.has(n), e.ver(n) == w.ver(n) + 1))))
    ctx.assume(z3.ForAll([n, x], z3.Implies(z3.And(Wr(n), w.has(x)), w.mt(x) < e.mt(n))))                       # H-TIME w.r.t. the start
    ctx.assume(z3.ForAll([n, u], z3.Implies(z3.And(Wr(n), Wr(u), up(u, n)), e.mt(u) < e.mt(n))))                  # upstream rewritten first
    ctx.assume(z3.ForAll([n, u], z3.Implies(z3.And(Wr(n), up(u, n)), e.basis(n, u) == e.ver(u))))               # H-ATOMIC + each written once
    ctx.assume(z3.And(e.hasFresh == w.hasFresh, e.fresh == w.fresh, z3.ForAll([n], z3.Implies(z3.And(Wr(n), e.hasFresh), e.fresh <= e.mt(n)))))
    ctx.assume(z3.ForAll([n, x], z3.Implies(src(n), z3.Not(E(x, n)))))      # sources are pure: dependent sources are outside the store view (scope limit)
    cons = z3.ForAll([n, u], z3.Implies(z3.And(reg(n), z3.Not(src(n)), up(u, n)), z3.And(e.has(n), e.has(u), e.basis(n, u) == e.ver(u))))
    ctx.check("after-a-successful-run:every-stored-value-was-computed-from-the-FINAL-contents-of-its-nearest-stored-ancestors(=>from-scratch-by-rank-induction)", cons)
    # not stale at the end: rank-induction step
    n1 = ctx.fresh(Node, "n1")
    ctx.assume(z3.ForAll([u], z3.Implies(up(u, n1), z3.Not(e.Stale(u)))))                                        # IH
    ctx.check("end/1:a-nearest-stored-ancestor-that-was-not-rewritten-held-a-value-at-the-start-and-keeps-its-time",
              z3.ForAll([u], z3.Implies(z3.And(up(u, n1), z3.Not(Wr(u))), z3.And(w.has(u), e.mt(u) == w.mt(u), e.has(u)))))
    ctx.check("end/2:rewritten=>newer-than-every-nearest-stored-ancestor", z3.Implies(Wr(n1), z3.ForAll([u], z3.Implies(up(u, n1), e.mt(u) <= e.mt(n1)))))
    ctx.check("end/3:not-rewritten=>nothing-upstream-was-rewritten-and-the-times-still-dominate",
              z3.Implies(z3.And(reg(n1), z3.Not(src(n1)), z3.Not(Wr(n1))), z3.And(e.has(n1), z3.Or(z3.Not(e.hasFresh), e.fresh <= e.mt(n1)),
                                                                               z3.ForAll([u], z3.Implies(up(u, n1), e.mt(u) <= e.mt(n1))))))
    ctx.check("end/4:a-source-is-not-out-of-date", z3.Implies(src(n1), z3.Not(e.Stale(n1))))
    ctx.check("step:after-a-successful-run-no-stored-node-is-out-of-date(a-repeated-run-does-nothing)", z3.Implies(reg(n1), z3.Not(e.Stale(n1))))
    ctx.check("step:after-a-successful-run-no-unstored-node-is-downstream-of-an-out-of-date-value", z3.Implies(z3.Not(reg(n1)), z3.Not(e.Stale(n1))))
    return "ok"


@unit("history.H5-frame-of-a-write", props=["C08", "C05"], functions=[],
      assumptions=["lemma over the contracts (rank-induction step)", "H-TIME"], min_obligations=2, kind="lemma", prove_timeout_ms=60000)
def h5(ctx):
    for a in static_axioms() + up_facts():
        ctx.assume(a)
    w, w2 = W("w"), W("w2")
    ctx.assume(w.defs())
    ctx.assume(w2.defs())
    n0 = ctx.fresh(Node, "n0")
    now = ctx.fresh(IntS, "now")
    n, p, u = _c("n!h5"), _c("p!h5"), _c("u!h5")
    ctx.assume(z3.And(reg(n0), z3.ForAll([n], z3.Implies(w.has(n), w.mt(n) < now))))
    for f in same_except(w, w2, n0, ("has", "mt", "ver", "basis")):
        ctx.assume(f)
    ctx.assume(z3.And(w2.has(n0), w2.mt(n0) == now, w2.hasFresh == w.hasFresh, w2.fresh == w.fresh))
    same = lambda x: z3.And(w2.Stale(x) == w.Stale(x), z3.Implies(z3.Not(w.Stale(x)), z3.And(w2.hasM(x) == w.hasM(x), z3.Implies(w.hasM(x), w2.M(x) == w.M(x)))))  # noqa: E731
    m = ctx.fresh(Node, "m")
    ctx.assume(z3.Not(reach(n0, m)))
    ctx.assume(z3.ForAll([p], z3.Implies(z3.And(E(p, m), z3.Not(reach(n0, p))), same(p))))                        # IH
    # the proof is spelled out as a chain of small steps (each is assumed by the next one)
    car = lambda W_, q: z3.And(E(q, m), z3.Not(W_.Stale(q)), W_.hasM(q))  # noqa: E731
    ctx.check("frame/1:every-predecessor-of-m-is-unreachable-from-n0,so-the-hypothesis-applies-to-it", z3.ForAll([p], z3.Implies(E(p, m), same(p))))
    ctx.check("frame/2:the-same-predecessors-carry-a-time", z3.ForAll([p], car(w, p) == car(w2, p)))
    ctx.check("frame/3a:hasA(m)-unchanged", w.hasA(m) == w2.hasA(m))
    ctx.check("frame/3b:A(m)<=A'(m)", z3.Implies(w.hasA(m), w.A(m) <= w2.A(m)))
    ctx.check("frame/3c:A'(m)<=A(m)", z3.Implies(w.hasA(m), w2.A(m) <= w.A(m)))
    ctx.check("frame/3:A(m)-unchanged", z3.And(w.hasA(m) == w2.hasA(m), z3.Implies(w.hasA(m), w.A(m) == w2.A(m))))
    ctx.check("frame/4:own-store-disjunct-unchanged(m-is-not-n0)", w.local(m) == w2.local(m))
    ctx.check("frame/5:Stale(m)-unchanged", w.Stale(m) == w2.Stale(m))
    ctx.check("step:a-write-to-n0-changes-Stale/M-of-no-node-that-n0-does-not-reach", same(m))
    # C08, second sentence: right after its write took effect, with every nearest stored ancestor up to date, n0 is up to date
    for a in up_corollary(w2):
        ctx.assume(a)
    ctx.check("a-value-completely-written-while-its-nearest-stored-ancestors-were-up-to-date-is-treated-as-up-to-date(until-something-upstream-changes-or-fresh_time-advances)",
              z3.Implies(z3.And(z3.Not(src(n0)), z3.Or(z3.Not(w2.hasFresh), w2.fresh <= now), z3.ForAll([u], z3.Implies(up(u, n0), z3.And(z3.Not(w2.Stale(u)), w2.has(u))))),
                         z3.Not(w2.Stale(n0))))
    return "ok"


@unit("history.sanity[weakened-hypotheses-must-fail]", props=["C03", "C05", "C08"], functions=[],
      assumptions=["vacuity / strength guard for the lemma library: each lemma with one hypothesis dropped must have a finite countermodel"], min_obligations=3, kind="lemma",
      prove_timeout_ms=20000)
def sanity(ctx):
    from ujvc import core

    for a in static_axioms() + up_facts():
        ctx.assume(a)
    w, w2 = W("w"), W("w2")
    n0, now = ctx.fresh(Node, "n0"), ctx.fresh(IntS, "now")
    n, u = _c("n!sa"), _c("u!sa")
    k = ctx.choose(3, "dropped-hypothesis")
    pc = list(ctx.pc) + [w.J(), reg(n0), z3.Not(src(n0))] + same_except(w, w2, n0, ("has", "mt", "ver", "basis")) + [w2.has(n0), w2.ver(n0) == w.ver(n0) + 1]
    newer = z3.ForAll([n], z3.Implies(w.has(n), w.mt(n) < now))
    atomic = z3.ForAll([u], z3.If(up(u, n0), w2.basis(n0, u) == w.ver(u), w2.basis(n0, u) == w.basis(n0, u)))
    if k == 0:    # H-TIME dropped: the new time is arbitrary
        pc += [atomic]
        what = "without-H-TIME"
    elif k == 1:  # H-ATOMIC dropped: the value may have been computed from older contents
        pc += [newer, w2.mt(n0) == now, z3.ForAll([u], w2.basis(n0, u) <= w.ver(u))]
        what = "without-H-ATOMIC"
    else:         # the version counter is not bumped: a rewritten upstream value is indistinguishable from the old one
        pc = [f for f in pc if not z3.eq(f, w2.ver(n0) == w.ver(n0) + 1)] + [newer, w2.mt(n0) == now, atomic, w2.ver(n0) == w.ver(n0) + 5, z3.ForAll([n, u], w.basis(n, u) <= w.ver(u) + 9)]
        pc = [f for f in pc if not z3.eq(f, w.J())] + [w.J().arg(0)]
        what = "without-the-version-bound"
    v, m, kk = core.refute_finite(pc, w2.J(), kmax=4)
    ctx.check(f"J-preservation-{what}-has-a-finite-countermodel(the-hypothesis-is-needed,the-lemma-is-not-vacuous)", bool(v == "refuted"), info=f"{v} K={kk}\n{m[:600]}")
    return "ok"


@unit("history.spec-agreement", props=["C03", "C05", "C08"], functions=[],
      assumptions=["links the lemma library to the per-node contract proved on the code: W.local is the same function as contracts/stale.py own_store_out_of_date"],
      min_obligations=16, kind="lemma")
def spec_agreement(ctx):
    import itertools

    from .stale import own_store_out_of_date

    class T:
        def __init__(self, t):
            self.t = t

    w = W("w")
    n = ctx.fresh(Node, "n")
    for has_store, is_source, has_mt, has_A, has_fresh in itertools.product((False, True), repeat=5):
        if is_source and not has_store:
            continue
        code_spec = own_store_out_of_date(has_store, is_source, T(w.mt(n)) if has_mt else None, T(w.A(n)) if has_A else None, T(w.fresh) if has_fresh else None)
        pre = z3.And(reg(n) == has_store, src(n) == is_source, w.has(n) == has_mt, w.hasA(n) == has_A, w.hasFresh == has_fresh)
        ctx.check("own-store-disjunct-of-the-lemma-library==the-spec-function-the-code-was-verified-against",
                  z3.Implies(pre, z3.And(reg(n), w.local(n)) == code_spec))
    return "ok"
