"""Sidecar contracts for uberjob/_execution/scheduler.py (properties C04, C01, C07): the queue
implementations neither lose nor duplicate items, count their unfinished tasks correctly, and accept the
DONE sentinel.

Views:  RandomQueue.queue is a SEQUENCE  (a : Int -> Item, n);  PriorityQueue.queue / the simple queue's deque
are BAGS (mult : Item -> Int, total length).

  create_simple_queue(items)   ensures  queue.queue is a bag equal to items; unfinished_tasks == len(items)
  RandomQueue.__init__(items)  ensures  the same (random.shuffle permutes: T6)
  RandomQueue._put(x)          ensures  the new sequence is  old ++ [x]  with the positions i and n-1 exchanged
                                        for some 0 <= i < n  (a transposition, hence a permutation: nothing
                                        lost, nothing duplicated);  len grows by exactly 1
  RandomQueue._get()           requires len > 0 (Queue.get, T3)  ensures  returns the last element, len - 1,
                                        the other positions unchanged
  RandomQueue._qsize()         ensures  len
  PriorityQueue.__init__       ensures  queue holds one KeyValuePair(priority(x), x) per item x (same bag)
  PriorityQueue._put(x)        ensures  heappush of exactly KeyValuePair(priority(x), x) onto self.queue
  PriorityQueue._get()         ensures  returns the .value of exactly the pair heappop removed
  KeyValuePair                 value round-trips; __lt__/__eq__ compare keys only (real class, run natively)
  create_queue(g, items, s)    scheduler None/'default' -> PriorityQueue(items, p) with p total on ANY item
                               (p(DONE) == -1, below every real priority); 'cheap' -> create_simple_queue(items);
                               'random' -> RandomQueue(items); anything else -> ValueError
"""
from ujvc.core import EngineSignal, Unsupported
from ujvc.units import get, unit
from ujvc.vc import VC, IntS, SBool, SInt
from ujvc.z3env import z3

from . import gstate as G
from .gproxies import SNode, SymBag, node_t
from .gstate import Node

REL = "_execution/scheduler.py"
SeqS = z3.ArraySort(IntS, Node)


class SymSeq:
    """python list of items as a symbolic sequence"""

    def __init__(self, ctx, a=None, n=None):
        self.ctx = ctx
        self.a = ctx.fresh(SeqS, "seq") if a is None else a
        self.n = z3.IntVal(0) if n is None else n

    def _idx(self, i, what):
        if isinstance(i, SInt):
            t = i.t
        elif isinstance(i, int):
            t = z3.IntVal(i) if i >= 0 else self.n + i
        else:
            raise Unsupported("sequence index")
        self.ctx.check(f"defined:{what}-index-in-range", z3.And(t >= 0, t < self.n), info="IndexError")
        return t

    def append(self, x):
        self.a = z3.Store(self.a, self.n, node_t(x))
        self.n = self.n + 1

    def __getitem__(self, i):
        return SNode(z3.Select(self.a, self._idx(i, "getitem")))

    def __setitem__(self, i, x):
        self.a = z3.Store(self.a, self._idx(i, "setitem"), node_t(x))

    def pop(self, *args):
        if args:
            raise Unsupported("pop(index)")
        self.ctx.check("defined:pop-from-nonempty", self.n > 0, info="IndexError")
        x = SNode(z3.Select(self.a, self.n - 1))
        self.n = self.n - 1
        return x

    def __vc_len__(self):
        return SInt(self.ctx, self.n)


class _Self:
    pass


def _Super(log):
    class _Base:
        def __init__(self, *a, **kw):
            if getattr(self, "_made", False):
                log.append(("super.__init__", a))
            self._made = True

        def __getattr__(self, k):
            def m(*a, **kw):
                log.append(("super." + k, a))

            return m

    def _super():
        return _Base()

    return _super


def _env(ctx, vc, log):
    class _random:
        @staticmethod
        def shuffle(x):
            log.append(("shuffle", x))  # T6: permutes in place: the bag is unchanged

        @staticmethod
        def randrange(n):
            if not isinstance(n, SInt):
                raise Unsupported("randrange of a concrete value")
            ctx.check("defined:randrange(n)-needs-n>0", n.t > 0, info="ValueError: empty range")
            i = ctx.fresh(IntS, "rand")
            ctx.assume(z3.And(i >= 0, i < n.t))  # T6
            log.append(("randrange", i))
            return SInt(ctx, i)

    def _list(x):
        if isinstance(x, SymBag):  # list(iterable): same items (as a sequence of that bag)
            s = SymSeq(ctx)
            s.n = x.length
            s.src_bag = x
            return s
        raise Unsupported("list() of a non-bag")

    def _deque(x):
        if isinstance(x, SymBag):
            return SymBag(ctx, x.mult, x.length)
        raise Unsupported("deque() of a non-bag")

    class QueueStub:
        def __init__(self):
            self.queue = None
            self.unfinished_tasks = 0
            log.append(("Queue()",))

    return {"__vc": vc, "len": vc.len, "range": vc.range, "random": _random, "list": _list, "deque": _deque,
            "super": _Super(log), "Queue": QueueStub}


@unit("queues.create_simple_queue", props=["C04", "C01", "C07"], functions=[(REL, "create_simple_queue")],
      assumptions=["T6 deque(iterable) keeps the items", "T3 queue.Queue delegates to .queue / unfinished_tasks"], min_obligations=3)
def simple_queue_unit(ctx):
    log = []
    vc = VC(ctx)
    env = _env(ctx, vc, log)
    f = get(REL, "create_simple_queue").compile_into(env)
    items = SymBag(ctx, ctx.fresh(G.MapNI, "items"), ctx.fresh(IntS, "nitems"))
    q = f(items)
    ok = isinstance(q, env["Queue"]) and isinstance(q.queue, SymBag)
    ctx.check("post:a-Queue-whose-container-is-a-bag", bool(ok))
    if ok:
        ctx.check("post:holds-exactly-the-initial-items", q.queue.mult == items.mult)
        u = q.unfinished_tasks
        ctx.check("post:unfinished_tasks==number-of-items", (u.t if isinstance(u, SInt) else z3.IntVal(u)) == items.length, props=["C07"])


@unit("queues.RandomQueue", props=["C04", "C01", "C07"],
      functions=[(REL, "RandomQueue.__init__"), (REL, "RandomQueue._put"), (REL, "RandomQueue._get"), (REL, "RandomQueue._qsize")],
      assumptions=["T6 random.shuffle permutes, randrange(n) in [0,n)", "T3 Queue.get calls _get only when _qsize() > 0",
                   "L-PERM a transposition is a permutation (nothing lost, nothing duplicated)"], min_obligations=8)
def random_queue_unit(ctx):
    log = []
    vc = VC(ctx)
    env = _env(ctx, vc, log)
    which = ctx.choose(4, "method")
    s = _Self()
    if which == 0:
        init = get(REL, "RandomQueue.__init__").compile_into(env)
        items = SymBag(ctx, ctx.fresh(G.MapNI, "items"), ctx.fresh(IntS, "nitems"))
        init(s, items)
        ok = isinstance(getattr(s, "queue", None), SymSeq) and getattr(s.queue, "src_bag", None) is items
        ctx.check("__init__:queue-is-a-list-of-exactly-the-initial-items", bool(ok))
        ctx.check("__init__:base-class-initialised-first", bool(log and log[0][0] == "super.__init__"))
        u = getattr(s, "unfinished_tasks", None)
        ctx.check("__init__:unfinished_tasks==number-of-items", bool(isinstance(u, SInt)) and u.t == items.length, props=["C07"])
        return "init"
    a0 = ctx.fresh(SeqS, "q")
    n0 = ctx.fresh(IntS, "n")
    ctx.assume(n0 >= 0)
    s.queue = SymSeq(ctx, a0, n0)
    if which == 1:
        put = get(REL, "RandomQueue._put").compile_into(env)
        x = ctx.fresh(Node, "item")
        r = put(s, SNode(x))
        q = s.queue
        ctx.check("_put:length-grows-by-one", q.n == n0 + 1)
        rs = [e[1] for e in log if e[0] == "randrange"]
        ctx.check("_put:one-random-index", bool(len(rs) == 1))
        if len(rs) == 1:
            i = rs[0]
            app = z3.Store(a0, n0, x)
            j = z3.Const("j!put", IntS)
            want = z3.If(j == i, z3.Select(app, n0), z3.If(j == n0, z3.Select(app, i), z3.Select(app, j)))
            ctx.check("_put:result-is-(old++[item])-with-positions-i-and-last-exchanged",
                      z3.ForAll([j], z3.Implies(z3.And(j >= 0, j <= n0), z3.Select(q.a, j) == want)),
                      info="nothing lost, nothing duplicated")
        return "put"
    if which == 2:
        getm = get(REL, "RandomQueue._get").compile_into(env)
        ctx.assume(n0 > 0)  # T3
        r = getm(s)
        q = s.queue
        ctx.check("_get:returns-the-last-item", bool(isinstance(r, SNode)) and r.t == z3.Select(a0, n0 - 1))
        ctx.check("_get:removes-exactly-that-item", z3.And(q.n == n0 - 1, q.a == a0))
        return "get"
    qs = get(REL, "RandomQueue._qsize").compile_into(env)
    r = qs(s)
    ctx.check("_qsize:is-the-number-of-items", bool(isinstance(r, SInt)) and r.t == n0)
    return "qsize"


# ---- PriorityQueue -------------------------------------------------------------------------------
class KVBag:
    """bag of KeyValuePair objects, abstracted to the bag of their values"""

    def __init__(self, ctx, mult, length):
        self.ctx, self.mult, self.length = ctx, mult, length

    def __vc_len__(self):
        return SInt(self.ctx, self.length)


@unit("queues.PriorityQueue", props=["C04", "C01", "C07"],
      functions=[(REL, "PriorityQueue.__init__"), (REL, "PriorityQueue._put"), (REL, "PriorityQueue._get"), (REL, "PriorityQueue._qsize")],
      assumptions=["T6 heapify permutes; heappush adds exactly its argument; heappop removes and returns one (minimal) element",
                   "the heap-entry class (KeyValuePair at the pinned commit) is whatever the real module defines; it is executed natively and only "
                   "characterised by what it does: _get recovers the item, '<' follows the priorities and never compares the items"], min_obligations=6)
def priority_queue_unit(ctx):
    from ujvc.units import base_env

    log = []
    vc = VC(ctx)
    env = _env(ctx, vc, log)
    # classes of the real module (the heap entry class, whatever it is called) are run natively
    from ujvc.z3env import ensure_repo_first

    ensure_repo_first()
    import importlib

    sched = importlib.import_module("uberjob._execution.scheduler")
    for k_, v_ in vars(sched).items():
        if isinstance(v_, type) and v_.__module__ == sched.__name__ and k_ not in ("RandomQueue", "PriorityQueue") and k_ not in env:
            env[k_] = v_
    prio_calls = []

    def priority(x):
        prio_calls.append(x)
        return ("prio", id(x))

    pop_script = []

    def heapify(q):
        log.append(("heapify", q))

    def heappush(q, e):
        log.append(("heappush", q, e))

    def heappop(q):
        if pop_script:
            e = pop_script.pop(0)
            log.append(("heappop", q, e))
            return e
        raise Unsupported("heappop without a scripted entry")

    env.update(heapify=heapify, heappush=heappush, heappop=heappop)
    getm = get(REL, "PriorityQueue._get").compile_into(env)

    def item_of(entry):
        """the item a heap entry stands for: what the real _get returns when heappop hands that entry back"""
        s2 = _Self()
        s2.queue = "HEAP"
        pop_script.append(entry)
        return getm(s2)

    which = ctx.choose(4, "method")
    s = _Self()
    if which == 0:
        items = SymBag(ctx, ctx.fresh(G.MapNI, "items"), ctx.fresh(IntS, "nitems"))
        made = []

        def comp(vc_, key, elt, cond):
            # [<entry>(priority(item), item) for item in initial_items]: generic element
            if cond is not None:
                raise Unsupported("filtered comprehension")
            x = SNode(ctx.fresh(Node, "item"))
            e = elt(x)
            made.append((x, e))
            return KVBag(ctx, items.mult, items.length)

        items.__vc_comp__ = comp
        init = get(REL, "PriorityQueue.__init__", cut_comps=True).compile_into(env)
        init(s, items, priority)
        ok = len(made) == 1 and prio_calls == [made[0][0]] and item_of(made[0][1]) is made[0][0]
        ctx.check("__init__:one-heap-entry-per-initial-item(made-with-priority(item);_get-recovers-the-item)", bool(ok))
        ctx.check("__init__:queue-holds-exactly-those-entries", bool(isinstance(getattr(s, "queue", None), KVBag)) and s.queue.mult == items.mult)
        ctx.check("__init__:heapified-and-base-initialised", bool(any(e[0] == "heapify" and e[1] is s.queue for e in log) and log[0][0] == "super.__init__"))
        u = getattr(s, "unfinished_tasks", None)
        ctx.check("__init__:unfinished_tasks==number-of-items", bool(isinstance(u, SInt)) and u.t == items.length, props=["C07"])
        ctx.check("__init__:remembers-the-priority-function", bool(getattr(s, "priority", None) is priority))
        return "init"
    m0, n0 = ctx.fresh(G.MapNI, "mult"), ctx.fresh(IntS, "n")
    s.queue = KVBag(ctx, m0, n0)
    s.priority = priority
    put = get(REL, "PriorityQueue._put").compile_into(env)
    if which == 1:
        x = ctx.fresh(Node, "item")
        xo = SNode(x)
        put(s, xo)
        pushes = [e for e in log if e[0] == "heappush"]
        ok = len(pushes) == 1 and pushes[0][1] is s.queue and prio_calls == [xo] and item_of(pushes[0][2]) is xo
        ctx.check("_put:pushes-exactly-one-entry-for-the-item(made-with-priority(item))-onto-its-own-heap", bool(ok))
        return "put"
    if which == 2:
        # round trip through the heap: whatever entry _put pushed, _get returns its item when heappop hands it back
        xo = SNode(ctx.fresh(Node, "item"))
        put(s, xo)
        pushes = [e for e in log if e[0] == "heappush"]
        if len(pushes) != 1:
            raise Unsupported("_put does not push exactly one entry")
        pop_script.append(pushes[0][2])
        r = getm(s)
        pops = [e for e in log if e[0] == "heappop"]
        ok = len(pops) == 1 and pops[0][1] is s.queue and r is xo
        ctx.check("_get:returns-the-item-of-exactly-the-entry-it-popped-from-its-own-heap", bool(ok))
        return "get"
    qs = get(REL, "PriorityQueue._qsize").compile_into(env)
    r = qs(s)
    ctx.check("_qsize:is-the-number-of-items", bool(isinstance(r, SInt)) and r.t == n0)
    # ordering of the heap entries: by priority only - the items themselves (opaque objects) are never compared, ties do not raise
    prios = {}
    s.priority = lambda it: prios[id(it)]
    ents = []
    for pr in (1, 2, 1):
        it = object()
        prios[id(it)] = pr
        del log[:]
        put(s, it)
        ents.append([e for e in log if e[0] == "heappush"][0][2])
    a, b, a2 = ents
    try:
        ok = (a < b) and not (b < a) and not (a < a2) and not (a2 < a)
    except TypeError as e:
        ok = False
    ctx.check("heap-entries:ordered-by-priority-only(items-never-compared;ties-do-not-raise)", bool(ok))
    return "qsize"


@unit("queues.create_queue", props=["C04", "C01", "C07"], functions=[(REL, "create_queue")],
      assumptions=["T12 greedy.get_priority_mapping returns a dict of priorities in [0, n)"], min_obligations=4)
def create_queue_unit(ctx):
    log = []
    GRAPH, ITEMS, DONE_ = object(), object(), object()
    NODE = object()

    class _greedy:
        @staticmethod
        def get_priority_mapping(graph):
            log.append(("greedy", graph))
            return {NODE: 5}

    def create_simple_queue(items):
        log.append(("simple", items))
        return "SIMPLE"

    class RandomQueue:
        def __init__(self, items):
            log.append(("random", items))

    class PriorityQueue:
        def __init__(self, items, priority):
            log.append(("priority", items, priority))

    env = {"greedy": _greedy, "create_simple_queue": create_simple_queue, "RandomQueue": RandomQueue, "PriorityQueue": PriorityQueue,
           "ValueError": ValueError}
    f = get(REL, "create_queue").compile_into(env)
    k = ctx.choose(5, "scheduler")
    sched = [None, "default", "cheap", "random", "bogus"][k]
    try:
        q = f(GRAPH, ITEMS, sched)
    except ValueError:
        ctx.check("ValueError-only-for-an-unknown-scheduler", bool(sched == "bogus" and not log))
        return "invalid"
    if sched in (None, "default"):
        e = [x for x in log if x[0] == "priority"]
        ok = isinstance(q, PriorityQueue) and len(e) == 1 and e[0][1] is ITEMS and log[0] == ("greedy", GRAPH)
        ctx.check("default:PriorityQueue(initial_items,priority)-from-greedy-priorities-of-this-graph", bool(ok))
        if ok:
            p = e[0][2]
            try:
                pd, pn = p(DONE_), p(NODE)
            except Exception as ex:  # noqa: BLE001
                ctx.check("default:priority-function-is-total(also-on-the-DONE-sentinel)", False, info=repr(ex), props=["C07"])
            else:
                ctx.check("default:priority-function-is-total(also-on-the-DONE-sentinel)", True, props=["C07"])
                ctx.check("default:known-node-gets-its-greedy-priority;DONE-sorts-before-every-node", bool(pn == 5 and pd < 0))
    elif sched == "cheap":
        ctx.check("cheap:create_simple_queue(initial_items)", bool(q == "SIMPLE" and log == [("simple", ITEMS)]))
    elif sched == "random":
        ctx.check("random:RandomQueue(initial_items)", bool(isinstance(q, RandomQueue) and log == [("random", ITEMS)]))
    else:
        ctx.check("unknown-scheduler-must-raise-ValueError", False)
    return sched or "None"
