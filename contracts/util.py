"""Sidecar contract for uberjob/_util/__init__.py: ``safe_max`` (properties C05, C03, C08, C18) - deductive, unbounded.

The stale check (contracts/stale.py) is verified against the declarative spec with ``A(n) = safe_max(M(p) for p in predecessors(n))`` and
``safe_max(mt, A, fresh) > mt``; there ``safe_max`` is a stub that carries the contract below.  This unit proves that contract on the
real function for EVERY number of values, so that the stub is no longer an assumption.

View.  The values handed over are a finite sequence  x_0 .. x_{n-1}  (n >= 0 symbolic) of Optional[instant]:
      isnone(j) : Bool      val(j) : Int  (the instant, meaningful when not isnone(j))
Contract (taken from the statement of C05: 'older than a stored value or source upstream of them' - the NEWEST of the given times decides,
values that do not exist are ignored):
      safe_max(xs)               -- one argument: an iterable of the values         } both calling conventions the stale check uses
      safe_max(x_0, .., x_{n-1}) -- n != 1 arguments: the values themselves          }
  never raises
  returns None          <=>  forall j in [0,n). isnone(j)
  returns r (not None)   =>  r is one of the values (exists j. not isnone(j) and val(j) = r) and forall j. not isnone(j) => val(j) <= r
A maintainer may replace max() by the explicit fold ``for value in values: if value is not None and (acc is None or value > acc): acc = value``;
that shape is proved too (loop invariant in FoldLoop), other shapes (iterator protocol by hand, ...) are undecided and fall back to the bounded stand-ins.
Assumed (python, T1): the contract of the builtins ``max`` / ``min`` over an iterable with ``default=`` (an element bounding all
others / the default when empty), generator expressions act pointwise (the element and filter expressions are evaluated on a generic None and
a generic instant), datetime values are truthy (T16).
"""
import textwrap

from ujvc.core import EngineSignal, Unsupported
from ujvc.units import get, unit
from ujvc.vc import VC, IntS, LoopContract, SInt
from ujvc.z3env import z3

from .stale import STime

REL = "_util/__init__.py"
_NODEFAULT = object()


class OptSeq:
    """a finite sequence of Optional[instant] of symbolic length"""

    def __init__(self, ctx, tag, n=None):
        self.ctx, self.tag = ctx, tag
        self.n = ctx.fresh(IntS, tag + "!n") if n is None else n
        ctx.assume(self.n >= 0)
        self.isnone = z3.Function(tag + "!isnone", IntS, z3.BoolSort())
        self.val = z3.Function(tag + "!val", IntS, IntS)

    def __vc_len__(self):
        return SInt(self.ctx, self.n)

    def __len__(self):
        raise Unsupported("len() of a symbolic sequence through the builtin")

    def __iter__(self):
        raise Unsupported("iteration over a symbolic sequence outside a generator expression")

    def __getitem__(self, i):
        raise Unsupported("indexing the values (the contract is about the whole sequence)")

    def __bool__(self):
        raise Unsupported("truth value of the sequence of values")

    def __vc_comp__(self, vc, key, elt, cond):
        # (elt(v) for v in xs if cond(v)): decided pointwise on a generic None entry and a generic instant
        ctx = self.ctx
        probe = STime(ctx, ctx.fresh(IntS, "generic-instant"))
        keeps_none = True if cond is None else bool(cond(None))
        keeps_vals = True if cond is None else bool(cond(probe))
        if keeps_vals and elt(probe) is not probe:
            raise Unsupported("the generator does not yield the values themselves")
        return Filtered(self, keeps_none, keeps_vals, key.split("#")[0])


class Filtered:
    def __init__(self, seq, keeps_none, keeps_vals, kind):
        self.seq, self.keeps_none, self.keeps_vals, self.kind = seq, keeps_none, keeps_vals, kind

    def __iter__(self):
        raise Unsupported("iteration over the filtered values outside max / min")


class FoldLoop(LoopContract):
    """``for value in <the values>: if value is not None and (acc is None or value > acc): acc = value`` - the explicit fold a maintainer may write
    instead of max(); found by what it iterates (the sequence of values itself) and by the one local that exists before the loop and is assigned in it.
    Invariant at position t (acc = that local):   acc is None  <=>  forall j < t. isnone(j);
                                                  acc not None  =>  acc is one of x_0..x_{t-1} and bounds every value present among them."""

    def __init__(self, seq):
        self.seq = seq
        self.assigned = ()
        self.acc = None

    def _inv(self, ctx, t, acc):
        seq, j = self.seq, z3.Int("j!q")
        below = lambda jj: z3.And(jj >= 0, jj < t)   # noqa: E731
        if acc is None:
            return z3.ForAll([j], z3.Implies(below(j), seq.isnone(j)))
        if not isinstance(acc, STime):
            raise Unsupported("the accumulator of the fold is neither None nor one of the values")
        return z3.And(z3.Exists([j], z3.And(below(j), z3.Not(seq.isnone(j)), seq.val(j) == acc.t)),
                      z3.ForAll([j], z3.Implies(z3.And(below(j), z3.Not(seq.isnone(j))), seq.val(j) <= acc.t)))

    def establish(self, ctx, it, locs):
        if it is not self.seq:
            raise Unsupported("the loop does not iterate the values themselves")
        cands = [n for n in self.assigned if n in locs]
        if len(cands) != 1:
            raise Unsupported(f"cannot tell the accumulator of the fold (locals assigned in the loop that exist before it: {cands})")
        self.acc = cands[0]
        ctx.check("fold-loop/establish", self._inv(ctx, z3.IntVal(0), locs[self.acc]))

    def havoc(self, ctx, it, locs):
        self.t = ctx.fresh(IntS, "t")
        ctx.assume(z3.And(self.t >= 0, self.t <= self.seq.n))
        acc = None if ctx.choose(2, "fold:accumulator-is-None") == 0 else STime(ctx, ctx.fresh(IntS, "acc"))
        ctx.assume(self._inv(ctx, self.t, acc))
        return {self.acc: acc}

    def iterate(self, ctx, it):
        seq = self.seq
        if ctx.branch(self.t < seq.n, "more-values"):
            if ctx.choose(2, "value-is-None") == 0:
                ctx.assume(seq.isnone(self.t))
                self.current = None
            else:
                ctx.assume(z3.Not(seq.isnone(self.t)))
                self.current = STime(ctx, seq.val(self.t))
            return True
        return False

    def preserve(self, ctx, locs):
        ctx.check("fold-loop/preserve", self._inv(ctx, self.t + 1, locs[self.acc]))


def _in(seq, j):
    return z3.And(j >= 0, j < seq.n)


def _extremum(ctx, which):
    """builtin max / min over an iterable (T1): an element bounding all others, ``default`` when there is none"""

    def ext(*args, default=_NODEFAULT, key=None):
        if len(args) != 1 or key is not None:
            raise Unsupported(f"{which} with several arguments / key=")
        it = args[0]
        if isinstance(it, OptSeq):
            it = Filtered(it, True, True, "seq")
        if not isinstance(it, Filtered):
            raise Unsupported(f"{which} over something else than the values")
        seq = it.seq
        # what does the filter let through?  (decided on the generic elements)
        ctx.check("filter:drops-exactly-the-missing-values(None)", bool(it.keeps_vals and not it.keeps_none), props=["C05", "C03"],
                  info=f"keeps None: {it.keeps_none}, keeps instants: {it.keeps_vals} (None reaching max() is a TypeError / a dropped instant is ignored)")
        if it.keeps_none or not it.keeps_vals:
            raise Unsupported("a filter other than 'is not None'")
        j = z3.Int("j!q")
        if ctx.choose(2, f"{which}:no-value-present") == 0:
            ctx.assume(z3.ForAll([j], z3.Implies(_in(seq, j), seq.isnone(j))))
            if default is _NODEFAULT:
                raise ValueError(f"{which}() iterable argument is empty")
            return default
        w = ctx.fresh(IntS, f"{which}!witness")
        ctx.assume(z3.And(_in(seq, w), z3.Not(seq.isnone(w))))
        r = seq.val(w)
        bound = (lambda a, b: a <= b) if which == "max" else (lambda a, b: a >= b)
        ctx.assume(z3.ForAll([j], z3.Implies(z3.And(_in(seq, j), z3.Not(seq.isnone(j))), bound(seq.val(j), r))))
        return STime(ctx, r)

    return ext


@unit("util.safe_max", props=["C05", "C03", "C08", "C18"], functions=[(REL, "safe_max")],
      assumptions=["T1 builtin max / min over an iterable: an element bounding all others, default= when empty; generator expressions act pointwise",
                   "T16 datetime values are truthy", "R11: *args made explicit (a real 1-tuple holding the iterable, or the symbolic sequence of the values themselves)",
                   "precondition: a single argument is an iterable of Optional[time] (both call sites in caching.py)"],
      min_obligations=4)
def safe_max_unit(ctx):
    vc = VC(ctx)
    env = {"__vc": vc, "len": vc.len, "max": _extremum(ctx, "max"), "min": _extremum(ctx, "min")}
    fn = get(REL, "safe_max", cut_comps=True, explicit_varargs=True, cut_loops="auto").compile_into(env)
    seq = OptSeq(ctx, "xs")
    fold = FoldLoop(seq)
    vc.resolve_loop = lambda key, it: fold if it is seq else None
    _loop = vc.loop

    def loop(key, it, locs, assigned):
        fold.assigned = tuple(assigned)
        return _loop(key, it, locs, assigned)

    vc.loop = loop
    how = ctx.choose(2, "calling-convention")
    if how == 0:
        args = (seq,)            # safe_max(<iterable>)
    else:
        args = seq               # safe_max(x_0, ..., x_{n-1}) with n != 1
        ctx.assume(seq.n != 1)
    try:
        r = fn(args)
    except EngineSignal:
        raise
    except Exception as e:  # noqa: BLE001
        ctx.check("safe_max:never-raises", False, props=["C05", "C07"], info=f"{type(e).__name__}: {e}")
        return "raise"
    ctx.check("safe_max:never-raises", True, props=["C05", "C07"])
    j = z3.Int("j!q")
    allnone = z3.ForAll([j], z3.Implies(_in(seq, j), seq.isnone(j)))
    if r is None:
        ctx.check("safe_max:None-only-when-no-value-is-present", allnone, props=["C05", "C03", "C08"])
        return "none"
    if not isinstance(r, STime):
        ctx.check("safe_max:returns-None-or-one-of-the-values", False, info=repr(r))
        return "other"
    ctx.check("safe_max:returns-None-or-one-of-the-values", z3.Exists([j], z3.And(_in(seq, j), z3.Not(seq.isnone(j)), seq.val(j) == r.t)), props=["C05", "C03"])
    ctx.check("safe_max:result-is-the-newest-of-the-values-present", z3.ForAll([j], z3.Implies(z3.And(_in(seq, j), z3.Not(seq.isnone(j))), seq.val(j) <= r.t)),
              props=["C05", "C03", "C08", "C18"])
    return "value"


# ---------------------------------------------------------------------------------------
# native replay: the real safe_max on small sequences of Optional[datetime]
# ---------------------------------------------------------------------------------------
REPLAY_SCRIPT = textwrap.dedent(
    '''
    import datetime as dt, itertools, sys
    from uberjob._util import safe_max
    base = dt.datetime(2020, 1, 1)
    vals = [None, base, base + dt.timedelta(seconds=1), base + dt.timedelta(days=400)]
    bad = []
    for n in range(0, 4):
        for xs in itertools.product(vals, repeat=n):
            present = [x for x in xs if x is not None]
            want = max(present) if present else None
            forms = [("iterable", lambda: safe_max(iter(xs))), ("list", lambda: safe_max(list(xs)))]
            if n != 1:
                forms.append(("arguments", lambda: safe_max(*xs)))
            for name, f in forms:
                try:
                    got = f()
                except Exception as e:
                    got = e
                if got is not want and got != want:
                    bad.append((name, xs, got, want))
    for b in bad[:5]:
        print("safe_max (%s form) of %r returned %r, the newest value present is %r" % b)
    sys.exit(1 if bad else 0)
    '''
)


def _replay(ob):
    import os

    from ujvc.units import run_native_p
    from ujvc.z3env import REPO_SRC

    p = run_native_p(["/venv/bin/python", "-c", REPLAY_SCRIPT], env=dict(os.environ, PYTHONPATH=REPO_SRC), timeout=120)
    return {"reproduced": p.returncode == 1, "detail": (p.stdout + p.stderr)[-3000:], "script": REPLAY_SCRIPT}


REPLAYS = [("util.safe_max*", _replay)]
