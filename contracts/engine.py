"""Sidecar contract for run_function_on_graph.<locals>.process_node - the code that every worker thread
executes (properties C01, C04, C06, C07, C10).

Proof discipline (DESIGN 2.2): rely/guarantee with resource invariants.  The real nested function is
extracted, its ``nonlocal`` cells become attribute accesses on a shared-state proxy (R2), and it is run
natively on proxies.  EVERY access to shared state (one attribute load/store of a closure cell, one
dict __getitem__/__setitem__, one queue.put, one lock operation, the call of fn) is one atomic step:

    1. interference: the snapshot of shared+ghost state is replaced by a fresh one about which only the
       RELY is assumed - grow-only sets grew, what this thread owns (membership of its own token node,
       done_succ(me)) is unchanged, what a lock it currently holds protects is unchanged, and the
       always-invariant G1,G2,G3,G6 holds;
    2. the step itself with the ghost update attached to it by this sidecar;
    3. GUARANTEE obligations: the always-invariant holds again, and the step does nothing the rely of the
       other threads excludes (lock-protected state only touched with the lock held; without the lock,
       nothing that G4 mentions changes; stop only ever set to True; fn / ghost updates only on the
       thread's own token node).
    On lock acquisition the resource invariant (G4 / G5) is assumed for the fresh snapshot, on release it
    is an obligation.

Token rule (paper rule T14, ownership transfer through an atomic channel): queue.get() hands the thread an
exclusive token for a node x in enqueued that has not been started or skipped, with done_succ(x) empty.
It is sound because put requires x not in enqueued (obligation below) and the queues neither lose nor
duplicate items (contracts/queues.py).

Property obligations sit at the call ``fn(node)``:
    C01  every predecessor of node is in completed          C04  node is not in started
and at each queue.put(s):  C04 s not in enqueued;  C01/C06 every predecessor of s is in completed
(on the failure path ``completed`` was never extended with the failed node, so nothing downstream of a
failure can satisfy it).
"""
from ujvc.core import EngineSignal, Unsupported
from ujvc.units import get, unit
from ujvc.vc import VC, LoopContract, SBool, SInt
from ujvc.z3env import z3

from . import gstate as G
from .gstate import Node, member, insert

REL = "_execution/run_function_on_graph.py"


class SNode:
    """symbolic node object; identity-hashable python object carrying a z3 term"""

    def __init__(self, t, name="n"):
        self.t, self.name = t, name

    def __repr__(self):
        return f"<node {self.t}>"


class UserExc(Exception):
    pass


class UserBaseExc(BaseException):
    pass


class Thread:
    """One worker thread executing process_node(me) against an arbitrary environment."""

    def __init__(self, ctx, k_none):
        self.ctx = ctx
        self.st = G.Static(ctx)
        self.st.k_none = k_none
        self.me = ctx.fresh(Node, "me")
        self.me_obj = SNode(self.me, "me")
        self.w = G.World(ctx, "w0")
        self.hold_count = False
        self.hold_fail = False
        self.exc = None  # exception raised by fn(me)
        self.first_obj = None
        self.active = False  # this thread passed the stop check and has not yet finished fn
        self.track_card = False  # add cardinality lemma instances for the in-flight set (failure path only)
        for a in G.graph_axioms() + self.st.axioms():
            ctx.assume(a)
        for f in G.GI_always(self.w, self.st):
            ctx.assume(f)
        # token precondition
        w = self.w
        ctx.assume(member(w.enqueued, self.me))
        ctx.assume(z3.Not(member(w.started, self.me)))
        ctx.assume(z3.Not(member(w.skipped, self.me)))
        x = z3.Const("x!tok", Node)
        ctx.assume(z3.ForAll([x], z3.Not(member(z3.Select(w.done_succ, self.me), x))))

    # ---- rely ---------------------------------------------------------------------------------
    def interfere(self, tag="w"):
        ctx, old, st = self.ctx, self.w, self.st
        new = G.World(ctx, tag)
        x, p = z3.Const("x!r", Node), z3.Const("p!r", Node)
        for f in ("enqueued", "started", "completed", "failed", "skipped", "finished"):
            ctx.assume(z3.ForAll([x], z3.Implies(member(getattr(old, f), x), member(getattr(new, f), x))))
            ctx.assume(member(getattr(new, f), self.me) == member(getattr(old, f), self.me))  # owned
        ctx.assume(z3.Select(new.done_succ, self.me) == z3.Select(old.done_succ, self.me))  # owned
        ctx.assume(z3.Implies(old.stop, new.stop))
        ctx.assume(z3.Implies(old.stopF, new.stopF))
        # in-flight set: membership of my own node is mine; nobody becomes active once stop is set
        # (the ghost update 'active += x' is attached to a read of stop that returned False)
        ctx.assume(member(new.active, self.me) == member(old.active, self.me))
        ctx.assume(z3.Implies(old.stop, z3.ForAll([x], z3.Implies(member(new.active, x), member(old.active, x)))))
        ctx.assume(member(new.held, self.me))  # I hold my token throughout
        # T14 + worker_pool contract: at most worker_count tokens are held at any time, active subset held
        ctx.assume(z3.ForAll([x], z3.Implies(member(new.active, x), member(new.held, x))))
        ctx.assume(G.card(new.held) <= st.W)
        if self.track_card:
            ctx.assume(G.L_card_subset(new.active, new.held))
            ctx.assume(z3.Implies(old.stop, G.L_card_subset(new.active, old.active)))
            ctx.assume(G.L_card_nonneg(new.active))
        if self.hold_count:
            ctx.assume(new.count == old.count)
            ctx.assume(new.decs == old.decs)
            ctx.assume(z3.ForAll([x], z3.Implies(member(st.multi, x), member(new.enqueued, x) == member(old.enqueued, x))))
            ctx.assume(z3.ForAll([p, x], z3.Implies(member(st.multi, x),
                                                   member(z3.Select(new.done_succ, p), x) == member(z3.Select(old.done_succ, p), x))))
        if self.hold_fail:
            ctx.assume(new.error_count == old.error_count)
            ctx.assume(new.first_set == old.first_set)
            ctx.assume(new.first_node == old.first_node)
            ctx.assume(new.failed == old.failed)
            ctx.assume(new.stopF == old.stopF)
        for f in G.GI_always(new, st):
            ctx.assume(f)
        self.w = new
        return new

    # ---- guarantee ----------------------------------------------------------------------------
    def establish(self, where, which=("G1", "G2", "G3", "G6")):
        for name, g in G.ALWAYS:
            if name in which:
                self.ctx.check(f"GI/{name}-preserved@{where}", g(self.w, self.st), props=["C01", "C04", "C06", "C07"])

    def step(self, tag, fields):
        """new snapshot equal to the current one except for `fields`"""
        nw = self.w.copy()
        for k, v in fields.items():
            setattr(nw, k, v)
        self.w = nw


# ---- proxies handed to the real code ------------------------------------------------------------
class Shared:
    """the closure cells stop / first_node_error / error_count (R2)"""

    def __init__(self, th):
        object.__setattr__(self, "th", th)

    def __getattr__(self, name):
        th = self.th
        ctx = th.ctx
        if name == "stop":
            w = th.interfere("w.rstop")
            v = ctx.branch(w.stop, "read-stop")
            if not v:
                th.active = True
                th.step("inflight", {"active": insert(w.active, th.me)})
            else:
                th.step("skip", {"skipped": insert(w.skipped, th.me)})
                th.establish("stop-read-True(skipped+=me)", ("G2",))
            return v
        if name == "error_count":
            ctx.check("protected-read[error_count]", bool(th.hold_fail), props=["C06", "C10"])
            w = th.interfere("w.rec")
            return SInt(ctx, w.error_count)
        if name == "first_node_error":
            ctx.check("protected-read[first_node_error]", bool(th.hold_fail), props=["C06"])
            w = th.interfere("w.rfe")
            if ctx.branch(w.first_set, "first_node_error-set"):
                return th.first_obj if th.first_obj is not None else PREV_ERROR
            return None
        raise Unsupported(f"unknown shared cell {name}")

    def __setattr__(self, name, value):
        th = self.th
        ctx = th.ctx
        if name == "stop":
            ctx.check("monotone[stop]:only-ever-set-to-True", bool(value is True), props=["C06", "C07", "C10"])
            w = th.interfere("w.wstop")
            if th.hold_fail:
                # me is held but no longer active: active subset held \\ {me}, card(held \\ {me}) = card(held) - 1
                ctx.assume(G.L_card_remove(w.held, th.me))
                ctx.assume(G.L_card_subset(w.active, G.remove(w.held, th.me)))
            th.step("stop", {"stop": z3.BoolVal(True), "stopF": z3.BoolVal(True) if th.hold_fail else w.stopF})
            return
        if name == "error_count":
            ctx.check("protected-write[error_count]", bool(th.hold_fail), props=["C06", "C10"])
            w = th.interfere("w.wec")
            if not isinstance(value, SInt):
                raise Unsupported("error_count assigned a non-integer")
            ctx.check("error_count:incremented-by-one-per-failure", value.t == w.error_count + 1, props=["C06", "C10"])
            ctx.check("failure-recorded-for-own-node-that-really-raised", bool(th.exc is not None), props=["C06"])
            ctx.check("failure:node-not-completed", z3.Not(member(w.completed, th.me)), props=["C06"])
            ctx.assume(G.L_card_remove(w.active, th.me))
            ctx.assume(G.L_card_insert(w.failed, th.me))    # me is started and not completed, and (G2 + token exclusivity) not yet failed
            ctx.check("failure:node-not-yet-counted-as-failed", z3.Not(member(w.failed, th.me)), props=["C06", "C10"])
            th.step("fail", {"error_count": value.t, "failed": insert(w.failed, th.me), "active": G.remove(w.active, th.me)})
            th.active = False
            th.establish("error_count-store", ("G2",))
            return
        if name == "first_node_error":
            ctx.check("protected-write[first_node_error]", bool(th.hold_fail), props=["C06"])
            w = th.interfere("w.wfe")
            ctx.check("first_node_error:written-only-when-unset", z3.Not(w.first_set), props=["C06"])
            NodeError = ENV_CLASSES["NodeError"]
            ok = isinstance(value, NodeError) and value.node is th.me_obj and th.exc is not None and (
                value is th.exc if isinstance(th.exc, NodeError) else value.__cause__ is th.exc)
            ctx.check("first_node_error:names-this-failed-node-and-its-very-exception", bool(ok), props=["C06"])
            th.first_obj = value
            th.step("first", {"first_set": z3.BoolVal(True), "first_node": th.me})
            return
        raise Unsupported(f"unknown shared cell {name}")


class StateObject:
    """The shared failure state kept as ATTRIBUTES OF ONE OBJECT instead of closure cells (``state.stop``, ``state.error_count``,
    ``state.first_node_error``, one lock): the same shared variables under the same discipline - every attribute access is one atomic step of
    the rely/guarantee proof, exactly like a cell access.  The three variables are recognised by their names; the one other attribute the code
    enters as a context manager is the failure lock.  Anything else is not described by this contract: undecided."""

    def __init__(self, th, shared):
        object.__setattr__(self, "_th", th)
        object.__setattr__(self, "_shared", shared)
        object.__setattr__(self, "_lock", {})

    def __getattr__(self, name):
        if name in ("stop", "error_count", "first_node_error"):
            return getattr(self._shared, name)
        locks = self._lock
        if name not in locks:
            if locks:
                raise Unsupported(f"state object: second unknown attribute {name!r} (one lock expected)")
            locks[name] = LockProxy(self._th, "fail")
        return locks[name]

    def __setattr__(self, name, value):
        if name in ("stop", "error_count", "first_node_error"):
            return setattr(self._shared, name, value)
        raise Unsupported(f"state object: write to unknown attribute {name!r}")


class _Prev:
    """a NodeError recorded earlier by some other thread (truthy, like every exception instance: T16)"""


PREV_ERROR = _Prev()
ENV_CLASSES = {}


class LockProxy:
    def __init__(self, th, which):
        self.th, self.which = th, which

    def __enter__(self):
        th = self.th
        ctx = th.ctx
        if self.which == "count":
            ctx.check("lock:not-reentered[remaining_pred_count_lock]", bool(not th.hold_count), props=["C07"])
            w = th.interfere("w.acqc")
            th.hold_count = True
            ctx.assume(G.G4(w, th.st))
        else:
            ctx.check("lock:not-reentered[failure_lock]", bool(not th.hold_fail), props=["C07"])
            th.track_card = True
            w = th.interfere("w.acqf")
            th.hold_fail = True
            for f in G5(w, th.st):
                ctx.assume(f)
            ctx.assume(member(w.active, th.me) == z3.BoolVal(bool(th.active)))
        return None

    def __exit__(self, et, ev, tb):
        th = self.th
        ctx = th.ctx
        if ctx.dead is not None:
            return False
        if self.which == "count":
            w = th.interfere("w.relc")
            x = z3.Const("x!rel", Node)
            # lemma instances (L-PIGEON family) for the successor whose counter was touched
            for s in th.touched:
                ds = z3.Select(w.decs, s)
                ctx.assume(G.L_card_subset(ds, G.pred(s)))
                ctx.assume(G.L_card_nonneg(ds))
            ctx.check("G4-restored@release[remaining_pred_count_lock]", G.G4(w, th.st), props=["C01", "C04", "C06", "C07"])
            th.hold_count = False
        else:
            w = th.interfere("w.relf")
            for i, f in enumerate(G5(w, th.st)):
                ctx.check(f"G5.{i}-restored@release[failure_lock]", f, props=["C06", "C10"])
            th.hold_fail = False
        return False


def G5(w, st):
    """resource invariant of failure_lock (plus the always-part linking stop and error_count)"""
    fs = [
        w.error_count >= 0,
        w.error_count == G.card(w.failed),            # one increment per failed node (C10: 'at most k + max_workers calls fail')
        w.first_set == (w.error_count >= 1),
        z3.Implies(w.first_set, member(w.failed, w.first_node)),
    ]
    if not st.k_none:
        fs.append(z3.Implies(z3.Not(w.stopF), w.error_count <= st.k))
        fs.append(z3.Implies(w.stopF, z3.And(w.stop, w.error_count + G.card(w.active) <= st.k + st.W)))
        fs.append(z3.Implies(w.stopF, w.error_count >= st.k + 1))      # stop is only ever set by a failure that exceeded the budget
    else:
        fs.append(z3.Not(w.stopF))
    return fs


class CountMap:
    def __init__(self, th):
        self.th = th

    def __getitem__(self, s):
        th = self.th
        ctx = th.ctx
        ctx.check("protected-read[remaining_pred_count_mapping]", bool(th.hold_count), props=["C01", "C04"])
        w = th.interfere("w.rcnt")
        if not isinstance(s, SNode):
            raise Unsupported("counter key is not a node")
        ctx.assume(G.L_card_pos(G.pred(s.t), th.me))
        ctx.check("defined:remaining_pred_count_mapping[successor]", member(th.st.multi, s.t), props=["C07"],
                  info="KeyError would kill the worker")
        return SInt(ctx, z3.Select(w.count, s.t))

    def __setitem__(self, s, v):
        th = self.th
        ctx = th.ctx
        ctx.check("protected-write[remaining_pred_count_mapping]", bool(th.hold_count), props=["C01", "C04"])
        w = th.interfere("w.wcnt")
        if not isinstance(s, SNode) or not isinstance(v, SInt):
            raise Unsupported("counter store of a non-integer")
        ctx.check("counter-store:is-a-decrement-by-one", v.t == z3.Select(w.count, s.t) - 1, props=["C01", "C04"])
        ctx.check("counter-store:by-a-completed-predecessor", z3.And(member(G.pred(s.t), th.me), member(w.completed, th.me)),
                  props=["C01", "C06"])
        ds = z3.Select(w.decs, s.t)
        ctx.assume(G.L_card_insert(ds, th.me))
        th.touched.append(s.t)
        th.step("dec", {
            "count": z3.Store(w.count, s.t, v.t),
            "decs": z3.Store(w.decs, s.t, insert(ds, th.me)),
            "done_succ": z3.Store(w.done_succ, th.me, insert(z3.Select(w.done_succ, th.me), s.t)),
        })
        th.establish("counter-store", ("G3", "G6"))


class QueueProxy:
    def __init__(self, th):
        self.th = th

    def put(self, s):
        th = self.th
        ctx = th.ctx
        w = th.interfere("w.put")
        if not isinstance(s, SNode):
            raise Unsupported("put of a non-node")
        p = z3.Const("p!put", Node)
        if th.hold_count:
            # lemma instances needed to conclude from count == 0 that all predecessors decremented
            ds = z3.Select(w.decs, s.t)
            ctx.assume(G.L_card_subset(ds, G.pred(s.t)))
            ctx.assume(G.L_card_nonneg(ds))
        else:
            ctx.assume(G.L_card_one(G.pred(s.t), th.me))
        ctx.check("put/C04:not-already-enqueued", z3.Not(member(w.enqueued, s.t)), props=["C04", "C01"])
        ctx.check("put/C01:all-predecessors-completed",
                  z3.ForAll([p], z3.Implies(member(G.pred(s.t), p), member(w.completed, p))), props=["C01", "C06"])
        fields = {"enqueued": insert(w.enqueued, s.t)}
        if not th.hold_count:
            ctx.check("put/guarantee:unlocked-put-only-of-single-parent-node", z3.Not(member(th.st.multi, s.t)),
                      props=["C01", "C04"])
            ctx.check("put/by-a-completed-predecessor", z3.And(member(G.pred(s.t), th.me), member(w.completed, th.me)),
                      props=["C01", "C06"])
            fields["done_succ"] = z3.Store(w.done_succ, th.me, insert(z3.Select(w.done_succ, th.me), s.t))
        th.step("put", fields)
        th.establish("put")


class SuccIter:
    def __init__(self, th, node):
        self.th, self.node = th, node


class GraphProxy:
    def __init__(self, th):
        self.th = th

    def successors(self, node):
        self.th.ctx.check("successors:of-own-node", bool(node is self.th.me_obj), props=["C01"])
        return SuccIter(self.th, node)


class SingleSet:
    def __init__(self, th):
        self.th = th

    def __contains__(self, s):
        if not isinstance(s, SNode):
            raise Unsupported("membership test of a non-node")
        return self.th.ctx.branch(member(self.th.st.single, s.t), "successor-in-single_parent_nodes")


class SuccLoop(LoopContract):
    """for successor in graph.successors(node):   invariant  done_succ(me) == visited, visited subset succ(me),
    me in completed, no lock held; at exit visited == succ(me) and the ghost 'finished += me' fires."""

    def __init__(self, th):
        self.th = th
        self.visited = None

    def inv(self, w, visited):
        th = self.th
        x = z3.Const("x!li", Node)
        return z3.And(
            z3.ForAll([x], member(z3.Select(w.done_succ, th.me), x) == member(visited, x)),
            z3.ForAll([x], z3.Implies(member(visited, x), member(G.succ(th.me), x))),
            member(w.completed, th.me),
        )

    def establish(self, ctx, it, locs):
        th = self.th
        if not isinstance(it, SuccIter):
            raise Unsupported("loop 0 does not iterate graph.successors(node)")
        ctx.check("loop/establish", self.inv(th.w, G.EMPTY), props=["C01", "C04", "C06"])
        ctx.check("loop/no-lock-held", bool(not th.hold_count and not th.hold_fail), props=["C07"])

    def havoc(self, ctx, it, locs):
        th = self.th
        w = th.interfere("w.loop")
        self.visited = ctx.fresh(G.SetN, "visited")
        ctx.assume(self.inv(w, self.visited))
        th.touched = []
        return {}

    def iterate(self, ctx, it):
        th = self.th
        if ctx.choose(2, "successor-loop") == 0:
            s = ctx.fresh(Node, "succ")
            ctx.assume(member(G.succ(th.me), s))
            ctx.assume(z3.Not(member(self.visited, s)))
            self.s = s
            self.current = SNode(s, "successor")
            return True
        return False

    def preserve(self, ctx, locs):
        th = self.th
        ctx.check("loop/no-lock-held-at-iteration-end", bool(not th.hold_count and not th.hold_fail), props=["C07"])
        ctx.check("loop/preserve:done_succ(me)==visited+{s}", self.inv(th.w, insert(self.visited, self.s)), props=["C01", "C04", "C06"])

    def at_exit(self, ctx, it):
        th = self.th
        x = z3.Const("x!le", Node)
        ctx.assume(z3.ForAll([x], member(self.visited, x) == member(G.succ(th.me), x)))
        w = th.interfere("w.fin")
        ctx.assume(self.inv(w, self.visited))
        th.step("finished", {"finished": insert(w.finished, th.me)})
        th.establish("loop-exit(finished+=me)", ("G2", "G6"))


def make_fn(th):
    def fn(node):
        ctx = th.ctx
        ctx.check("fn:called-on-the-token-node", bool(node is th.me_obj), props=["C01", "C04"])
        ctx.check("fn:called-at-most-once-per-token", bool(not th.fn_called), props=["C04"])
        ctx.check("fn:no-lock-held-during-user-call", bool(not th.hold_count and not th.hold_fail), props=["C07", "C10"])
        th.fn_called = True
        w = th.interfere("w.fn")
        p = z3.Const("p!fn", Node)
        ctx.check("fn/C01:every-predecessor-completed",
                  z3.ForAll([p], z3.Implies(member(G.pred(th.me), p), member(w.completed, p))), props=["C01", "C06"])
        ctx.check("fn/C04:not-started-before", z3.Not(member(w.started, th.me)), props=["C04"])
        ctx.check("fn/C10:only-after-an-unset-stop-was-read", bool(th.active), props=["C10"])
        th.step("start", {"started": insert(w.started, th.me)})
        th.establish("fn-entry(started+=me)", ("G2",))
        o = ctx.choose(5, "fn")
        if o == 0:
            w = th.interfere("w.fnret")
            th.step("complete", {"completed": insert(w.completed, th.me), "active": G.remove(w.active, th.me)})
            th.active = False
            th.establish("fn-return(completed+=me)", ("G1", "G2", "G6"))
            return None
        # an ordinary exception, a BaseException of the user's own, or one of the interpreter's exit requests raised by user code (sys.exit() in a
        # call, Ctrl-C delivered while it runs on this thread): none of them may escape process_node - a dead worker records nothing
        th.exc = (UserExc("boom"), UserBaseExc("boom"), SystemExit("boom"), KeyboardInterrupt())[o - 1]
        raise th.exc

    return fn


def run_process_node(ctx, k_none):
    from ujvc.z3env import ensure_repo_first

    ensure_repo_first()
    from uberjob._errors import NodeError

    ENV_CLASSES["NodeError"] = NodeError
    th = Thread(ctx, k_none)
    th.fn_called = False
    th.touched = []
    vc = VC(ctx, loops={})
    _succ_loop = SuccLoop(th)
    vc.resolve_loop = lambda key, it: _succ_loop if isinstance(it, SuccIter) else None   # matched by what is iterated, wherever the loop lives
    env = {
        "__sh": Shared(th),
        "__vc": vc,
        "fn": make_fn(th),
        "graph": GraphProxy(th),
        "single_parent_nodes": SingleSet(th),
        "queue": QueueProxy(th),
        "remaining_pred_count_lock": LockProxy(th, "count"),
        "remaining_pred_count_mapping": CountMap(th),
        "failure_lock": LockProxy(th, "fail"),
        "max_errors": None if k_none else SInt(ctx, th.st.k),
        "NodeError": NodeError,
        "isinstance": isinstance,
    }
    get(REL, "coerce_node_error").compile_into(env)
    ex = get(REL, "run_function_on_graph.<locals>.process_node", cut_loops="auto")
    pn = ex.compile_into(env)
    # shared state kept in one object instead of closure cells: the single free name of process_node that nothing supplies stands for it
    import builtins as _b

    from ujvc.extract import _global_names

    free = sorted(n for n in _global_names(pn.__code__) if n not in env and not hasattr(_b, n))
    uses_cells = "__sh" in _global_names(pn.__code__)
    if len(free) == 1 and not uses_cells:
        env[free[0]] = StateObject(th, env["__sh"])
    raised = None
    try:
        r = pn(th.me_obj)
    except EngineSignal:
        raise
    except BaseException as e:
        if ctx.dead is not None:
            raise ctx.dead
        ctx.classify(e)
        raised = e
    # postcondition
    ctx.check("post:no-exception-escapes-process_node", bool(raised is None), props=["C07", "C06"],
              info=f"escaped: {raised!r}")
    ctx.check("post:no-lock-held", bool(not th.hold_count and not th.hold_fail), props=["C07"])
    w = th.w
    ctx.check("post:node-skipped-or-failed-or-finished",
              z3.Or(member(w.skipped, th.me), member(w.failed, th.me), member(w.finished, th.me)), props=["C07", "C04"])
    ctx.check("post:not-counted-in-flight-any-more", bool(not th.active), props=["C10"])
    return "raises" if raised else "returns"


# reading stop == True: ghost skipped += me (attached here, after the read, as its own step is not needed:
# membership of `me` in skipped is owned by this thread)
def _wrap_skip(run):
    return run


@unit(
    "engine.process_node[max_errors=int]",
    props=["C01", "C04", "C06", "C07", "C10"],
    functions=[(REL, "run_function_on_graph.<locals>.process_node"), (REL, "coerce_node_error")],
    inlined=["coerce_node_error"],
    assumptions=["T2 sequentially consistent, one shared access per atomic step (GIL build)", "T4 threading.Lock is a mutex",
                 "T5 graph.successors yields each distinct successor once", "T14 rely/guarantee + ownership transfer through the queue (paper rule)",
                 "T16 exception instances are truthy"],
    min_obligations=40,
)
def process_node_int(ctx):
    return run_process_node(ctx, k_none=False)


@unit(
    "engine.process_node[max_errors=None]",
    props=["C01", "C04", "C06", "C07", "C10"],
    functions=[(REL, "run_function_on_graph.<locals>.process_node"), (REL, "coerce_node_error")],
    inlined=["coerce_node_error"],
    assumptions=["T2", "T4", "T5", "T14", "T16"],
    min_obligations=40,
)
def process_node_none(ctx):
    return run_process_node(ctx, k_none=True)


from .engine_replay import replay as _engine_replay  # noqa: E402

REPLAYS = [("engine.*", _engine_replay)]
