; benchmark generated from python API
(set-info :status unknown)
(declare-sort Key 0)
(declare-sort Name 0)
(declare-sort Node 0)
(declare-fun kind (Key) Int)
(declare-fun kname (Key) Name)
(declare-fun kidx (Key) Int)
(declare-fun DEP () Key)
(declare-fun plan.graph.N!1 () (Array Node Bool))
(declare-fun plan.graph.E!2 () (Array Node (Array Node (Array Key Bool))))
(declare-fun lit!3 () Node)
(declare-fun P!4 () (Array Node Bool))
(declare-fun S!5 () (Array Node Bool))
(declare-fun card ((Array Node Bool)) Int)
(assert
 (forall ((k!ka Key) )(and (>= (kind k!ka) 0) (<= (kind k!ka) 2)))
 )
(assert
 (forall ((k!ka Key) (k2!ka Key) )(let (($x40 (= k!ka k2!ka)))
 (let (($x50 (and (= (kidx k!ka) (kidx k2!ka)) (or (= (kind k!ka) 1) (= (kname k!ka) (kname k2!ka))))))
 (let (($x54 (and (= (kind k!ka) (kind k2!ka)) (or (= (kind k!ka) 0) $x50))))
 (=> $x54 $x40)))))
 )
(assert
 (let ((?x13 (kind DEP)))
 (= ?x13 0)))
(assert
 (forall ((u!wf Node) (v!wf Node) (k!wf Key) )(let (($x71 (and (select plan.graph.N!1 u!wf) (select plan.graph.N!1 v!wf))))
 (let (($x74 (select (select (select plan.graph.E!2 u!wf) v!wf) k!wf)))
 (=> $x74 $x71))))
 )
(assert
 (select plan.graph.N!1 lit!3))
(assert
 (forall ((k!sl Key) )(not (select (select (select plan.graph.E!2 lit!3) lit!3) k!sl)))
 )
(assert
 (forall ((x!ps Node) )(let (($x90 (exists ((k!ps Key) )(select (select (select plan.graph.E!2 x!ps) lit!3) k!ps))
 ))
 (= $x90 (select P!4 x!ps))))
 )
(assert
 (forall ((x!ps Node) )(let (($x82 (select S!5 x!ps)))
 (let (($x95 (exists ((k!ps Key) )(select (select (select plan.graph.E!2 lit!3) x!ps) k!ps))
 ))
 (= $x95 $x82))))
 )
(assert
 (forall ((x!ps Node) (k!ps Key) )(let ((?x20 (kind k!ps)))
 (let (($x98 (= ?x20 0)))
 (or (not (select (select (select plan.graph.E!2 lit!3) x!ps) k!ps)) $x98))))
 )
(assert
 (let ((?x103 (card P!4)))
 (>= ?x103 0)))
(assert
 (let ((?x118 (card S!5)))
 (>= ?x118 0)))
(assert
 (let (($x117 (not (<= (* (card P!4) (card S!5)) (+ (card P!4) (card S!5))))))
 (not $x117)))
(assert
 (let (($x179 (forall ((a!pl2 Node) (b!pl2 Node) (k!pl2 Key) )(let (($x148 (= k!pl2 DEP)))
(let (($x74 (select (select (select plan.graph.E!2 a!pl2) b!pl2) k!pl2)))
(let (($x177 (or $x74 (and $x148 (select (select ((as const (Array Node (Array Node Bool))) ((as const (Array Node Bool)) false)) a!pl2) b!pl2)))))
(= $x74 $x177)))))
))
(not $x179)))
(check-sat)
