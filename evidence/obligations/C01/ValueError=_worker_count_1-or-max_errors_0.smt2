; benchmark generated from python API
(set-info :status unknown)
(declare-fun worker_count!1 () Int)
(declare-fun max_errors!2 () Int)
(assert
 (not (<= 1 worker_count!1)))
(assert
 (let (($x13 (< max_errors!2 0)))
(let (($x37 (< worker_count!1 1)))
(let (($x35 (or $x37 $x13)))
(not $x35)))))
(check-sat)
