; benchmark generated from python API
(set-info :status unknown)
(declare-fun attempts!1 () Int)
(assert
 (let (($x14 (not (<= 1 attempts!1))))
 (not $x14)))
(assert
 (= 1 attempts!1))
(assert
 (let (($x35 (>= attempts!1 1)))
(not $x35)))
(check-sat)
