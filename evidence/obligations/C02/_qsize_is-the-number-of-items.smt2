; benchmark generated from python API
(set-info :status unknown)
(declare-fun n!2 () Int)
(assert
 (>= n!2 0))
(assert
 (let (($x34 (= n!2 n!2)))
(not $x34)))
(check-sat)
