; benchmark generated from python API
(set-info :status unknown)
(declare-fun n!1 () Int)
(declare-fun P!2 () Int)
(declare-fun K!3 () Int)
(declare-fun ekind (Int) Int)
(declare-fun pe (Int) Int)
(declare-fun eidx (Int) Int)
(declare-fun cntP (Int) Int)
(declare-fun ke (Int) Int)
(declare-fun cntK (Int) Int)
(declare-fun t!4 () Int)
(declare-fun keyword_arg_pairs.len!10 () Int)
(declare-fun args.len!7 () Int)
(assert
 (>= n!1 0))
(assert
 (>= P!2 0))
(assert
 (>= K!3 0))
(assert
 (forall ((t!wf Int) )(let (($x31 (and (>= (ekind t!wf) 0) (<= (ekind t!wf) 2))))
 (=> (and (>= t!wf 0) (< t!wf n!1)) $x31)))
 )
(assert
 (forall ((t!wf Int) )(let (($x44 (= (pe (eidx t!wf)) t!wf)))
 (let ((?x42 (eidx t!wf)))
 (let (($x46 (>= ?x42 0)))
 (=> (and (>= t!wf 0) (< t!wf n!1) (= (ekind t!wf) 1)) (and $x46 (< ?x42 P!2) $x44))))))
 )
(assert
 (forall ((i!wf Int) )(let (($x54 (= (eidx (pe i!wf)) i!wf)))
 (let (($x56 (= (ekind (pe i!wf)) 1)))
 (let ((?x52 (pe i!wf)))
 (let (($x58 (>= ?x52 0)))
 (let (($x33 (>= i!wf 0)))
 (let (($x61 (and $x33 (< i!wf P!2))))
 (=> $x61 (and $x58 (< ?x52 n!1) $x56 $x54)))))))))
 )
(assert
 (let ((?x18 (cntP 0)))
 (= ?x18 0)))
(assert
 (let ((?x20 (cntP n!1)))
 (= ?x20 P!2)))
(assert
 (forall ((t!wf Int) )(let (($x69 (= (ke (eidx t!wf)) t!wf)))
 (let ((?x42 (eidx t!wf)))
 (let (($x46 (>= ?x42 0)))
 (=> (and (>= t!wf 0) (< t!wf n!1) (= (ekind t!wf) 2)) (and $x46 (< ?x42 K!3) $x69))))))
 )
(assert
 (forall ((i!wf Int) )(let (($x78 (= (eidx (ke i!wf)) i!wf)))
 (let (($x80 (= (ekind (ke i!wf)) 2)))
 (let ((?x76 (ke i!wf)))
 (let (($x82 (>= ?x76 0)))
 (let (($x33 (>= i!wf 0)))
 (let (($x85 (and $x33 (< i!wf K!3))))
 (=> $x85 (and $x82 (< ?x76 n!1) $x80 $x78)))))))))
 )
(assert
 (let ((?x24 (cntK 0)))
 (= ?x24 0)))
(assert
 (let ((?x26 (cntK n!1)))
 (= ?x26 K!3)))
(assert
 (and (= 0 (cntP 0)) (= 0 (cntK 0))))
(assert
 (let (($x101 (>= t!4 0)))
 (and $x101 (<= t!4 n!1))))
(assert
 (let ((?x114 (cntK t!4)))
 (let (($x115 (= keyword_arg_pairs.len!10 ?x114)))
 (let ((?x96 (cntP t!4)))
 (let (($x95 (= args.len!7 ?x96)))
 (and $x95 $x115))))))
(assert
 (not (<= n!1 t!4)))
(assert
 (let ((?x122 (+ t!4 1)))
 (let ((?x130 (cntK ?x122)))
 (let ((?x117 (cntP ?x122)))
 (and (= ?x117 (+ (cntP t!4) (ite (= (ekind t!4) 1) 1 0))) (= ?x130 (+ (cntK t!4) (ite (= (ekind t!4) 2) 1 0))))))))
(assert
 (let ((?x125 (ekind t!4)))
 (= ?x125 0)))
(assert
 (let ((?x122 (+ t!4 1)))
(let ((?x130 (cntK ?x122)))
(let (($x148 (= keyword_arg_pairs.len!10 ?x130)))
(let (($x149 (and (= args.len!7 (cntP ?x122)) $x148)))
(not $x149))))))
(check-sat)
