; benchmark generated from python API
(set-info :status unknown)
(declare-sort Node 0)
(declare-fun items!1 () (Array Node Int))
(assert
 (let (($x11 (= items!1 items!1)))
(not $x11)))
(check-sat)
