; benchmark generated from python API
(set-info :status unknown)
(declare-fun mtime!1 () Int)
(declare-fun localoffset (Int Bool) Int)
(declare-fun fold!3 () Bool)
(declare-fun fields!2 () Int)
(assert
 (= (- fields!2 (localoffset fields!2 fold!3)) mtime!1))
(assert
 (let (($x12 (= (- fields!2 (localoffset fields!2 fold!3)) mtime!1)))
(not $x12)))
(check-sat)
