; benchmark generated from python API
(set-info :status unknown)
(declare-fun utcoffset!3 () Int)
(declare-fun fields!1 () Int)
(assert
 (let ((?x28 (- fields!1 utcoffset!3)))
(let (($x29 (= ?x28 ?x28)))
(not $x29))))
(check-sat)
