; benchmark generated from python API
(set-info :status unknown)
(declare-fun utcoffset!3 () Int)
(declare-fun fields!1 () Int)
(assert
 (let ((?x30 (- fields!1 utcoffset!3)))
(let (($x31 (= ?x30 ?x30)))
(not $x31))))
(check-sat)
