; benchmark generated from python API
(set-info :status unknown)
(declare-fun localoffset (Int Bool) Int)
(declare-fun fold!2 () Bool)
(declare-fun fields!1 () Int)
(assert
 (let ((?x7 (localoffset fields!1 fold!2)))
(let ((?x8 (- fields!1 ?x7)))
(let (($x10 (= ?x8 ?x8)))
(not $x10)))))
(check-sat)
