; benchmark generated from python API
(set-info :status unknown)
(declare-fun localoffset (Int Bool) Int)
(declare-fun fold!2 () Bool)
(declare-fun fields!1 () Int)
(assert
 (let ((?x9 (localoffset fields!1 fold!2)))
(let ((?x10 (- fields!1 ?x9)))
(let (($x12 (= ?x10 ?x10)))
(not $x12)))))
(check-sat)
