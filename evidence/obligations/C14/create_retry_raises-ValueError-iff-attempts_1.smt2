; benchmark generated from python API
(set-info :status unknown)
(declare-fun attempts!1 () Int)
(assert
 (not (<= 1 attempts!1)))
(assert
 (let (($x36 (< attempts!1 1)))
(not $x36)))
(check-sat)
