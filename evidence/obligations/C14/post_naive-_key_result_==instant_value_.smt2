; benchmark generated from python API
(set-info :status unknown)
(declare-fun localoffset (Int Bool) Int)
(declare-fun fold!2 () Bool)
(declare-fun fields!1 () Int)
(assert
 (let ((?x11 (localoffset fields!1 fold!2)))
(let ((?x12 (- fields!1 ?x11)))
(let (($x14 (= ?x12 ?x12)))
(not $x14)))))
(check-sat)
