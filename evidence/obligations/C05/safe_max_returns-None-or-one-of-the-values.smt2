; benchmark generated from python API
(set-info :status unknown)
(declare-fun xs!n!1 () Int)
(declare-fun xs!isnone (Int) Bool)
(declare-fun max!witness!3 () Int)
(declare-fun xs!val (Int) Int)
(assert
 (>= xs!n!1 0))
(assert
 (let (($x42 (not (xs!isnone max!witness!3))))
 (and (and (>= max!witness!3 0) (< max!witness!3 xs!n!1)) $x42)))
(assert
 (forall ((j!q Int) )(let ((?x51 (xs!val max!witness!3)))
 (let ((?x61 (xs!val j!q)))
 (let (($x62 (<= ?x61 ?x51)))
 (=> (and (and (>= j!q 0) (< j!q xs!n!1)) (not (xs!isnone j!q))) $x62)))))
 )
(assert
 (let (($x68 (exists ((j!q Int) )(let ((?x51 (xs!val max!witness!3)))
(let ((?x61 (xs!val j!q)))
(let (($x60 (= ?x61 ?x51)))
(let (($x36 (xs!isnone j!q)))
(let (($x63 (not $x36)))
(let (($x38 (>= j!q 0)))
(let (($x39 (and $x38 (< j!q xs!n!1))))
(and $x39 $x63 $x60)))))))))
))
(not $x68)))
(check-sat)
