; benchmark generated from python API
(set-info :status unknown)
(declare-fun xs!n!1 () Int)
(declare-fun xs!isnone (Int) Bool)
(assert
 (>= xs!n!1 0))
(assert
 (forall ((j!q Int) )(let (($x36 (xs!isnone j!q)))
 (let (($x38 (>= j!q 0)))
 (let (($x39 (and $x38 (< j!q xs!n!1))))
 (=> $x39 $x36)))))
 )
(assert
 (let (($x41 (forall ((j!q Int) )(let (($x36 (xs!isnone j!q)))
(let (($x38 (>= j!q 0)))
(let (($x39 (and $x38 (< j!q xs!n!1))))
(=> $x39 $x36)))))
))
(not $x41)))
(check-sat)
