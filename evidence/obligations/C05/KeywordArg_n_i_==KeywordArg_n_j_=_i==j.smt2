; benchmark generated from python API
(set-info :status unknown)
(declare-fun j!2 () Int)
(declare-fun i!1 () Int)
(assert
 (= i!1 j!2))
(assert
 (= i!1 j!2))
(assert
 (let (($x11 (= i!1 j!2)))
(not $x11)))
(check-sat)
