; benchmark generated from python API
(set-info :status unknown)
(declare-sort Key 0)
(declare-sort Name 0)
(declare-sort Node 0)
(declare-fun kind (Key) Int)
(declare-fun kname (Key) Name)
(declare-fun kidx (Key) Int)
(declare-fun DEP () Key)
(declare-fun source!3 () Node)
(declare-fun plan.graph.N!1 () (Array Node Bool))
(declare-fun target!4 () Node)
(assert
 (forall ((k!ka Key) )(and (>= (kind k!ka) 0) (<= (kind k!ka) 2)))
 )
(assert
 (forall ((k!ka Key) (k2!ka Key) )(let (($x40 (= k!ka k2!ka)))
 (let (($x50 (and (= (kidx k!ka) (kidx k2!ka)) (or (= (kind k!ka) 1) (= (kname k!ka) (kname k2!ka))))))
 (let (($x54 (and (= (kind k!ka) (kind k2!ka)) (or (= (kind k!ka) 0) $x50))))
 (=> $x54 $x40)))))
 )
(assert
 (let ((?x13 (kind DEP)))
 (= ?x13 0)))
(assert
 (select plan.graph.N!1 source!3))
(assert
 (select plan.graph.N!1 target!4))
(assert
 (let (($x63 (select plan.graph.N!1 target!4)))
(let (($x59 (select plan.graph.N!1 source!3)))
(let (($x71 (and $x59 $x63)))
(not $x71)))))
(check-sat)
