; benchmark generated from python API
(set-info :status unknown)
(assert
 (let (($x10 (= 0 0)))
(not $x10)))
(check-sat)
