; benchmark generated from python API
(set-info :status unknown)
(declare-sort Key 0)
(declare-sort Name 0)
(declare-sort Node 0)
(declare-fun kind (Key) Int)
(declare-fun kname (Key) Name)
(declare-fun kidx (Key) Int)
(declare-fun DEP () Key)
(declare-fun plan.graph.N!1 () (Array Node Bool))
(declare-fun plan.graph.E!2 () (Array Node (Array Node (Array Key Bool))))
(declare-fun n!3 () Node)
(declare-fun lit!4 () Node)
(declare-fun call!5 () Node)
(declare-fun pos (Int) Key)
(declare-fun lit!6 () Node)
(assert
 (forall ((k!ka Key) )(and (>= (kind k!ka) 0) (<= (kind k!ka) 2)))
 )
(assert
 (forall ((k!ka Key) (k2!ka Key) )(let (($x40 (= k!ka k2!ka)))
 (let (($x50 (and (= (kidx k!ka) (kidx k2!ka)) (or (= (kind k!ka) 1) (= (kname k!ka) (kname k2!ka))))))
 (let (($x54 (and (= (kind k!ka) (kind k2!ka)) (or (= (kind k!ka) 0) $x50))))
 (=> $x54 $x40)))))
 )
(assert
 (= (kind DEP) 0))
(assert
 (forall ((u!wf Node) (v!wf Node) (k!wf Key) )(let (($x71 (and (select plan.graph.N!1 u!wf) (select plan.graph.N!1 v!wf))))
 (let (($x74 (select (select (select plan.graph.E!2 u!wf) v!wf) k!wf)))
 (=> $x74 $x71))))
 )
(assert
 (select plan.graph.N!1 n!3))
(assert
 (forall ((k!self Key) )(not (select (select (select plan.graph.E!2 n!3) n!3) k!self)))
 )
(assert
 (not (select plan.graph.N!1 lit!4)))
(assert
 (not (select (store plan.graph.N!1 lit!4 true) call!5)))
(assert
 (and (distinct call!5 lit!4) true))
(assert
 (let (($x88 (= (kind (pos 0)) 1)))
 (and $x88 (= 0 (kidx (pos 0))))))
(assert
 (let ((?x78 (store plan.graph.N!1 lit!4 true)))
 (let ((?x85 (store ?x78 call!5 true)))
 (let ((?x98 (store ?x85 lit!4 true)))
 (let ((?x99 (store ?x98 call!5 true)))
 (not (select ?x99 lit!6)))))))
(assert
 (and (distinct lit!6 lit!4) true))
(assert
 (and (distinct lit!6 call!5) true))
(assert
 (let ((?x78 (store plan.graph.N!1 lit!4 true)))
(let ((?x85 (store ?x78 call!5 true)))
(let ((?x98 (store ?x85 lit!4 true)))
(let ((?x99 (store ?x98 call!5 true)))
(let ((?x120 (store ?x99 lit!6 true)))
(let (($x124 (= ?x120 ?x120)))
(let (($x142 (forall ((a!pl Node) (b!pl Node) (k!pl Key) )(let ((?x86 (pos 0)))
(let ((?x92 (select plan.graph.E!2 lit!4)))
(let ((?x97 (store plan.graph.E!2 lit!4 (store ?x92 call!5 (store (select ?x92 call!5) ?x86 true)))))
(let (($x139 (select (select (select ?x97 a!pl) b!pl) k!pl)))
(let (($x140 (or $x139 (and (select ((as const (Array Node Bool)) false) a!pl) (= b!pl lit!6) (= k!pl DEP)))))
(= $x139 $x140)))))))
))
(let (($x125 (and $x142 $x124)))
(not $x125))))))))))
(check-sat)
