; benchmark generated from python API
(set-info :status unknown)
(assert
 (not true))
(check-sat)
