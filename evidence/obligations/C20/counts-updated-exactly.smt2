; benchmark generated from python API
(set-info :status unknown)
(declare-fun completed_a!2 () Int)
(declare-fun failed_a!3 () Int)
(declare-fun running_a!4 () Int)
(declare-fun total_a!5 () Int)
(declare-fun completed_b!7 () Int)
(declare-fun failed_b!8 () Int)
(declare-fun running_b!9 () Int)
(declare-fun total_b!10 () Int)
(declare-fun t0!1 () Real)
(declare-fun t_begin!12 () Real)
(declare-fun t!13 () Real)
(assert
 (>= completed_a!2 0))
(assert
 (>= failed_a!3 0))
(assert
 (>= running_a!4 0))
(assert
 (>= total_a!5 0))
(assert
 (>= total_a!5 1))
(assert
 (let ((?x39 (+ (+ completed_a!2 failed_a!3) running_a!4)))
 (<= ?x39 total_a!5)))
(assert
 (>= completed_b!7 0))
(assert
 (>= failed_b!8 0))
(assert
 (>= running_b!9 0))
(assert
 (>= total_b!10 0))
(assert
 (>= total_b!10 1))
(assert
 (<= (+ (+ completed_b!7 failed_b!8) running_b!9) total_b!10))
(assert
 (let (($x64 (<= running_a!4 0)))
 (not $x64)))
(assert
 (let (($x63 (<= running_b!9 0)))
 (not $x63)))
(assert
 (>= t_begin!12 t0!1))
(assert
 (>= running_a!4 1))
(assert
 (>= t!13 t_begin!12))
(assert
 (let ((?x62 (+ running_a!4 running_b!9)))
 (let ((?x84 (to_real ?x62)))
 (and (distinct ?x84 0.0) true))))
(assert
 (not (= running_a!4 1)))
(assert
 (let ((?x62 (+ running_a!4 running_b!9)))
(let ((?x97 (- ?x62 1)))
(let (($x110 (= ?x97 (+ ?x62 (- 1)))))
(let ((?x96 (- running_a!4 1)))
(let (($x108 (= ?x96 (+ running_a!4 (- 1)))))
(let (($x90 (= completed_a!2 (+ completed_a!2 0))))
(let (($x111 (and $x90 (= (+ failed_a!3 1) (+ failed_a!3 1)) $x108 $x110)))
(not $x111)))))))))
(check-sat)
