; benchmark generated from python API
(set-info :status unknown)
(declare-fun version!3 () Int)
(declare-fun rendered!4 () Int)
(declare-fun stale!5 () Bool)
(declare-fun version!7 () Int)
(declare-fun stale!8 () Bool)
(assert
 true)
(assert
 (let (($x34 (= rendered!4 version!3)))
 (let (($x33 (not stale!5)))
 (=> $x33 $x34))))
(assert
 (>= version!7 version!3))
(assert
 (=> (> version!7 version!3) stale!8))
(assert
 (let (($x52 (= stale!8 stale!5)))
 (let (($x51 (= version!7 version!3)))
 (=> $x51 $x52))))
(assert
 stale!8)
(assert
 (let (($x46 (not false)))
(let (($x47 (=> $x46 (= version!7 version!7))))
(not $x47))))
(check-sat)
