; benchmark generated from python API
(set-info :status unknown)
(declare-fun whole_seconds!1 () Int)
(assert
 (>= whole_seconds!1 0))
(assert
 (let ((?x30 (div whole_seconds!1 3600)))
 (let (($x36 (= ?x30 0)))
 (not $x36))))
(assert
 (let ((?x34 (mod whole_seconds!1 60)))
(let ((?x42 (* ?x34 1)))
(let ((?x31 (mod whole_seconds!1 3600)))
(let ((?x33 (div ?x31 60)))
(let ((?x35 (* ?x33 60)))
(let (($x44 (= (+ (* (div whole_seconds!1 3600) 3600) ?x35 ?x42) whole_seconds!1)))
(not $x44))))))))
(check-sat)
