; benchmark generated from python API
(set-info :status unknown)
(declare-fun attempts!1 () Int)
(assert
 (let (($x10 (not (<= 1 attempts!1))))
 (not $x10)))
(assert
 (= 1 attempts!1))
(assert
 (let (($x31 (>= attempts!1 1)))
(not $x31)))
(check-sat)
