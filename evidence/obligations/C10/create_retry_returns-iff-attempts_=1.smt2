; benchmark generated from python API
(set-info :status unknown)
(declare-fun attempts!1 () Int)
(assert
 (let (($x11 (not (<= 1 attempts!1))))
 (not $x11)))
(assert
 (= 1 attempts!1))
(assert
 (let (($x32 (>= attempts!1 1)))
(not $x32)))
(check-sat)
