; benchmark generated from python API
(set-info :status unknown)
(declare-fun attempts!1 () Int)
(assert
 (let (($x12 (not (<= 1 attempts!1))))
 (not $x12)))
(assert
 (= 1 attempts!1))
(assert
 (let (($x33 (>= attempts!1 1)))
(not $x33)))
(check-sat)
