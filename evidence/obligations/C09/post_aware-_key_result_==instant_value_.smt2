; benchmark generated from python API
(set-info :status unknown)
(declare-fun utcoffset!3 () Int)
(declare-fun fields!1 () Int)
(assert
 (let ((?x32 (- fields!1 utcoffset!3)))
(let (($x33 (= ?x32 ?x32)))
(not $x33))))
(check-sat)
