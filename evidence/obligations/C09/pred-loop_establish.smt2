; benchmark generated from python API
(set-info :status unknown)
(declare-sort Key 0)
(declare-sort Name 0)
(declare-sort Node 0)
(declare-fun kind (Key) Int)
(declare-fun kname (Key) Name)
(declare-fun kidx (Key) Int)
(declare-fun DEP () Key)
(declare-fun plan.graph.N!1 () (Array Node Bool))
(declare-fun plan.graph.E!2 () (Array Node (Array Node (Array Key Bool))))
(declare-fun n!3 () Node)
(declare-fun lit!4 () Node)
(declare-fun call!5 () Node)
(declare-fun pos (Int) Key)
(declare-fun lit!6 () Node)
(assert
 (forall ((k!ka Key) )(and (>= (kind k!ka) 0) (<= (kind k!ka) 2)))
 )
(assert
 (forall ((k!ka Key) (k2!ka Key) )(let (($x38 (= k!ka k2!ka)))
 (let (($x48 (and (= (kidx k!ka) (kidx k2!ka)) (or (= (kind k!ka) 1) (= (kname k!ka) (kname k2!ka))))))
 (let (($x52 (and (= (kind k!ka) (kind k2!ka)) (or (= (kind k!ka) 0) $x48))))
 (=> $x52 $x38)))))
 )
(assert
 (= (kind DEP) 0))
(assert
 (forall ((u!wf Node) (v!wf Node) (k!wf Key) )(let (($x69 (and (select plan.graph.N!1 u!wf) (select plan.graph.N!1 v!wf))))
 (let (($x72 (select (select (select plan.graph.E!2 u!wf) v!wf) k!wf)))
 (=> $x72 $x69))))
 )
(assert
 (select plan.graph.N!1 n!3))
(assert
 (forall ((k!self Key) )(not (select (select (select plan.graph.E!2 n!3) n!3) k!self)))
 )
(assert
 (not (select plan.graph.N!1 lit!4)))
(assert
 (not (select (store plan.graph.N!1 lit!4 true) call!5)))
(assert
 (and (distinct call!5 lit!4) true))
(assert
 (let (($x86 (= (kind (pos 0)) 1)))
 (and $x86 (= 0 (kidx (pos 0))))))
(assert
 (let ((?x76 (store plan.graph.N!1 lit!4 true)))
 (let ((?x83 (store ?x76 call!5 true)))
 (let ((?x96 (store ?x83 lit!4 true)))
 (let ((?x97 (store ?x96 call!5 true)))
 (not (select ?x97 lit!6)))))))
(assert
 (and (distinct lit!6 lit!4) true))
(assert
 (and (distinct lit!6 call!5) true))
(assert
 (let ((?x76 (store plan.graph.N!1 lit!4 true)))
(let ((?x83 (store ?x76 call!5 true)))
(let ((?x96 (store ?x83 lit!4 true)))
(let ((?x97 (store ?x96 call!5 true)))
(let ((?x118 (store ?x97 lit!6 true)))
(let (($x122 (= ?x118 ?x118)))
(let (($x140 (forall ((a!pl Node) (b!pl Node) (k!pl Key) )(let ((?x84 (pos 0)))
(let ((?x90 (select plan.graph.E!2 lit!4)))
(let ((?x95 (store plan.graph.E!2 lit!4 (store ?x90 call!5 (store (select ?x90 call!5) ?x84 true)))))
(let (($x137 (select (select (select ?x95 a!pl) b!pl) k!pl)))
(let (($x138 (or $x137 (and (select ((as const (Array Node Bool)) false) a!pl) (= b!pl lit!6) (= k!pl DEP)))))
(= $x137 $x138)))))))
))
(let (($x123 (and $x140 $x122)))
(not $x123))))))))))
(check-sat)
