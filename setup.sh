#!/bin/sh
# Offline setup: nothing is built. The verifier runs under /venv/bin/python (the interpreter that runs the
# repository) and imports z3 from the pre-installed tooling venv (ujvc/z3env.py). This script only checks
# that those pieces are present.
set -e
cd "$(dirname "$0")"
/venv/bin/python - <<'PY'
import sys
sys.path.insert(0, "/verif")
from ujvc.z3env import z3, ensure_repo_first
ensure_repo_first()
import networkx, uberjob
print("z3", z3.get_version_string(), "networkx", networkx.__version__, "uberjob from", uberjob.__file__)
PY
test -x /usr/bin/cvc5 && echo "cvc5 ok"
