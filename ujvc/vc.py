"""Run-time side of the rewrites: the ``__vc`` object injected into extracted functions, basic
symbolic value proxies (SBool, SInt, SVal) and the loop-cut protocol."""
from __future__ import annotations

import builtins

from .core import Ctx, Poison, Unsupported
from .z3env import z3

IntS = z3.IntSort()
BoolS = z3.BoolSort()


# ---------------------------------------------------------------------------------------
# symbolic scalars
# ---------------------------------------------------------------------------------------
class SBool:
    __slots__ = ("ctx", "t", "label")

    def __init__(self, ctx, t, label="if"):
        self.ctx, self.t, self.label = ctx, t, label

    def __bool__(self):
        return self.ctx.branch(self.t, self.label)

    def __invert__(self):
        return SBool(self.ctx, z3.Not(self.t), self.label)

    def __and__(self, o):
        return SBool(self.ctx, z3.And(self.t, _b(o)), self.label)

    def __or__(self, o):
        return SBool(self.ctx, z3.Or(self.t, _b(o)), self.label)


def _b(x):
    if isinstance(x, SBool):
        return x.t
    if isinstance(x, bool):
        return z3.BoolVal(x)
    return x


def _i(x):
    if isinstance(x, SInt):
        return x.t
    if isinstance(x, bool):
        return z3.IntVal(int(x))
    if isinstance(x, int):
        return z3.IntVal(x)
    return None


class SInt:
    """Mathematical integer (exact for Python ints)."""

    __slots__ = ("ctx", "t")

    def __init__(self, ctx, t):
        self.ctx, self.t = ctx, t

    def _bin(self, o, f, rev=False):
        ot = _i(o)
        if ot is None:
            return NotImplemented
        return SInt(self.ctx, f(ot, self.t) if rev else f(self.t, ot))

    def _cmp(self, o, f, label):
        ot = _i(o)
        if ot is None:
            return NotImplemented
        return SBool(self.ctx, f(self.t, ot), label)

    def __add__(self, o):
        return self._bin(o, lambda a, b: a + b)

    def __radd__(self, o):
        return self._bin(o, lambda a, b: a + b, True)

    def __sub__(self, o):
        return self._bin(o, lambda a, b: a - b)

    def __rsub__(self, o):
        return self._bin(o, lambda a, b: a - b, True)

    def __mul__(self, o):
        return self._bin(o, lambda a, b: a * b)

    def __rmul__(self, o):
        return self._bin(o, lambda a, b: a * b, True)

    def __neg__(self):
        return SInt(self.ctx, -self.t)

    def __eq__(self, o):
        r = self._cmp(o, lambda a, b: a == b, "==")
        return False if r is NotImplemented else r

    def __ne__(self, o):
        r = self._cmp(o, lambda a, b: a != b, "!=")
        return True if r is NotImplemented else r

    def __lt__(self, o):
        return self._cmp(o, lambda a, b: a < b, "<")

    def __le__(self, o):
        return self._cmp(o, lambda a, b: a <= b, "<=")

    def __gt__(self, o):
        return self._cmp(o, lambda a, b: a > b, ">")

    def __ge__(self, o):
        return self._cmp(o, lambda a, b: a >= b, ">=")

    def __bool__(self):
        return self.ctx.branch(self.t != 0, "int-truth")

    def __hash__(self):
        raise Unsupported("hash of a symbolic integer")

    def __index__(self):
        raise Unsupported("symbolic integer used as a concrete index")

    def __repr__(self):
        return f"SInt({self.t})"


class SVal:
    """Opaque symbolic value of an uninterpreted sort; supports only equality."""

    __slots__ = ("ctx", "t")

    def __init__(self, ctx, t):
        self.ctx, self.t = ctx, t

    def __eq__(self, o):
        if isinstance(o, SVal) and o.t.sort() == self.t.sort():
            return SBool(self.ctx, self.t == o.t, "==")
        return False

    def __ne__(self, o):
        if isinstance(o, SVal) and o.t.sort() == self.t.sort():
            return SBool(self.ctx, self.t != o.t, "!=")
        return True

    def __hash__(self):
        raise Unsupported("hash of a symbolic value")

    def __repr__(self):
        return f"SVal({self.t})"


class SymRange:
    """range(n) with symbolic n (only usable as the iterable of a cut loop)."""

    def __init__(self, ctx, start, stop):
        self.ctx, self.start, self.stop = ctx, start, stop

    def __iter__(self):
        raise Unsupported("iteration over a symbolic range outside a cut loop")


# ---------------------------------------------------------------------------------------
# loop-cut protocol
# ---------------------------------------------------------------------------------------
class LoopContract:
    """Sidecar loop contract.  Subclasses override the hooks; all state lives in `self`
    (a fresh instance per path is created by the unit harness)."""

    unchanged = ()  # names assigned in the body that the contract promises keep their value

    def establish(self, ctx, it, locs):
        """Check the invariant in the entry state (obligation)."""

    def havoc(self, ctx, it, locs):
        """Havoc the frame, assume the invariant for an arbitrary iteration; return
        {local name: value} for the locals the loop assigns."""
        return {}

    def iterate(self, ctx, it):
        """for-loops: decide 'one more element'; on True must prepare self.current."""
        return ctx.choose(2, "loop") == 0

    current = None

    def preserve(self, ctx, locs):
        """Check the invariant after one iteration (obligation)."""

    def at_exit(self, ctx, it):
        """Assume the exit condition (all elements visited)."""


class _LoopRT:
    def __init__(self, vc, key, contract, it, locs, assigned):
        self.vc, self.key, self.c, self.it = vc, key, contract, it
        self.locs = locs
        self.assigned = assigned
        ctx = vc.ctx
        contract.establish(ctx, it, locs)
        self.hvd = contract.havoc(ctx, it, locs) or {}

    def hv(self, name):
        if name in self.hvd:
            return self.hvd[name]
        if name in self.c.unchanged and name in self.locs:
            return self.locs[name]
        return Poison(name)

    def iterate(self):
        return self.c.iterate(self.vc.ctx, self.it)

    def once(self):
        yield self.c.current

    def end_iteration(self, locs):
        self.c.preserve(self.vc.ctx, locs)
        self.vc.ctx.end_path(f"loop[{self.key}]-iteration-end")

    def exit(self):
        self.c.at_exit(self.vc.ctx, self.it)


class VC:
    """The ``__vc`` object of an extracted function."""

    def __init__(self, ctx: Ctx, loops=None, comps=None):
        self.ctx = ctx
        self.loops = loops or {}
        self.comps = comps or {}

    def resolve_loop(self, key, it):
        """cut_loops='auto': the sidecar picks the loop contract from the VALUE being iterated (robust against
        reordered / restructured loops); default: none"""
        return None

    def loop(self, key, it, locs, assigned):
        c = self.loops.get(key)
        if c is None:
            c = self.resolve_loop(key, it)
        if c is None:
            self.ctx.unsupported(f"no loop contract for loop {key} over {type(it).__name__}")
        return _LoopRT(self, key, c, it, locs, assigned)

    def comp(self, key, it, elt, cond):
        h = getattr(it, "__vc_comp__", None)
        if h is not None:
            return h(self, key, elt, cond)
        kind = key.split("#")[0]
        gen = (elt(x) for x in it if (cond is None or cond(x)))
        if kind == "list":
            return list(gen)
        if kind == "set":
            return set(gen)
        if kind == "dict":
            return dict(gen)
        return gen

    def call_star(self, func, pos, star, kw):
        """R10: default semantics of  func(*pos, *star, **kw)"""
        return func(*pos, *star, **kw)

    # builtins that understand proxies ----------------------------------------------------
    def range(self, *a):
        if any(isinstance(x, SInt) for x in a):
            if len(a) == 1:
                return SymRange(self.ctx, 0, a[0])
            if len(a) == 2:
                return SymRange(self.ctx, a[0], a[1])
            self.ctx.unsupported("symbolic range with step")
        return builtins.range(*a)

    def len(self, x):
        h = getattr(x, "__vc_len__", None)
        if h is not None:
            return h()
        return builtins.len(x)


class RangeLoop(LoopContract):
    """``for i in range(n)`` with symbolic n.  Subclasses give inv(ctx, i) over ghost state
    and havoc_state(ctx)."""

    def __init__(self):
        self.i = None

    def inv(self, ctx, i):
        return z3.BoolVal(True)

    def havoc_state(self, ctx):
        pass

    def establish(self, ctx, it, locs):
        ctx.check("loop/establish", self.inv(ctx, _i(it.start) if not isinstance(it.start, int) else z3.IntVal(it.start)))

    def havoc(self, ctx, it, locs):
        self.havoc_state(ctx)
        self.i = ctx.fresh(IntS, "i")
        start = _i(it.start)
        ctx.assume(self.i >= start)
        # semantics of range(start, stop): the index never passes max(start, stop)
        ctx.assume(z3.Or(self.i <= _i(it.stop), self.i == start))
        ctx.assume(self.inv(ctx, self.i))
        return {}

    exit_unreachable = False

    def iterate(self, ctx, it):
        stop = _i(it.stop)
        if self.exit_unreachable:
            ctx.check("loop/exit-unreachable", self.i < stop)
        if ctx.branch(self.i < stop, "loop-iterate"):
            self.current = SInt(ctx, self.i)
            return True
        return False

    def preserve(self, ctx, locs):
        ctx.check("loop/preserve", self.inv(ctx, self.i + 1))

    def at_exit(self, ctx, it):
        pass
