"""Registry of proof units.  A unit = one function (or a small group inlined together) of
/repo under a sidecar contract, executed path by path; it yields named obligations tagged
with the properties they carry."""
from __future__ import annotations

import time
import traceback
from dataclasses import dataclass, field

from . import core


@dataclass
class Unit:
    name: str
    run: object
    props: tuple
    functions: tuple = ()  # (relpath, qualname) of the real functions executed by the unit
    assumptions: tuple = ()  # T-numbers / text
    inlined: tuple = ()
    doc: str = ""
    post: object = None  # optional: post(paths) -> list[Obligation] (cross-path obligations, covers)
    min_obligations: int = 1
    max_paths: int = core.MAX_PATHS
    kind: str = "symbolic"
    prove_timeout_ms: int = core.PROVE_TIMEOUT_MS


UNITS: dict[str, Unit] = {}


def unit(name, props, functions=(), assumptions=(), inlined=(), post=None, min_obligations=1, max_paths=core.MAX_PATHS, kind="symbolic",
         prove_timeout_ms=core.PROVE_TIMEOUT_MS):
    def deco(f):
        UNITS[name] = Unit(
            name=name,
            run=f,
            props=tuple(props),
            functions=tuple(functions),
            assumptions=tuple(assumptions),
            inlined=tuple(inlined),
            doc=(f.__doc__ or "").strip(),
            post=post,
            min_obligations=min_obligations,
            max_paths=max_paths,
            kind=kind,
            prove_timeout_ms=prove_timeout_ms,
        )
        return f

    return deco


@dataclass
class UnitResult:
    name: str
    status: str  # ok | undecided | crash
    message: str = ""
    paths: int = 0
    paths_infeasible: int = 0
    obligations: list = field(default_factory=list)  # dicts
    wall_s: float = 0.0
    solver_s: float = 0.0
    extracted: dict = field(default_factory=dict)  # qualname -> rewritten text
    sources: dict = field(default_factory=dict)  # qualname -> sha
    path_ends: dict = field(default_factory=dict)


def _ob_dict(ob, keep_model=True):
    return {
        "name": ob.name,
        "props": list(ob.props),
        "verdict": ob.verdict,
        "backend": ob.backend,
        "time_s": round(ob.time_s, 4),
        "path": list(ob.path),
        "goal": core.goal_str(ob),
        "pc_size": len(ob.pc),
        "model": ob.model if keep_model else "",
        "info": ob.info,
        "smt2": ob.smt2,
    }


EXTRACTED_LOG = {}  # filled by contracts when they extract (qualname -> (text, sha))


def run_unit(name, keep_smt2=2):
    """Run one unit in this process; returns a picklable UnitResult."""
    from .extract import ExtractionError

    u = UNITS[name]
    t0 = time.time()
    res = UnitResult(name=name, status="ok")
    EXTRACTED_LOG.clear()
    from . import extract as _ex0

    del _ex0.AUTOINLINED[:]
    try:
        paths = core.explore(u.run, unit_name=name, max_paths=u.max_paths, props=u.props)
    except ExtractionError as e:
        res.status, res.message = "undecided", f"extraction refused: {e}"
        res.wall_s = time.time() - t0
        return res
    except Exception as e:
        res.status, res.message = "crash", "".join(traceback.format_exception(type(e), e, e.__traceback__))[-4000:]
        res.wall_s = time.time() - t0
        return res
    obs = []
    ends = {}
    for p in paths:
        ek = p.end.split(":")[0] if p.end.startswith("end:") else p.end
        ends[ek] = ends.get(ek, 0) + 1
        if p.end == "infeasible":
            res.paths_infeasible += 1
            continue
        res.paths += 1
        if p.end in ("unsupported", "crash"):
            res.status = "undecided" if p.end == "unsupported" else "crash"
            res.message = f"path {p.labels}: {p.error}"
        obs.extend(p.obligations)
    res.path_ends = ends
    if u.post is not None and res.status == "ok":
        try:
            obs.extend(u.post(paths) or [])
        except Exception as e:
            res.status, res.message = "crash", "".join(traceback.format_exception(type(e), e, e.__traceback__))[-4000:]
    # vacuity guard (thorough tier): the final path condition of every path with quantified assumptions must have a model
    # in some finite scope - a contradictory precondition / invariant / lemma instance would make every obligation trivial
    import os as _os

    cover_skipped = []
    if _os.environ.get("UJVC_TIER") == "thorough" and res.status == "ok":
        covered = 0
        for p in paths:
            if p.end == "infeasible" or not p.obligations or covered >= 40:
                continue
            last = p.obligations[-1]
            pc = list(last.pc) + ([] if isinstance(last.goal, bool) else [last.goal])
            if not any(core._has_quantifier(f) for f in pc if not isinstance(f, bool)):
                continue
            covered += 1
            v, m, k = core.refute_finite(pc, core.z3.BoolVal(False), kmax=6)
            if v == "refuted":     # a model of the assumptions exists: the path's obligations are not vacuous
                ob = core.Obligation(name=f"{name}/cover:path-condition-satisfiable-in-a-finite-scope", pc=[], goal=True, props=tuple(u.props),
                                     path=tuple(p.labels), info=f"finite-scope model found (K={k})")
                ob.backend = "z3-finite-scope"
                obs.append(ob)
            elif m.startswith("no finite-scope expansion"):
                # quantifiers over Int (positions of a symbolic sequence) cannot be expanded: the cover is not applicable to this path
                cover_skipped.append(f"{p.labels}: {m}")
            else:
                # no model up to K = 6: possibly contradictory assumptions - a vacuity ALARM about the sidecar, never a verdict about the code
                res.status, res.message = "undecided", f"vacuity guard: the assumptions of path {p.labels} have no finite-scope model up to K={k} ({v})"
    kept = 0
    for ob in obs:
        want = kept < keep_smt2 and not isinstance(ob.goal, bool)
        core.discharge(ob, timeout_ms=u.prove_timeout_ms, keep_smt2=want)
        if want and ob.smt2:
            kept += 1
        res.solver_s += ob.time_s
    obs = _select_alternative(obs)
    res.obligations = [_ob_dict(ob) for ob in obs]
    if res.status == "ok" and len(obs) < u.min_obligations:
        res.status, res.message = "undecided", f"vacuity guard: {len(obs)} obligations generated, at least {u.min_obligations} expected"
    from . import extract as _ex

    for ex in _ex.AUTOINLINED:
        EXTRACTED_LOG.setdefault(f"{ex.relpath}:{ex.qualname} [auto-inlined, R9]", (ex.text, ex.sha))
    del _ex.AUTOINLINED[:]
    res.extracted = {k: v[0] for k, v in EXTRACTED_LOG.items()}
    res.sources = {k: v[1] for k, v in EXTRACTED_LOG.items()}
    res.wall_s = time.time() - t0
    return res


def get(relpath, qualname, **kw):
    """extract + log (so that evidence can show exactly what text was executed)."""
    from .extract import extract

    ex = extract(relpath, qualname, **kw)
    EXTRACTED_LOG[f"{relpath}:{qualname}"] = (ex.text, ex.sha)
    return ex


def base_env(relpath, keep=()):
    """Environment for an extracted function: the NON-callable module-level names (constants such as DONE, STAGING_SUFFIX,
    MAX_TRACEBACK_DEPTH, GATHER_LOOKUP, plain data) of the real module in the tree under test, evaluated natively (R1), plus the
    callables named in `keep`.  Everything else must be supplied by the sidecar (stubs / proxies / inlined extractions)."""
    import importlib
    import types

    from .z3env import ensure_repo_first

    ensure_repo_first()
    modname = "uberjob." + relpath[:-3].replace("/", ".")
    if modname.endswith(".__init__"):
        modname = modname[: -len(".__init__")]
    mod = importlib.import_module(modname)
    env = {}
    env.update(pure_stdlib())
    for k, v in vars(mod).items():
        if k.startswith("__"):
            continue
        if k in keep or not (callable(v) or isinstance(v, types.ModuleType)):
            env[k] = v
    return env


def call_by_name(fn, *args, **available):
    """Call an extracted function whose former closure variables may have become parameters (or vice versa): parameters that
    `args` does not cover are bound BY NAME from `available`; names the function does not take are ignored (they are then
    globals of its environment, where the sidecar put the same objects)."""
    import inspect

    try:
        params = list(inspect.signature(fn).parameters.values())
    except (TypeError, ValueError):
        return fn(*args)
    kw = {}
    for prm in params[len(args):]:
        if prm.kind in (prm.POSITIONAL_OR_KEYWORD, prm.KEYWORD_ONLY) and prm.name in available:
            kw[prm.name] = available[prm.name]
    return fn(*args, **kw)


class UserValue(list):
    """Stand-in for a value that belongs to the user (a call result, a literal, an argument, a stored value): deliberately awkward the way real
    values are - FALSY and of length 0, UNHASHABLE, EQUAL to every other empty list yet a distinct object, iterable, an instance (but not the exact
    type) of a builtin container.  The library must treat such values as opaque: consult their truth value, compare, hash, sort, copy or iterate
    them and an identity obligation of the unit fails."""

    def __init__(self, tag=""):
        list.__init__(self)
        self.tag = tag

    def __repr__(self):
        return f"<user value {self.tag or hex(id(self))}>"


def user_value(tag=""):
    return UserValue(tag)


def pure_stdlib():
    """pure helper modules of the standard library that extracted code may use whatever the sidecar anticipated (a refactoring may
    introduce e.g. collections.defaultdict or itertools.chain); applied to symbolic proxies they raise TypeError -> undecided"""
    import collections
    import contextlib
    import functools
    import itertools
    import operator

    return {"collections": collections, "itertools": itertools, "functools": functools, "operator": operator, "contextlib": contextlib}


def pure_stdlib_from_imports():
    """modules whose names are supplied when the REAL module imports them with ``from <module> import name`` (types, ABCs, decorators without side effects)"""
    import collections.abc
    import dataclasses
    import enum
    import typing

    d = dict(pure_stdlib())
    d.update({"collections.abc": collections.abc, "typing": typing, "dataclasses": dataclasses, "enum": enum})
    return d


def real_method_fallback(relpath, classname, env, **extract_kw):
    """__getattr__ for a sidecar's ``self`` proxy: an attribute the proxy does not define that is a method of the REAL class
    (typically a helper method introduced by a refactoring) is extracted with the usual rewrites, compiled into the unit's
    environment and bound to the proxy - verified inline like R9 does for module-level helpers."""
    import types

    from .extract import ExtractionError

    def __getattr__(self, name):
        if name.startswith("__"):
            raise AttributeError(name)
        try:
            ex = get(relpath, f"{classname}.{name}", **({"cut_loops": "auto"} | extract_kw))
        except ExtractionError:
            raise AttributeError(name) from None
        if not hasattr(ex.node, "args"):
            raise AttributeError(name)
        fn = ex.compile_into(env)
        return types.MethodType(fn, self)

    return __getattr__


def _select_alternative(obs):
    """Disjunctive proof attempts: a sidecar may offer several candidate invariants for one loop through a decision whose label starts
    with ``alt:`` (each candidate is a separate set of paths and is checked completely: establish, preserve, everything that follows).
    The proof stands if ONE candidate discharges all of its obligations; the obligations of the other candidates are then dropped.  If
    none does, the obligations of the candidate with the fewest undischarged obligations are reported (the primary one on a tie)."""
    groups = {}
    for ob in obs:
        for lab in ob.path:
            if lab.startswith("alt:"):
                groups.setdefault(lab, []).append(ob)
    if len(groups) < 2:
        return obs
    keys = sorted(groups)
    winner = next((k for k in keys if all(o.verdict == "discharged" for o in groups[k])), None)
    if winner is None:
        # no candidate proves the loop: report the candidate that comes closest (fewest undischarged obligations; the primary one on a tie), so
        # that the message names what is wrong with the code rather than why a candidate of another loop shape does not even start
        def missing(k):
            return sum(1 for o in groups[k] if o.verdict != "discharged")

        winner = min(keys, key=lambda k: (missing(k), keys.index(k)))
    drop = {id(o) for k in keys if k != winner for o in groups[k]}
    return [o for o in obs if id(o) not in drop]


def run_native(script, timeout, env_extra=None, argv=("-c",)):
    """Run a native probe script against the tree under test with a wall-clock limit.  Returns dict(rc, out, timed_out).  A probe that does not
    finish within its limit is reported as such (the real code hangs, or the machine is badly overloaded): the caller turns it into a FAILED check
    of a 'finished within the time limit' obligation when the probe is about termination, and into 'undecided' otherwise."""
    import os
    import subprocess

    from .z3env import REPO_SRC

    env = dict(os.environ, PYTHONPATH=REPO_SRC)
    env.update(env_extra or {})
    try:
        p = subprocess.run(["/venv/bin/python", *argv, script], env=env, capture_output=True, text=True, timeout=timeout)
        return {"rc": p.returncode, "out": p.stdout[-3000:] + p.stderr[-1500:], "timed_out": False}
    except subprocess.TimeoutExpired as e:
        out = (e.stdout.decode(errors="replace") if isinstance(e.stdout, bytes) else (e.stdout or ""))[-2500:]
        return {"rc": None, "out": out + f"\n<probe killed after {timeout} s without finishing>", "timed_out": True}


class _NativeResult:
    def __init__(self, returncode, stdout, stderr):
        self.returncode, self.stdout, self.stderr = returncode, stdout, stderr


def run_native_p(args, env=None, timeout=300, **kw):
    """subprocess.run for the native probes / replays that never raises on a time-out: a probe that does not finish gets returncode 124 (neither
    0 = clean nor 1 = violation found), which every caller treats as 'the probe did not run' -> undecided"""
    import subprocess

    try:
        p = subprocess.run(args, env=env, capture_output=True, text=True, timeout=timeout)
        return _NativeResult(p.returncode, p.stdout, p.stderr)
    except subprocess.TimeoutExpired as e:
        out = e.stdout.decode(errors="replace") if isinstance(e.stdout, bytes) else (e.stdout or "")
        return _NativeResult(124, out, f"<killed after {timeout} s without finishing>")
