"""ujvc core: path exploration by native re-execution, obligations, discharge.

The program text under verification is executed by CPython itself on proxy objects.  Every
point where execution depends on a symbolic value (a proxy's truth value, a contract stub
with several outcomes, a cut loop) is a *decision*.  A path is a vector of decisions; paths
are enumerated depth first by re-running the unit with a longer decision prefix.  Along a
path the context accumulates a path condition (z3 formulas) and emits obligations
``pc |- goal`` which are discharged afterwards by an SMT back end (z3; cvc5 for the
cardinality lemma schemas, see lemmas.py).  Obligations whose goal is a concrete Python
boolean (identity of exception objects, contents of a concrete call log) are decided by
CPython itself and are reported with back end ``cpython``.
"""
from __future__ import annotations

import time
import traceback
from dataclasses import dataclass, field

from .z3env import z3

MAX_PATHS = 20000
FEAS_TIMEOUT_MS = 1500
PROVE_TIMEOUT_MS = 8000
REFUTE_TIMEOUT_MS = 10000


class EngineSignal(BaseException):
    """Base of the engine's own control-flow signals.  They derive from BaseException and the
    context is marked dead before they are raised, so that code under verification which
    catches BaseException cannot swallow them unnoticed."""


class PathEnd(EngineSignal):
    """The path ends here normally (e.g. end of a cut loop iteration)."""


class Infeasible(EngineSignal):
    """The path condition became unsatisfiable."""


class Unsupported(EngineSignal):
    """The program used an operation the engine does not model: the unit is undecided."""


class Poison:
    """Value of a local that a cut loop may have modified and for which the loop contract
    supplies no value: any use makes the unit undecided instead of unsound."""

    def __init__(self, name):
        object.__setattr__(self, "_name", name)

    def _boom(self, *a, **k):
        raise Unsupported(f"use of local {self._name!r} modified by a cut loop but not described by its contract")

    __bool__ = __call__ = __getattr__ = __getitem__ = __iter__ = __len__ = _boom
    __eq__ = __ne__ = __lt__ = __gt__ = __le__ = __ge__ = __add__ = __sub__ = __hash__ = _boom


@dataclass
class Obligation:
    name: str
    pc: list
    goal: object  # z3 BoolRef or python bool
    props: tuple = ()
    path: tuple = ()
    info: str = ""
    # filled by discharge
    verdict: str = ""  # discharged | refuted | unknown
    backend: str = ""
    time_s: float = 0.0
    model: str = ""
    smt2: str = ""


@dataclass
class PathResult:
    decisions: tuple
    labels: tuple
    end: str
    obligations: list
    log: list
    error: str = ""


class Ctx:
    """Per-path execution context."""

    def __init__(self, prefix=(), unit_name=""):
        self.prefix = tuple(prefix)
        self.unit_name = unit_name
        self.taken = []  # (choice, arity, label)
        self.pc = []
        self.obligations = []
        self.log = []  # ghost event log (call log of stubs etc.)
        self.n = 0
        self.dead = None
        self.solver = z3.Solver()
        self.solver.set("timeout", FEAS_TIMEOUT_MS)
        self.props = ()
        self.infeasible_pruned = 0

    # -- housekeeping -------------------------------------------------------------------
    def _alive(self):
        if self.dead is not None:
            raise self.dead

    def die(self, signal):
        self.dead = signal
        raise signal

    def unsupported(self, msg):
        self.die(Unsupported(msg))

    def classify(self, e):
        """to be called by a unit that catches the exceptions of the code under verification itself: ends the path as undecided when the exception only
        says that no contract applies (see no_contract_applies)"""
        m = no_contract_applies(e)
        if m is not None:
            self.unsupported(m)

    def end_path(self, why="end"):
        self.die(PathEnd(why))

    def fresh(self, sort, hint="v"):
        self.n += 1
        return z3.Const(f"{hint}!{self.n}", sort)

    def fresh_name(self, hint="v"):
        self.n += 1
        return f"{hint}!{self.n}"

    def labels(self):
        return tuple(f"{lab}={c}" for c, _, lab in self.taken)

    # -- decisions ----------------------------------------------------------------------
    def choose(self, n, label):
        """n-ary nondeterministic choice; returns 0..n-1."""
        self._alive()
        if n <= 0:
            self.die(Infeasible(f"empty choice {label}"))
        if n == 1:
            return 0
        i = len(self.taken)
        c = self.prefix[i] if i < len(self.prefix) else 0
        if c >= n:
            self.die(Unsupported(f"decision replay mismatch at {label}: {c} >= {n}"))
        self.taken.append((c, n, label))
        return c

    def _sat(self, f):
        self.solver.push()
        self.solver.add(f)
        r = self.solver.check()
        self.solver.pop()
        return r

    def branch(self, cond, label="if"):
        """Decide a symbolic condition.  Infeasible sides are pruned (an `unknown` from the
        solver counts as feasible, which is the sound direction: more paths, never fewer)."""
        self._alive()
        if isinstance(cond, bool):
            return cond
        c = z3.simplify(cond)
        if z3.is_true(c):
            return True
        if z3.is_false(c):
            return False
        t = self._sat(c) != z3.unsat
        f = self._sat(z3.Not(c)) != z3.unsat
        if not t and not f:
            self.die(Infeasible("path condition unsatisfiable at " + label))
        if t and not f:
            self.infeasible_pruned += 1
            return True
        if f and not t:
            self.infeasible_pruned += 1
            return False
        k = self.choose(2, label)
        v = k == 0
        self.assume(c if v else z3.Not(c))
        return v

    # -- facts and obligations -----------------------------------------------------------
    def assume(self, f):
        self._alive()
        if isinstance(f, bool):
            if not f:
                self.die(Infeasible("assume False"))
            return
        self.pc.append(f)
        self._feas_add(f)

    def _feas_add(self, f):
        """The incremental solver that prunes infeasible branches only sees the quantifier-free part of
        the path condition (sound: fewer assumptions can only keep more paths alive) - quantified
        invariants make every feasibility query time out."""
        if not _has_quantifier(f):
            self.solver.add(f)

    def check(self, name, goal, props=None, info="", backend=None):
        """Emit obligation pc |- goal, then continue under the assumption that it holds."""
        self._alive()
        ob = Obligation(
            name=f"{self.unit_name}/{name}" if self.unit_name else name,
            pc=list(self.pc),
            goal=goal,
            props=tuple(props if props is not None else self.props),
            path=self.labels(),
            info=info,
        )
        if backend:
            ob.backend = backend
        self.obligations.append(ob)
        if isinstance(goal, bool):
            return
        self.pc.append(goal)
        self._feas_add(goal)

    def event(self, *ev):
        self._alive()
        self.log.append(ev)

    def feasible_now(self):
        return self.solver.check() != z3.unsat


def _raised_in_code_under_test(e):
    from .z3env import REPO_SRC

    tb = e.__traceback__
    last = None
    while tb is not None:
        last = tb
        tb = tb.tb_next
    return last is not None and last.tb_frame.f_code.co_filename.startswith(REPO_SRC)


def _passes_through_code_under_test(e):
    from .z3env import REPO_SRC

    tb = e.__traceback__
    while tb is not None:
        if tb.tb_frame.f_code.co_filename.startswith(REPO_SRC):
            return True
        tb = tb.tb_next
    return False


def _callee_is_code_under_test(e):
    """``f() got multiple values for argument 'x'`` and the like name the callee.  When that callee is itself a function of the repository (extracted or
    inlined into the unit: compiled under its real file name) the mismatch is between two pieces of the code under verification - a behaviour of the
    code for the arguments the unit passed (e.g. a helper whose own parameter names collide with the keyword arguments of the user's call), not a
    disagreement with a sidecar stub."""
    from .z3env import REPO_SRC

    m = str(e).split("(", 1)[0].strip()
    name = m.rsplit(".", 1)[-1]
    if not name.isidentifier():
        return False
    tb = e.__traceback__
    last = None
    while tb is not None:
        last = tb
        tb = tb.tb_next
    if last is None:
        return False
    fr = last.tb_frame
    for scope in (fr.f_locals, fr.f_globals):
        o = scope.get(name)
        code = getattr(getattr(o, "__wrapped__", o), "__code__", None)
        if code is not None:
            return code.co_filename.startswith(REPO_SRC)
    return False


def no_contract_applies(e):
    """Exceptions that mean 'the code uses the sidecar's stubs / environment in a way no contract describes' - never a verdict about the code:
    a missing global of the extracted code, an attribute a sidecar stub does not model, a stub called with another signature, a name of the
    real package that no longer exists.  Returns a message, or None when the exception is a behaviour of the code under verification."""
    if isinstance(e, EngineSignal):
        return None
    msg = f"code no longer matches the sidecar's contracts: {type(e).__name__}: {e}"
    if type(e) is NameError and "is not defined" in str(e) and getattr(e, "name", None) and _raised_in_code_under_test(e):
        return msg
    if type(e) is AttributeError and _is_sidecar_object(getattr(e, "obj", None)) and _raised_in_code_under_test(e):
        return msg
    if type(e) is TypeError and _raised_in_code_under_test(e) and any(w in str(e) for w in (
            "unexpected keyword argument", "required positional argument", "required keyword-only argument", "positional arguments but", "positional argument but",
            "multiple values for argument")) and not _callee_is_code_under_test(e):
        return msg
    if type(e) is TypeError and _raised_in_code_under_test(e) and _protocol_missing_on_sidecar_object(e):
        return msg
    if type(e) is AttributeError and _raised_in_code_under_test(e) and _missing_special_method_on_sidecar_object(e):
        return msg
    if _renamed_in_repo(e):
        return msg
    return None


_PROTOCOL_WORDS = ("is not iterable", "is not subscriptable", "is not callable", "has no len()", "is not an iterator", "is not reversible",
                   "does not support item assignment", "does not support item deletion", "does not support the context manager protocol",
                   "unhashable type", "not supported between instances of", "unsupported operand type", "is not a mapping", "must be an iterable",
                   "must be a mapping", "object cannot be interpreted as an integer")


def _missing_special_method_on_sidecar_object(e):
    """``AttributeError: __delitem__`` and the like: CPython looked up a special method that a sidecar proxy visible from the raising frame does not
    define (e.g. ``del mapping[k]`` on a proxy that only models reads and writes)"""
    name = str(e)
    if not (name.startswith("__") and name.endswith("__") and name.isidentifier()):
        return False
    tb = e.__traceback__
    last = None
    while tb is not None:
        last = tb
        tb = tb.tb_next
    if last is None:
        return False
    fr = last.tb_frame
    seen = list(fr.f_locals.values()) + list(fr.f_globals.values())
    for o in list(seen):
        try:
            d = vars(o)
        except TypeError:
            continue
        if isinstance(d, dict) and len(d) < 200:
            seen.extend(d.values())
    return any(_is_sidecar_object(o) and not isinstance(o, type) and not hasattr(type(o), name) for o in seen)


def _protocol_missing_on_sidecar_object(e):
    """a TypeError of the form "'X' object is not iterable" / "argument of type 'X' is not iterable" ... where X is the class of a sidecar stub
    visible in the frame that raised: the code uses a protocol (iteration, `in`, len, indexing, ordering ...) the stub does not model"""
    import re

    text = str(e)
    if not any(w in text for w in _PROTOCOL_WORDS):
        return False
    names = set(re.findall(r"'([A-Za-z_][A-Za-z_0-9.]*)'", text))
    if not names:
        return False
    tb = e.__traceback__
    last = None
    while tb is not None:
        last = tb
        tb = tb.tb_next
    if last is None:
        return False
    import sys

    # a module-level class of the sidecar / the machinery with that name
    for mname, mod in list(sys.modules.items()):
        if mname.startswith(("contracts.", "ujvc.")):
            for n in names:
                c = getattr(mod, n.split(".")[-1], None)
                if isinstance(c, type) and _is_sidecar_object(c):
                    return True
    # ... or a class / object local to the unit that is running (any frame of the traceback), or visible from the frame that raised
    fr = last.tb_frame
    seen = list(fr.f_locals.values()) + list(fr.f_globals.values())
    tb = e.__traceback__
    while tb is not None:
        if tb.tb_frame is not fr:
            seen.extend(tb.tb_frame.f_locals.values())
        tb = tb.tb_next
    for o in list(seen):
        try:
            d = vars(o)
        except TypeError:
            continue
        if isinstance(d, dict) and len(d) < 200:
            seen.extend(d.values())
    for o in seen:
        try:
            if type(o).__name__.split(".")[-1] in names and _is_sidecar_object(o):
                return True
            if isinstance(o, type) and o.__name__ in names and _is_sidecar_object(o):
                return True
        except Exception:  # noqa: BLE001
            continue
    return False


def _is_sidecar_object(o):
    if o is None:
        return False
    mod = (getattr(o, "__module__", "") if isinstance(o, type) else getattr(type(o), "__module__", "")) or ""
    return mod.startswith(("contracts.", "ujvc.")) or mod in ("contracts", "ujvc")


def _renamed_in_repo(e):
    import types

    if isinstance(e, AttributeError):
        o = getattr(e, "obj", None)
        return isinstance(o, types.ModuleType) and (o.__name__ == "uberjob" or o.__name__.startswith("uberjob."))
    if isinstance(e, ImportError):
        return (getattr(e, "name", "") or "").startswith("uberjob")
    return False


def _has_quantifier(e):
    todo, seen = [e], set()
    while todo:
        x = todo.pop()
        i = x.get_id()
        if i in seen:
            continue
        seen.add(i)
        if z3.is_quantifier(x):
            return True
        todo.extend(x.children())
    return False


def explore(run_one, unit_name="", max_paths=MAX_PATHS, props=()):
    """Enumerate all decision paths of `run_one(ctx)`."""
    results = []
    stack = [()]
    pruned = 0
    while stack:
        prefix = stack.pop()
        ctx = Ctx(prefix, unit_name)
        ctx.props = tuple(props)
        end, err = "return", ""
        try:
            r = run_one(ctx)
            if isinstance(r, str):
                end = r
            if ctx.dead is not None:  # a signal was swallowed by the code under test
                raise ctx.dead
        except PathEnd as e:
            end = f"end:{e}"
        except Infeasible as e:
            end = "infeasible"
        except Unsupported as e:
            end, err = "unsupported", f"{e}"
        except EngineSignal as e:  # pragma: no cover
            end, err = "crash", repr(e)
        except BaseException as e:
            if type(e).__name__ == "ExtractionError":
                end, err = "unsupported", f"extraction refused: {e}"
            elif ctx.dead is None and ((isinstance(e, (NameError, TypeError, AttributeError)) and _raised_in_code_under_test(e))
                                       or (isinstance(e, TypeError) and any(w in str(e) for w in ("positional argument", "keyword argument", "takes ")))):
                # the code under contract uses a stub / proxy in a way the sidecar does not describe (new callee, other
                # signature, native iteration of a symbolic value): no contract applies - undecided, not a crash
                end, err = "unsupported", f"code no longer matches the sidecar's contracts: {type(e).__name__}: {e}"
            elif ctx.dead is None and _renamed_in_repo(e):
                # the sidecar looked up a name of the real package that no longer exists (private class / function renamed or moved)
                end, err = "unsupported", f"code no longer matches the sidecar's contracts: {type(e).__name__}: {e}"
            elif ctx.dead is not None:
                d = ctx.dead
                if isinstance(d, PathEnd):
                    end = f"end:{d}"
                elif isinstance(d, Infeasible):
                    end = "infeasible"
                else:
                    end, err = "unsupported", f"{d}"
            elif not err and _passes_through_code_under_test(e):
                # an exception the unit's harness did not anticipate left the code under verification (raised by it, by the standard library it
                # called on a ghost object, or by a sidecar proxy it used in an unmodelled way): no contract of this unit describes that behaviour.
                # Undecided - the bounded stand-ins covering the same functions decide (check.degraded_units); never a crash of the checker
                tbs = "".join(traceback.format_exception(type(e), e, e.__traceback__))[-1200:]
                end, err = "unsupported", f"code no longer matches the sidecar's contracts: unanticipated {type(e).__name__}: {str(e)[:200]} || {tbs}"
            elif not err:
                end, err = "crash", "".join(traceback.format_exception(type(e), e, e.__traceback__))[-3000:]
        pruned += ctx.infeasible_pruned
        taken = tuple(c for c, _, _ in ctx.taken)
        if end != "infeasible":
            results.append(PathResult(taken, ctx.labels(), end, ctx.obligations, ctx.log, err))
        else:
            results.append(PathResult(taken, ctx.labels(), end, [], ctx.log, err))
        if len(results) > max_paths:
            results.append(PathResult((), (), "unsupported", [], [], f"path budget {max_paths} exceeded"))
            break
        # siblings
        for i in range(len(prefix), len(ctx.taken)):
            c, n, _ = ctx.taken[i]
            for alt in range(c + 1, n):
                stack.append(taken[:i] + (alt,))
    return results


# ---------------------------------------------------------------------------------------
# discharge
# ---------------------------------------------------------------------------------------

def _smt2(pc, goal):
    s = z3.Solver()
    for f in pc:
        s.add(f)
    s.add(z3.Not(goal))
    return s.to_smt2()


def _uninterpreted_sorts(exprs):
    seen, sorts, todo = set(), {}, list(exprs)
    while todo:
        e = todo.pop()
        if e.get_id() in seen:
            continue
        seen.add(e.get_id())
        if z3.is_quantifier(e):
            for i in range(e.num_vars()):
                _collect_sort(e.var_sort(i), sorts)
            todo.append(e.body())
            continue
        if z3.is_expr(e):
            _collect_sort(e.sort(), sorts)
            todo.extend(e.children())
    return list(sorts.values())


def _collect_sort(s, acc):
    k = s.kind()
    if k == z3.Z3_UNINTERPRETED_SORT:
        acc[s.name()] = s
    elif k == z3.Z3_ARRAY_SORT:
        _collect_sort(s.domain(), acc)
        _collect_sort(s.range(), acc)


def _card_terms(exprs, card_names=("card",)):
    seen, out, todo = set(), {}, list(exprs)
    while todo:
        e = todo.pop()
        if e.get_id() in seen:
            continue
        seen.add(e.get_id())
        if z3.is_quantifier(e):
            todo.append(e.body())
            continue
        if z3.is_app(e):
            if e.decl().name() in card_names and e.num_args() == 1:
                out[e.get_id()] = e
            todo.extend(e.children())
    return list(out.values())


def _has_free_var(e):
    todo, seen = [e], set()
    while todo:
        x = todo.pop()
        if x.get_id() in seen:
            continue
        seen.add(x.get_id())
        if z3.is_var(x):
            return True
        if z3.is_quantifier(x):
            todo.append(x.body())
        else:
            todo.extend(x.children())
    return False


_INT_KEY = "Int"        # pseudo sort name under which a window of integer positions is handed to _expand (stage R2)
_KEEP_INT = "keep-Int"  # flag in elems_by_sort: leave quantifiers over Int in place (validation of a candidate model)


def _expand(e, elems_by_sort, cache):
    """Finite-scope expansion of a formula: quantifiers over uninterpreted sorts become finite
    conjunctions / disjunctions over the scope's elements, ``card`` becomes the defining sum, equality of
    arrays indexed by a scoped sort becomes pointwise equality on the scope.  Quantifiers over Int are expanded over the
    window elems_by_sort["Int"] when one is given (the result is then only a CANDIDATE generator: see refute_finite), kept in
    place when elems_by_sort["keep-Int"] is set, and refuse the expansion otherwise."""
    i = e.get_id()
    if i in cache:
        return cache[i][1]
    if z3.is_quantifier(e):
        n = e.num_vars()
        sorts = [e.var_sort(j) for j in range(n)]
        if elems_by_sort.get(_KEEP_INT) and all(srt.kind() == z3.Z3_INT_SORT for srt in sorts) and not e.is_lambda():
            # keep the integer quantifier, expand what is below it; bound variables are renamed to fresh constants and re-bound
            vs = [z3.FreshConst(srt, "qi") for srt in sorts]
            body = _expand(z3.substitute_vars(e.body(), *reversed(vs)), elems_by_sort, cache)
            r = z3.ForAll(vs, body) if e.is_forall() else z3.Exists(vs, body)
            cache[i] = (e, r)
            return r
        doms = []
        for srt in sorts:
            if srt.kind() == z3.Z3_INT_SORT and _INT_KEY in elems_by_sort:
                doms.append(elems_by_sort[_INT_KEY])
                continue
            if srt.kind() != z3.Z3_UNINTERPRETED_SORT or srt.name() not in elems_by_sort:
                raise _NoExpansion(f"quantifier over {srt}")
            doms.append(elems_by_sort[srt.name()])
        body = e.body()
        insts = []
        import itertools

        for tup in itertools.product(*doms):
            # de Bruijn: Var(0) is the LAST bound variable
            inst = z3.substitute_vars(body, *reversed(tup))
            insts.append(_expand(inst, elems_by_sort, cache))
        r = (z3.And(insts) if e.is_forall() else z3.Or(insts)) if insts else z3.BoolVal(e.is_forall())
        if e.is_lambda():
            raise _NoExpansion("lambda")
        cache[i] = (e, r)  # keep e alive: z3 ast ids are recycled
        return r
    if not z3.is_app(e):
        cache[i] = (e, e)
        return e
    kids = [_expand(c, elems_by_sort, cache) for c in e.children()]
    d = e.decl()
    if d.name() == "card" and len(kids) == 1 and _is_arr(kids[0].sort()):
        srt = kids[0].sort().domain()
        els = elems_by_sort.get(srt.name())
        if els is None:
            raise _NoExpansion("card over unscoped sort")
        r = z3.Sum([z3.If(z3.Select(kids[0], x), 1, 0) for x in els])
    elif d.kind() == z3.Z3_OP_EQ and _is_arr(kids[0].sort()):
        r = _array_eq(kids[0], kids[1], elems_by_sort)
    elif d.kind() == z3.Z3_OP_DISTINCT and _is_arr(kids[0].sort()):
        raise _NoExpansion("distinct on arrays")
    elif not kids:
        r = e
    else:
        k = d.kind()
        if k == z3.Z3_OP_AND:
            r = z3.And(kids)
        elif k == z3.Z3_OP_OR:
            r = z3.Or(kids)
        elif k == z3.Z3_OP_ADD:
            r = z3.Sum(kids)
        elif k == z3.Z3_OP_MUL:
            r = z3.Product(kids)
        elif k == z3.Z3_OP_DISTINCT:
            r = z3.Distinct(*kids)
        elif all(a.eq(b) for a, b in zip(kids, e.children())):
            r = e
        else:
            try:
                r = z3.substitute(e, *[(a, b) for a, b in zip(e.children(), kids) if not a.eq(b)])
            except z3.Z3Exception:
                bad = [(a.sort(), b.sort() if hasattr(b, "sort") else type(b), a.decl().name()) for a, b in zip(e.children(), kids)]
                raise _NoExpansion(f"rebuild failed for {d.name()}: {bad}")
    cache[i] = (e, r)  # keep e alive: z3 ast ids are recycled
    return r


def _is_arr(srt):
    return srt.kind() == z3.Z3_ARRAY_SORT


def _array_eq(a, b, elems_by_sort):
    srt = a.sort().domain()
    if srt.kind() != z3.Z3_UNINTERPRETED_SORT or srt.name() not in elems_by_sort:
        return a == b
    parts = []
    for x in elems_by_sort[srt.name()]:
        sa, sb = z3.Select(a, x), z3.Select(b, x)
        parts.append(_array_eq(sa, sb, elems_by_sort) if _is_arr(sa.sort()) else sa == sb)
    return z3.And(parts)


class _NoExpansion(Exception):
    pass


def _consts_of_sort(exprs, sort_names):
    seen, out, todo = set(), {}, list(exprs)
    while todo:
        e = todo.pop()
        if e.get_id() in seen:
            continue
        seen.add(e.get_id())
        if z3.is_app(e):
            # every ground term of a scoped sort (constants, but also applications such as f(3) or a[x]) must denote one of the scope's elements:
            # otherwise the "model" would live in a larger universe than the one the quantifiers were expanded over
            if e.sort().kind() == z3.Z3_UNINTERPRETED_SORT and e.sort().name() in sort_names and e.decl().kind() != z3.Z3_OP_ITE:
                out[e.get_id()] = e
            todo.extend(e.children())
    return list(out.values())


def _functions_map_into_scope(m, sorts, elems):
    """Stage R2 evaluates the original formulas in the candidate model itself.  The quantifiers over the scoped sorts are expanded over the scope's
    elements, which is exact only if the model's functions INTO a scoped sort (e.g. position -> node) take no value outside the scope, at the
    positions the candidate query never mentioned either.  (Stage R needs no such check: there every ground term of a scoped sort is constrained
    to denote a scope element, so the model restricted to the scope - functions re-directed into it wherever they left it - still satisfies the
    quantifier-free expansion, and the expansion is exact for that restricted model.)"""
    names = {srt.name() for srt in sorts}
    vals = {n: {m.eval(x, model_completion=True).get_id() for x in elems[n]} for n in names}
    for d in m.decls():
        rng = d.range()
        if d.arity() == 0:
            if _is_arr(rng) and rng.range().kind() == z3.Z3_UNINTERPRETED_SORT and rng.range().name() in names and rng.domain().kind() == z3.Z3_INT_SORT:
                return False        # an integer-indexed array of scoped values: not inspected, no verdict
            continue
        if rng.kind() != z3.Z3_UNINTERPRETED_SORT or rng.name() not in names:
            continue
        fi = m[d]
        if not isinstance(fi, z3.FuncInterp):
            return False
        outs = [fi.else_value()] + [fi.entry(i).value() for i in range(fi.num_entries())]
        for o in outs:
            if o is None or not z3.is_app(o) or o.num_args() != 0 or o.get_id() not in vals[rng.name()]:
                return False
    return True


def refute_finite(pc, goal, kmax=6, timeout_ms=REFUTE_TIMEOUT_MS):
    """Stage R: look for a countermodel of  pc |- goal  in a finite scope.  For K = 1..kmax every
    uninterpreted sort gets K pairwise distinct elements; the VC is expanded over them (see _expand) and
    every other constant of such a sort is constrained to be one of them.  The result is quantifier free, so
    z3 decides it; `sat` is a genuine countermodel of the VC over the K-element universe (the theory puts no
    lower bound on the universe).  Returns (verdict, model_str, K)."""
    fs = list(pc) + [z3.Not(goal)]
    sorts = _uninterpreted_sorts(fs)
    names = {srt.name() for srt in sorts}
    for k in range(1, kmax + 1):
        elems = {srt.name(): [z3.Const(f"{srt.name()}#{i}", srt) for i in range(k)] for srt in sorts}
        cache = {}
        try:
            ex = [_expand(f, elems, cache) for f in fs]
        except _NoExpansion as ex_:
            if "quantifier over Int" in str(ex_):
                return _refute_with_int_window(fs, sorts, names, kmax, timeout_ms)
            return "unknown", f"no finite-scope expansion: {ex_}", k
        s = z3.Solver()
        s.set("timeout", timeout_ms)
        for f in ex:
            s.add(f)
        scoped = {x.get_id() for els in elems.values() for x in els}
        for srt in sorts:
            els = elems[srt.name()]
            if k > 1:
                s.add(z3.Distinct(*els))
        for c in _consts_of_sort(ex, names):
            if c.get_id() not in scoped:
                s.add(z3.Or([c == x for x in elems[c.sort().name()]]))
        r = s.check()
        if r == z3.sat:
            return "refuted", _model_str(s.model()), k
    return "unknown", "", kmax


def _int_consts(exprs):
    seen, out, todo = set(), {}, list(exprs)
    while todo:
        e = todo.pop()
        if e.get_id() in seen:
            continue
        seen.add(e.get_id())
        if z3.is_quantifier(e):
            todo.append(e.body())
        elif z3.is_app(e):
            if e.num_args() == 0 and e.decl().kind() == z3.Z3_OP_UNINTERPRETED and e.sort().kind() == z3.Z3_INT_SORT:
                out[e.get_id()] = e
            todo.extend(e.children())
    return list(out.values())


def _refute_with_int_window(fs, sorts, names, kmax, timeout_ms):
    """Stage R2, for VCs with quantifiers over Int (positions of a symbolic sequence).  Two steps, the second one makes the verdict sound:
      1. candidate: uninterpreted sorts get K elements as before, integer quantifiers are instantiated over the window -1 .. K+1 and the
         integer constants (sequence lengths, positions) are confined to it; the quantifier-free result is solved;
      2. validation: the ORIGINAL formulas (integer quantifiers untouched, only the uninterpreted sorts expanded over the model's universe)
         are evaluated in the candidate model by z3's model evaluator; what it leaves open is closed arithmetic and is decided by a solver.
    Only a candidate that satisfies every original formula is reported (`refuted`); anything else stays `unknown`."""
    t_end = time.time() + 4 * timeout_ms / 1000.0
    for k in range(1, min(kmax, 4) + 1):
        if time.time() > t_end:
            break
        elems = {srt.name(): [z3.Const(f"{srt.name()}#{i}", srt) for i in range(k)] for srt in sorts}
        window = dict(elems)
        window[_INT_KEY] = [z3.IntVal(v) for v in range(-1, k + 2)]
        try:
            ex = [_expand(f, window, {}) for f in fs]
        except _NoExpansion as ex_:
            return "unknown", f"no finite-scope expansion: {ex_}", k
        s = z3.Solver()
        s.set("timeout", timeout_ms)
        for f in ex:
            s.add(f)
        scoped = {x.get_id() for els in elems.values() for x in els}
        for srt in sorts:
            if k > 1:
                s.add(z3.Distinct(*elems[srt.name()]))
        for c in _consts_of_sort(ex, names):
            if c.get_id() not in scoped:
                s.add(z3.Or([c == x for x in elems[c.sort().name()]]))
        for c in _int_consts(ex):
            s.add(c >= -1, c <= k + 1)
        if s.check() != z3.sat:
            continue
        m = s.model()
        if not _functions_map_into_scope(m, sorts, elems):
            continue
        keep = dict(elems)
        keep[_KEEP_INT] = True
        ok = True
        try:
            for f in fs:
                g = _expand(f, keep, {})
                v = m.eval(g, model_completion=True)
                if z3.is_true(v):
                    continue
                if z3.is_false(v):
                    ok = False
                    break
                s2 = z3.Solver()
                s2.set("timeout", 3000)
                s2.add(z3.Not(v))
                if s2.check() != z3.unsat:
                    ok = False
                    break
        except (_NoExpansion, z3.Z3Exception):
            ok = False
        if ok:
            return "refuted", "(integer quantifiers: candidate from the window -1..%d, validated against the unexpanded formulas)\n" % (k + 1) + _model_str(m), k
    # as before this stage existed, such a VC counts as "not expandable" for the callers that only look for SOME model (the vacuity covers)
    return "unknown", "no finite-scope expansion: quantifier over Int (no validated candidate in the integer windows tried)", kmax


def _model_str(m, limit=6000):
    try:
        items = []
        for d in m.decls():
            items.append(f"{d.name()} = {m[d]}")
        txt = "\n".join(sorted(items))
    except Exception as e:  # pragma: no cover
        txt = f"<model unavailable: {e}>"
    return txt[:limit]


def discharge(ob: Obligation, timeout_ms=PROVE_TIMEOUT_MS, keep_smt2=False, refute=True):
    t0 = time.time()
    if isinstance(ob.goal, bool):
        ob.backend = ob.backend or "cpython"
        ob.verdict = "discharged" if ob.goal else "refuted"
        if not ob.goal:
            ob.model = "decisions: " + " ; ".join(ob.path) + ("\n" + ob.info if ob.info else "")
        ob.time_s = time.time() - t0
        return ob
    s = z3.Solver()
    s.set("timeout", timeout_ms)
    for f in ob.pc:
        s.add(f)
    s.add(z3.Not(ob.goal))
    r = s.check()
    ob.backend = "z3"
    if keep_smt2:
        try:
            ob.smt2 = s.to_smt2()
        except Exception:  # pragma: no cover
            ob.smt2 = ""
    if r == z3.unsat:
        ob.verdict = "discharged"
    elif r == z3.sat:
        ob.verdict = "refuted"
        ob.model = _model_str(s.model())
    else:
        ob.verdict = "unknown"
        if refute:
            v, m, k = refute_finite(ob.pc, ob.goal)
            if v == "refuted":
                ob.verdict = "refuted"
                ob.backend = f"z3-finite-scope(K={k})"
                ob.model = m
    if ob.verdict == "refuted":
        ob.model = "decisions: " + " ; ".join(ob.path) + "\n" + ob.model
    ob.time_s = time.time() - t0
    return ob


def goal_str(ob, limit=400):
    g = ob.goal
    if isinstance(g, bool):
        return f"<concrete {g}> {ob.info}"[:limit]
    try:
        return z3.simplify(g).sexpr()[:limit]
    except Exception:  # pragma: no cover
        return str(g)[:limit]
