import sys

from .check import main

try:
    rc = main()
except SystemExit:
    raise
except BaseException:
    import traceback

    traceback.print_exc()
    rc = 3
sys.exit(rc)
