"""Mechanical extraction of the functions under contract from /repo's working tree.

Nothing is copied by hand: every run re-reads the module with ``ast.parse``, selects the
``FunctionDef`` by qualified name, applies the rewrites below and compiles the result with
the real file name and the original line numbers.  The rewritten text is available through
``Extracted.text`` and is written to the evidence directory.

Rewrites (see DESIGN.md 1.2):
 R1  select the FunctionDef (possibly nested / a method), drop the rest of the module
 R2  ``nonlocal x`` deleted; loads/stores of such names become ``__sh.x`` (one attribute
     access per original cell access, same order)
 R3  loops named by the sidecar are *cut*: one symbolic iteration checked against the
     invariant; ``break``/``continue`` keep their native meaning through an inner one-trip
     ``for``; loops not named by the sidecar must be declared ``native`` (concrete trip
     count) or the unit is undecided
 R4  comprehensions / generator expressions with a single ``for`` become
     ``__vc.comp(kind, iter, lambda target: elt, [lambda target: cond])`` when requested
 R8  (on request) the empty container displays ``[]``, ``{}`` and the call ``set()`` become
     ``__vc.new_list()`` / ``__vc.new_dict()`` / ``__vc.new_set()`` so that containers a cut loop mutates are
     symbolic values the loop contract can havoc
 R6  annotations and docstrings dropped
 R7  decorators are kept and evaluated in the supplied environment, except those listed in
     ``drop_decorators`` (``lru_cache``)
 R9  auto-inline of helpers without a contract of their own (see Extracted.compile_into)
 R10 (on request) ``f(a, *xs, k=v)`` becomes ``__vc.call_star(f, (a,), xs, {'k': v})``
 R11 (on request) ``def f(a, *args, **kwargs)`` becomes ``def f(a, args, kwargs)``
 R12 (on request) a nested ``def`` named by the sidecar is removed; its name resolves to the sidecar's stub
"""
from __future__ import annotations

import ast
import hashlib
import os

from .core import Unsupported

from .z3env import REPO_SRC

REPO_PKG = os.path.join(REPO_SRC, "uberjob")


class ExtractionError(Exception):
    pass


_module_cache = {}


def module_ast(relpath):
    path = relpath if os.path.isabs(relpath) else os.path.join(REPO_PKG, relpath)
    if path not in _module_cache:
        with open(path) as f:
            src = f.read()
        _module_cache[path] = (ast.parse(src, filename=path), src, path)
    return _module_cache[path]


def find_def(tree, qualname):
    """qualname: 'f', 'Class.method', 'outer.<locals>.inner' (any depth)."""
    parts = [p for p in qualname.split(".") if p != "<locals>"]
    body = tree.body
    node = None
    for p in parts:
        node = None
        for st in _walk_defs(body):
            if isinstance(st, (ast.FunctionDef, ast.ClassDef)) and st.name == p:
                node = st
                break
        if node is None:
            # the definition may have been moved to another nesting level (a closure lifted to module level, a helper nested
            # into its only caller): accept it when the LAST name component identifies exactly one def in the whole module
            last = parts[-1]
            found = [st for st in ast.walk(tree) if isinstance(st, (ast.FunctionDef, ast.ClassDef)) and st.name == last]
            if len(found) == 1 and len(parts) > 1 and p == last:
                return found[0]
            raise ExtractionError(f"definition {qualname!r} not found (missing {p!r})")
        body = node.body
    return node


def _walk_defs(body):
    """Definitions directly in this body, looking through if/try/with/for blocks but not into
    other defs."""
    for st in body:
        if isinstance(st, (ast.FunctionDef, ast.ClassDef, ast.AsyncFunctionDef)):
            yield st
        elif isinstance(st, (ast.If, ast.Try, ast.With, ast.For, ast.While)):
            for fld in ("body", "orelse", "finalbody"):
                yield from _walk_defs(getattr(st, fld, []) or [])
            for h in getattr(st, "handlers", []) or []:
                yield from _walk_defs(h.body)


def _assigned_names(nodes):
    out = []
    for n in nodes:
        for x in ast.walk(n):
            if isinstance(x, ast.Name) and isinstance(x.ctx, (ast.Store, ast.Del)):
                if x.id not in out:
                    out.append(x.id)
            elif isinstance(x, (ast.FunctionDef, ast.ClassDef)):
                if x.name not in out:
                    out.append(x.name)
    return out


class _Rewriter(ast.NodeTransformer):
    def __init__(self, nonlocals, cut_loops, native_loops, cut_comps, fname, sym_containers=False, star_calls=False):
        self.sym_containers = sym_containers
        self.star_calls = star_calls
        self.nonlocals = set(nonlocals)
        self.cut_loops = cut_loops  # ordinal -> key
        self.native_loops = native_loops if native_loops == "all" else set(native_loops)
        self.cut_comps = cut_comps
        self.loop_ord = 0
        self.comp_ord = 0
        self.fname = fname
        self.depth = 0
        self.loops_seen = []

    # R6 ---------------------------------------------------------------------------------
    def visit_FunctionDef(self, node):
        self.depth += 1
        node.returns = None
        for a in node.args.args + node.args.kwonlyargs + node.args.posonlyargs:
            a.annotation = None
        if node.args.vararg:
            node.args.vararg.annotation = None
        if node.args.kwarg:
            node.args.kwarg.annotation = None
        if (
            node.body
            and isinstance(node.body[0], ast.Expr)
            and isinstance(node.body[0].value, ast.Constant)
            and isinstance(node.body[0].value.value, str)
        ):
            node.body = node.body[1:] or [ast.Pass()]
        self.generic_visit(node)
        self.depth -= 1
        return node

    def visit_AnnAssign(self, node):
        self.generic_visit(node)
        if node.value is None:
            return None
        return ast.copy_location(ast.Assign(targets=[node.target], value=node.value), node)

    # R2 ---------------------------------------------------------------------------------
    def visit_Nonlocal(self, node):
        return None

    def visit_Name(self, node):
        if node.id in self.nonlocals:
            return ast.copy_location(
                ast.Attribute(value=ast.Name(id="__sh", ctx=ast.Load()), attr=node.id, ctx=node.ctx), node
            )
        return node

    # R3 ---------------------------------------------------------------------------------
    def _cut(self, node, is_for):
        k = self.loop_ord
        self.loop_ord += 1
        self.loops_seen.append(k)
        if self.native_loops == "all" or k in self.native_loops:
            self.generic_visit(node)
            return node
        if self.cut_loops == "auto":
            pass
        elif k not in self.cut_loops:
            # a loop the sidecar says nothing about runs natively: exact for concrete iterables; a symbolic proxy refuses native iteration
            # (Unsupported -> the unit is undecided), so nothing is assumed about a loop without a contract
            self.generic_visit(node)
            return node
        if node.orelse:
            raise ExtractionError(f"{self.fname}: loop #{k} has an else clause (not supported)")
        key = k if self.cut_loops == "auto" else self.cut_loops[k]
        assigned = _assigned_names(node.body + ([node.target] if is_for else []))
        self.generic_visit(node)
        L = f"__L{k}"
        stmts = []
        it = node.iter if is_for else ast.Constant(value=None)
        # __Lk = __vc.loop(key, iter, locals())
        stmts.append(
            ast.Assign(
                targets=[ast.Name(id=L, ctx=ast.Store())],
                value=ast.Call(
                    func=ast.Attribute(value=ast.Name(id="__vc", ctx=ast.Load()), attr="loop", ctx=ast.Load()),
                    args=[
                        ast.Constant(value=key),
                        it,
                        ast.Call(func=ast.Name(id="__locals", ctx=ast.Load()), args=[], keywords=[]),
                        ast.Constant(value=tuple(assigned)),
                    ],
                    keywords=[],
                ),
            )
        )
        # havocked locals:  a = __Lk.hv('a')   for every name assigned in the body
        for name in assigned:
            if name in self.nonlocals:
                continue
            stmts.append(
                ast.Assign(
                    targets=[ast.Name(id=name, ctx=ast.Store())],
                    value=ast.Call(
                        func=ast.Attribute(value=ast.Name(id=L, ctx=ast.Load()), attr="hv", ctx=ast.Load()),
                        args=[ast.Constant(value=name)],
                        keywords=[],
                    ),
                )
            )
        once = ast.Call(
            func=ast.Attribute(value=ast.Name(id=L, ctx=ast.Load()), attr="once", ctx=ast.Load()), args=[], keywords=[]
        )
        end_it = ast.Expr(
            value=ast.Call(
                func=ast.Attribute(value=ast.Name(id=L, ctx=ast.Load()), attr="end_iteration", ctx=ast.Load()),
                args=[ast.Call(func=ast.Name(id="__locals", ctx=ast.Load()), args=[], keywords=[])],
                keywords=[],
            )
        )
        exit_call = ast.Expr(
            value=ast.Call(
                func=ast.Attribute(value=ast.Name(id=L, ctx=ast.Load()), attr="exit", ctx=ast.Load()), args=[], keywords=[]
            )
        )
        if is_for:
            inner = ast.For(target=node.target, iter=once, body=node.body, orelse=[end_it], type_comment=None)
            test = ast.Call(
                func=ast.Attribute(value=ast.Name(id=L, ctx=ast.Load()), attr="iterate", ctx=ast.Load()), args=[], keywords=[]
            )
        else:
            inner = ast.For(
                target=ast.Name(id="__once", ctx=ast.Store()), iter=once, body=node.body, orelse=[end_it], type_comment=None
            )
            test = node.test
        stmts.append(ast.If(test=test, body=[inner], orelse=[exit_call]))
        return [ast.fix_missing_locations(ast.copy_location(s, node)) for s in stmts]

    def visit_For(self, node):
        return self._cut(node, True)

    def visit_While(self, node):
        return self._cut(node, False)

    # R8 ---------------------------------------------------------------------------------
    def _vc_call(self, name, node):
        return ast.copy_location(
            ast.Call(func=ast.Attribute(value=ast.Name(id="__vc", ctx=ast.Load()), attr=name, ctx=ast.Load()), args=[], keywords=[]),
            node,
        )

    def visit_List(self, node):
        self.generic_visit(node)
        if self.sym_containers and isinstance(node.ctx, ast.Load) and not node.elts:
            return self._vc_call("new_list", node)
        return node

    def visit_Dict(self, node):
        self.generic_visit(node)
        if self.sym_containers and not node.keys:
            return self._vc_call("new_dict", node)
        return node

    def visit_Call(self, node):
        self.generic_visit(node)
        if self.sym_containers and isinstance(node.func, ast.Name) and node.func.id == "set" and not node.args and not node.keywords:
            return self._vc_call("new_set", node)
        # R10 (on request): a call with ONE trailing ``*iterable`` argument and plain keywords becomes
        #   __vc.call_star(func, (positional...), iterable, {keywords})   so that a symbolic-length sequence can be passed on
        if self.star_calls and node.args and isinstance(node.args[-1], ast.Starred) and not any(isinstance(a, ast.Starred) for a in node.args[:-1]) \
                and all(k.arg is not None for k in node.keywords):
            call = ast.Call(
                func=ast.Attribute(value=ast.Name(id="__vc", ctx=ast.Load()), attr="call_star", ctx=ast.Load()),
                args=[node.func, ast.Tuple(elts=list(node.args[:-1]), ctx=ast.Load()), node.args[-1].value,
                      ast.Dict(keys=[ast.Constant(value=k.arg) for k in node.keywords], values=[k.value for k in node.keywords])],
                keywords=[])
            return ast.fix_missing_locations(ast.copy_location(call, node))
        return node

    # R4 ---------------------------------------------------------------------------------
    def _comp(self, node, kind, elt):
        self.generic_visit(node)
        if not self.cut_comps:
            return node
        if len(node.generators) != 1 or node.generators[0].is_async:
            raise ExtractionError(f"{self.fname}: comprehension with several generators (line {node.lineno})")
        g = node.generators[0]
        k = self.comp_ord
        self.comp_ord += 1

        def lam(body):
            # target may be a tuple: lambda __t: (lambda a, b: body)(*__t)
            if isinstance(g.target, ast.Name):
                return ast.Lambda(
                    args=ast.arguments(
                        posonlyargs=[], args=[ast.arg(arg=g.target.id)], kwonlyargs=[], kw_defaults=[], defaults=[]
                    ),
                    body=body,
                )
            names = [e for e in g.target.elts]
            if not all(isinstance(e, ast.Name) for e in names):
                raise ExtractionError(f"{self.fname}: nested comprehension target")
            ids = [e.id for e in names]
            # tuple unpacking lets a name repeat (``_, _, x``): the last binding wins
            uniq = [(i if i not in ids[j + 1:] else f"__dup{j}") for j, i in enumerate(ids)]
            inner = ast.Lambda(
                args=ast.arguments(
                    posonlyargs=[], args=[ast.arg(arg=i) for i in uniq], kwonlyargs=[], kw_defaults=[], defaults=[]
                ),
                body=body,
            )
            return ast.Lambda(
                args=ast.arguments(posonlyargs=[], args=[ast.arg(arg="__t")], kwonlyargs=[], kw_defaults=[], defaults=[]),
                body=ast.Call(func=inner, args=[ast.Starred(value=ast.Name(id="__t", ctx=ast.Load()), ctx=ast.Load())], keywords=[]),
            )

        args = [ast.Constant(value=f"{kind}#{k}"), g.iter, lam(elt)]
        args.append(lam(ast.BoolOp(op=ast.And(), values=list(g.ifs)) if len(g.ifs) > 1 else g.ifs[0]) if g.ifs else ast.Constant(value=None))
        call = ast.Call(
            func=ast.Attribute(value=ast.Name(id="__vc", ctx=ast.Load()), attr="comp", ctx=ast.Load()), args=args, keywords=[]
        )
        return ast.fix_missing_locations(ast.copy_location(call, node))

    def visit_ListComp(self, node):
        return self._comp(node, "list", node.elt)

    def visit_SetComp(self, node):
        return self._comp(node, "set", node.elt)

    def visit_GeneratorExp(self, node):
        return self._comp(node, "gen", node.elt)

    def visit_DictComp(self, node):
        return self._comp(node, "dict", ast.Tuple(elts=[node.key, node.value], ctx=ast.Load()))


class Extracted:
    sym_containers = False
    native_all = False

    def __init__(self, relpath, qualname, fn_node, text, orig_text, path, loops_seen):
        self.relpath, self.qualname = relpath, qualname
        self.node, self.text, self.orig_text, self.path = fn_node, text, orig_text, path
        self.loops_seen = loops_seen
        self.sha = hashlib.sha256(orig_text.encode()).hexdigest()[:16]

    @property
    def name(self):
        return self.node.name

    def compile_into(self, env, autoinline=True):
        """exec the rewritten def in `env`; returns the resulting object bound to its name.

        R9 (auto-inline): a global name the function uses that the sidecar's environment does not supply and that is a plain
        module-level ``def`` of the SAME real module (typically a helper introduced by a refactoring) is extracted with the same
        rewrites and compiled into the same environment - a callee without a contract of its own is verified inline, through the
        stubs of its caller's environment.  Loops in such a helper need a contract (cut_loops='auto'), otherwise the unit is undecided."""
        mod = ast.Module(body=[self.node], type_ignores=[])
        ast.fix_missing_locations(mod)
        env.setdefault("__locals", locals_snapshot)
        from .units import pure_stdlib

        for k_, v_ in pure_stdlib().items():
            env.setdefault(k_, v_)
        code = compile(mod, self.path, "exec")
        exec(code, env)
        result = env[self.node.name]
        if autoinline:
            self._autoinline(code, env, set())
        return result

    def _autoinline(self, code, env, seen):
        import builtins

        tree, _, _ = module_ast(self.relpath)
        top = {st.name: self.relpath for st in tree.body if isinstance(st, ast.FunctionDef)}
        # plain functions of other uberjob modules that the real module imports by name (``from uberjob.x import helper``)
        for st in tree.body:
            if isinstance(st, ast.ImportFrom) and st.module and st.module.startswith("uberjob") and st.level == 0:
                rel = st.module.split(".", 1)[1].replace(".", "/") + ".py" if "." in st.module else "__init__.py"
                if not os.path.exists(os.path.join(REPO_PKG, rel)):
                    rel = rel[:-3] + "/__init__.py"
                    if not os.path.exists(os.path.join(REPO_PKG, rel)):
                        continue
                try:
                    other, _, _ = module_ast(rel)
                except (OSError, SyntaxError):
                    continue
                defs = {d.name for d in other.body if isinstance(d, ast.FunctionDef)}
                for al in st.names:
                    if al.name in defs and (al.asname or al.name) not in top:
                        top[al.asname or al.name] = (rel, al.name)
        # names imported from the pure helper modules of the standard library (``from collections import defaultdict``)
        from .units import pure_stdlib_from_imports

        pure = pure_stdlib_from_imports()
        for st in tree.body:
            if isinstance(st, ast.ImportFrom) and st.level == 0 and st.module in pure:
                for al in st.names:
                    nm = al.asname or al.name
                    if nm in _global_names(code) and nm not in env and hasattr(pure[st.module], al.name):
                        env[nm] = getattr(pure[st.module], al.name)
        # module-level constants of the real module (loggers, sentinels, lookup tables) that a refactoring started to use
        try:
            import importlib

            modname = "uberjob." + self.relpath[:-3].replace("/", ".")
            if modname.endswith(".__init__"):
                modname = modname[: -len(".__init__")]
            realmod = importlib.import_module(modname)
            import types as _types

            for nm in _global_names(code):
                if nm not in env and not hasattr(builtins, nm) and hasattr(realmod, nm):
                    v = getattr(realmod, nm)
                    if not callable(v) and not isinstance(v, _types.ModuleType):
                        env[nm] = v
        except Exception:  # noqa: BLE001  (the real module may not import under the tooling interpreter: then nothing is supplied)
            pass
        # sibling closures: other functions nested in the same enclosing function (``outer.<locals>.helper`` next to ``outer.<locals>.f``)
        parts = [p_ for p_ in self.qualname.split(".") if p_ != "<locals>"]
        if len(parts) > 1:
            try:
                outer = find_def(tree, ".".join(parts[:-1]))
            except ExtractionError:
                outer = None
            if isinstance(outer, ast.FunctionDef):
                for st in _walk_defs(outer.body):
                    if isinstance(st, ast.FunctionDef) and st.name != parts[-1] and st.name not in top:
                        top[st.name] = (self.relpath, ".".join(parts[:-1]) + "." + st.name, st.name)
        for name in sorted(_global_names(code)):
            if name in env or name in seen or hasattr(builtins, name) or name not in top:
                continue
            seen.add(name)
            where = top[name]
            if isinstance(where, tuple) and len(where) == 3:
                rel, real_name = where[0], where[1]
                where = (rel, name)
            else:
                rel, real_name = (where, name) if isinstance(where, str) else where
            try:
                if self.native_all:
                    ex = extract(rel, real_name, native_loops="all", sym_containers=self.sym_containers)
                else:
                    ex = extract(rel, real_name, cut_loops="auto", sym_containers=self.sym_containers)
            except ExtractionError:
                continue
            if real_name.split(".")[-1] != name:
                continue
            m = ast.Module(body=[ex.node], type_ignores=[])
            ast.fix_missing_locations(m)
            c = compile(m, ex.path, "exec")
            ex.native_all = self.native_all
            exec(c, env)
            AUTOINLINED.append(ex)
            ex._autoinline(c, env, seen)
        self._autoinline_classes(code, env, seen, tree)


    def _autoinline_classes(self, code, env, seen, tree):
        """R9 for module-level CLASSES of the same module (a NamedTuple for a result pair, a small context manager or callable class a refactoring
        introduced): the class statement is compiled as it stands and runs natively; what its body needs is supplied like for a function"""
        import builtins
        import hashlib
        import types

        classes = {st.name: st for st in tree.body if isinstance(st, ast.ClassDef)}
        for name in sorted(_global_names(code)):
            if name in env or ("class:" + name) in seen or hasattr(builtins, name) or name not in classes:
                continue
            seen.add("class:" + name)
            node = classes[name]
            m = ast.Module(body=[node], type_ignores=[])
            ast.fix_missing_locations(m)
            path = os.path.join(REPO_PKG, self.relpath)
            c = compile(m, path, "exec")
            self._autoinline(c, env, seen)          # bases, decorators and whatever the methods call
            try:
                exec(c, env)
            except Exception:  # noqa: BLE001  (a class that cannot be built from what is supplied stays missing: NameError -> undecided)
                env.pop(name, None)
                continue
            text = ast.unparse(node)
            AUTOINLINED.append(types.SimpleNamespace(relpath=self.relpath, qualname=name, text=text, sha=hashlib.sha256(text.encode()).hexdigest()))


AUTOINLINED = []  # Extracted objects compiled by R9 (drained by ujvc.units.get's caller for the evidence)


def _global_names(code):
    import dis

    out = set()
    todo = [code]
    while todo:
        c = todo.pop()
        for ins in dis.get_instructions(c):
            if ins.opname in ("LOAD_GLOBAL", "LOAD_NAME"):
                out.add(ins.argval)
        todo.extend(k for k in c.co_consts if hasattr(k, "co_code"))
    return out


def locals_snapshot():
    import sys

    return dict(sys._getframe(1).f_locals)


def extract(relpath, qualname, *, cut_loops=None, native_loops=(), cut_comps=False, drop_decorators=("lru_cache",), keep_nonlocal=False,
            sym_containers=False, star_calls=False, explicit_varargs=False, drop_nested=()):
    import copy

    tree, src, path = module_ast(relpath)
    node = copy.deepcopy(find_def(tree, qualname))
    if not isinstance(node, ast.FunctionDef):
        raise ExtractionError(f"{qualname} is not a function")
    orig_text = ast.unparse(node)
    if drop_nested:
        # R12 (on request): nested function definitions named by the sidecar are removed from the body; the name then resolves to the
        # stub the sidecar supplies (which carries the contract proved for that nested function by its own unit)
        found = [st.name for st in node.body if isinstance(st, ast.FunctionDef) and st.name in drop_nested]
        if sorted(found) != sorted(drop_nested):
            raise ExtractionError(f"{relpath}:{qualname}: nested definitions {sorted(set(drop_nested) - set(found))} not found")
        node.body = [st for st in node.body if not (isinstance(st, ast.FunctionDef) and st.name in drop_nested)]
    nonlocals = [] if keep_nonlocal else [n for st in ast.walk(node) if isinstance(st, ast.Nonlocal) for n in st.names]
    decos = []
    for d in node.decorator_list:
        txt = ast.unparse(d)
        if any(txt.startswith(x) or txt.split("(")[0].endswith(x) for x in drop_decorators):
            continue
        decos.append(d)
    node.decorator_list = decos
    rw = _Rewriter(nonlocals, cut_loops if cut_loops == "auto" else dict(cut_loops or {}), native_loops, cut_comps, f"{relpath}:{qualname}", sym_containers, star_calls)
    node = rw.visit(node)
    if explicit_varargs:
        # R11 (on request): ``def f(a, *args, **kwargs)`` becomes ``def f(a, args, kwargs)`` - the caller (the sidecar) passes the
        # sequence / mapping objects that CPython would have built, which may then be symbolic
        a = node.args
        if a.vararg is not None:
            a.args.append(ast.arg(arg=a.vararg.arg))
            a.vararg = None
        if a.kwarg is not None:
            a.args.append(ast.arg(arg=a.kwarg.arg))
            a.kwarg = None
        if a.kwonlyargs:
            raise ExtractionError(f"{relpath}:{qualname}: explicit_varargs with keyword-only parameters")
    missing = [] if cut_loops == "auto" else [k for k in (cut_loops or {}) if k not in rw.loops_seen]
    if missing:
        raise ExtractionError(f"{relpath}:{qualname}: sidecar names loops {missing} that no longer exist")
    ast.fix_missing_locations(node)
    ex = Extracted(relpath, qualname, node, ast.unparse(node), orig_text, path, rw.loops_seen)
    ex.sym_containers = sym_containers
    ex.native_all = native_loops == "all"
    return ex


def source_text(relpath, qualname):
    tree, _, _ = module_ast(relpath)
    return ast.unparse(find_def(tree, qualname))
