"""Property-level driver: runs the proof units of a property, decides, writes evidence.

Exit codes: 0 held / 1 VIOLATION (refuted obligation, replayed where possible) /
2 undecided (unknown, extraction refused, expected obligation missing, vacuity) / 3 crash.
"""
from __future__ import annotations

import fnmatch
import hashlib
import importlib
import json
import multiprocessing as mp
import os
import re
import subprocess
import sys
import time

from . import units as U
from .z3env import REPO_SRC, ensure_repo_first

VERIF = os.path.dirname(os.path.dirname(os.path.abspath(__file__)))
EVID = os.environ.get("UJVC_EVID") or os.path.join(VERIF, "evidence")
CONTRACT_MODULES = [
    "retry", "times", "filestore", "stores", "engine", "prepare", "coordinator", "queues", "runphys", "runpath", "rewrite", "stale", "pruning", "system", "plumbing",
    "argnodes", "gather", "greedy", "cycles", "completion", "misc", "tracebacks", "progress", "frames", "kahn", "lemmas", "history", "render", "util",
]


def load_contracts():
    ensure_repo_first()
    if VERIF not in sys.path:
        sys.path.insert(1, VERIF)
    loaded = []
    for m in CONTRACT_MODULES:
        path = os.path.join(VERIF, "contracts", m + ".py")
        if os.path.exists(path):
            loaded.append(importlib.import_module("contracts." + m))
    _no_silent_truth(loaded)
    return loaded


def _no_silent_truth(modules):
    """A sidecar proxy for a container (it defines __getitem__ / __contains__ / __setitem__ / __iter__) that defines neither __bool__ nor __len__ would
    silently be TRUE in ``if mapping:`` / ``not queue`` - a verdict computed from an accident.  Such a use ends the path as undecided instead."""
    import contracts.gproxies  # noqa: F401  (shared proxies)

    from .core import Unsupported

    def refuse(self):
        raise Unsupported(f"truth value / length of the symbolic container {type(self).__name__} is not modelled")

    seen = set()
    for mod in list(modules) + [sys.modules.get("contracts.gproxies"), sys.modules.get("contracts.mgraph"), sys.modules.get("ujvc.vc")]:
        if mod is None:
            continue
        for cls in list(vars(mod).values()):
            if not isinstance(cls, type) or cls in seen or not getattr(cls, "__module__", "").startswith(("contracts.", "ujvc.")):
                continue
            seen.add(cls)
            own = set().union(*(vars(k) for k in cls.__mro__ if k is not object))
            if own & {"__getitem__", "__contains__", "__setitem__", "__iter__"} and not own & {"__bool__", "__len__"} \
                    and not issubclass(cls, (list, dict, set, tuple, frozenset, BaseException)) and "__next__" not in own:
                cls.__bool__ = refuse
                cls.__len__ = refuse


def _run_unit_job(name):
    try:
        return U.run_unit(name)
    except BaseException as e:  # pragma: no cover
        import traceback

        return U.UnitResult(name=name, status="crash", message="".join(traceback.format_exception(type(e), e, e.__traceback__))[-3000:])


def run_units(names, jobs=None):
    names = list(names)
    if not names:
        return []
    jobs = jobs or min(16, len(names))
    if jobs == 1 or len(names) == 1:
        return [_run_unit_job(n) for n in names]
    ctxm = mp.get_context("fork")
    with ctxm.Pool(jobs, maxtasksperchild=1) as pool:
        return pool.map(_run_unit_job, names, chunksize=1)


def _slug(s):
    return re.sub(r"[^A-Za-z0-9_.=-]+", "_", s)[:150]


def load_json(path, default):
    try:
        with open(path) as f:
            return json.load(f)
    except FileNotFoundError:
        return default


def known_findings():
    return load_json(os.path.join(VERIF, "known_findings.json"), {"findings": []})["findings"]


def match_finding(ob, pid, findings):
    for f in findings:
        if f.get("status") != "known" or f.get("property") not in closure(pid):
            continue
        if not fnmatch.fnmatch(ob["name"], f["obligation"]):
            continue
        labels = " ; ".join(ob["path"])
        if all(s in labels for s in f.get("path_contains", [])):
            return f
    return None


PROPERTY_META = {}  # pid -> dict(level_text, unproved_clauses, assumptions, replay)

# The argument for a property may USE other properties as lemmas (DESIGN section 5): e.g. "run returns what direct
# evaluation returns for every schedule" (C02) rests on the ordering and exactly-once guarantees of the engine (C01,
# C04).  The check of P therefore also discharges the obligations of the properties P depends on, and reports a
# refuted one as a violation of P (naming the failed obligation).
DEPENDS = {
    "C02": ["C01", "C04"],
    "C03": ["C01", "C02", "C04", "C05", "C09", "C18", "C11"],
    "C05": ["C01", "C04", "C09", "C18"],
    "C06": ["C01"],
    "C08": ["C01", "C05", "C06", "C09", "C11"],
    "C09": ["C01", "C05"],
    "C10": ["C06"],
    "C14": ["C09"],
    "C15": ["C04", "C07"],
    "C16": ["C01", "C04"],
}


def closure(pid):
    out, todo = [], [pid]
    while todo:
        p = todo.pop()
        if p in out:
            continue
        out.append(p)
        todo.extend(DEPENDS.get(p, []))
    return out


SHAPE_WORDS = ("loop/", "/preserve", "/establish", "iteration:", "-loop", "loop:", "comprehension:", "children:")


def shape_dependent(name, generated):
    """The expected-obligation list is a vacuity guard.  Obligations that belong to the proof of ONE loop / comprehension shape (establish,
    preserve, per-iteration bookkeeping) legitimately disappear when an equivalent restructuring removes that shape (e.g. ``while not done``
    -> ``while True ... break``); the unit's postconditions must then be discharged from whatever the code does instead.  Such a name is not
    reported as missing as long as its unit still generates other obligations."""
    unit = name.split("/", 1)[0]
    return any(w in name for w in SHAPE_WORDS) and any(g.split("/", 1)[0] == unit for g in generated)


def degraded_units(results, pids):
    """Where a function was restructured so that its sidecar contract no longer applies (the unit is 'undecided': extraction refused, the
    code uses its stubs in a way the contract does not describe), a bounded check of that function may stand in (brief: 'labelled bounded
    and never counted as proved').  A unit is degraded - instead of making the whole property undecided - iff a bounded stand-in that
    exercises the same functions (or, for the whole-system probes, the same property) ran and passed every one of its checks.
    Solver 'unknown's, vacuity guards, crashes and missing obligations of units that did run are never degraded."""
    out = {}
    ok_bounded = [r for r in results if U.UNITS[r.name].kind == "bounded" and r.status == "ok" and r.obligations
                  and all(o["verdict"] == "discharged" for o in r.obligations)
                  and not any("skipped" in o["name"] for o in r.obligations)]
    for r in results:
        if r.status != "undecided":
            continue
        if "vacuity guard" in (r.message or "") and "obligations generated" not in (r.message or ""):
            continue          # a contradictory-assumptions alarm is never degraded (too few obligations after an undecided path is)
        u = U.UNITS[r.name]
        uf = set(map(tuple, u.functions))
        cover = []
        for b in ok_bounded:
            if b.name == r.name:
                continue
            bu = U.UNITS[b.name]
            bf = set(map(tuple, bu.functions))
            if (bf and uf and bf & uf) or (not bf and b.name.startswith("system.probe[") and set(bu.props) & set(u.props) & set(pids)):
                cover.append(b.name)
        if cover:
            out[r.name] = cover
    return out


def property_meta(pid):
    """explanation / unproved clauses of the evidence come from the same table that generates MANIFEST.json (tools/claims.py)"""
    if pid not in PROPERTY_META:
        try:
            import importlib.util

            spec = importlib.util.spec_from_file_location("ujvc_claims", os.path.join(VERIF, "tools", "claims.py"))
            m = importlib.util.module_from_spec(spec)
            spec.loader.exec_module(m)
            c = m.CLAIMED.get(pid, {})
            PROPERTY_META[pid] = {"explanation": c.get("text", ""), "unproved_clauses": [c["note"]] if c.get("note") else []}
        except Exception:  # noqa: BLE001
            PROPERTY_META[pid] = {}
    return PROPERTY_META.get(pid, {})


def replay_for(ob, pid, mods):
    """Ask the sidecar modules for a native replay of a refuted obligation."""
    if os.environ.get("UJVC_NO_REPLAY"):
        return None
    for m in mods:
        for pat, fn in getattr(m, "REPLAYS", []):
            if fnmatch.fnmatch(ob["name"], pat):
                key = (m.__name__, pat)
                if key in _REPLAY_CACHE and getattr(fn, "cacheable", True):
                    return _REPLAY_CACHE[key]
                try:
                    r = fn(ob)
                except Exception as e:  # replay harness failure is not a verdict
                    r = {"reproduced": False, "detail": f"replay harness failed: {e!r}", "script": ""}
                _REPLAY_CACHE[key] = r
                return r
    return None


_REPLAY_CACHE = {}


def check_property(pid, tier="quick", seed=0, update_expected=False, jobs=None, only_units=None):
    t0 = time.time()
    mods = load_contracts()
    pids = closure(pid)
    unit_names = [n for n, u in U.UNITS.items() if any(p in u.props for p in pids)]
    if only_units:
        unit_names = [n for n in unit_names if any(s in n for s in only_units)]
    if not unit_names:
        print(f"UNDECIDED property={pid}: no proof units registered")
        return 2
    results = run_units(unit_names, jobs)
    expected_all = load_json(os.path.join(VERIF, "expected_obligations.json"), {})
    expected = set(expected_all.get(pid, []))
    findings = known_findings()

    status = 0
    msgs = []
    obs = []
    degraded = degraded_units(results, pids)
    for r in results:
        if r.status == "crash":
            status = max(status, 3)
            msgs.append(f"CRASH unit={r.name}: {r.message}")
        elif r.status == "undecided" and r.name in degraded:
            msgs.append(f"DEGRADED unit={r.name}: its contract does not apply to the code as it is now ({r.message[:160]}); the functions it covers are decided by the "
                        f"bounded stand-in(s) {', '.join(degraded[r.name])} only - bounded, not proved")
        elif r.status == "undecided":
            status = max(status, 2)
            msgs.append(f"UNDECIDED unit={r.name}: {r.message}")
        for o in r.obligations:
            if any(p in o["props"] for p in pids):
                o["unit"] = r.name
                o["bounded"] = U.UNITS[r.name].kind == "bounded"
                obs.append(o)
    names = {o["name"] for o in obs}
    if update_expected:
        expected_all[pid] = sorted(names)
        with open(os.path.join(VERIF, "expected_obligations.json"), "w") as f:
            json.dump(expected_all, f, indent=1, sort_keys=True)
        expected = names
    missing = sorted(n for n in expected - names if n.split("/", 1)[0] not in degraded and not (tier == "thorough" and "skipped-in-quick-tier" in n)
                     and not shape_dependent(n, names))
    if missing and status < 2 and not only_units:
        status = 2
        msgs.append(f"UNDECIDED property={pid}: expected obligations no longer generated: {missing[:8]}")
    if not expected and not only_units:
        status = max(status, 2)
        msgs.append(f"UNDECIDED property={pid}: no expected_obligations recorded for this property")

    violations, known_hits, unknowns = [], [], []
    os.makedirs(os.path.join(EVID, "replays", pid), exist_ok=True)
    seen_v = set()
    for o in obs:
        if o["verdict"] == "discharged":
            continue
        if o["verdict"] == "unknown":
            unknowns.append(o)
            continue
        f = match_finding(o, pid, findings)
        if f is not None:
            known_hits.append((f, o))
            continue
        key = o["name"]
        if key in seen_v:
            continue
        seen_v.add(key)
        violations.append(o)
    for f in {id(f): f for f, _ in known_hits}.values():
        print(f"KNOWN-FINDING: property={pid} {f['text']}")
    if unknowns:
        status = max(status, 2)
        for o in unknowns[:10]:
            msgs.append(f"UNDECIDED obligation {o['name']} path={o['path']}: solver answered unknown")
    vio_lines = []
    for o in violations:
        rp = replay_for(o, pid, mods)
        path = os.path.join(EVID, "replays", pid, _slug(o["name"]) + ".json")
        doc = {
            "property": pid,
            "failed_obligation": o["name"],
            "unit": o.get("unit"),
            "decisions": o["path"],
            "goal": o["goal"],
            "backend": o["backend"],
            "verifier_output": o["model"],
            "info": o["info"],
            "repo_src": REPO_SRC,
            "native_replay": rp,
        }
        with open(path, "w") as f:
            json.dump(doc, f, indent=1)
        suffix = "" if (rp and rp.get("reproduced")) else " no-failing-input-found"
        vio_lines.append(f"VIOLATION property={pid} replay={path}{suffix}")
    if violations:
        status = 1 if status < 3 else status

    wall = time.time() - t0
    write_evidence(pid, tier, seed, results, obs, violations, known_hits, unknowns, msgs, wall, degraded)
    for m in msgs:
        print(m)
    for line in vio_lines:
        print(line)
    n_dis = sum(1 for o in obs if o["verdict"] == "discharged" and not o.get("bounded"))
    n_b = sum(1 for o in obs if o.get("bounded"))
    print(f"property={pid} tier={tier} units={len(results)} obligations={len(obs) - n_b} (+{n_b} bounded stand-in checks) discharged={n_dis} "
          f"refuted={len([o for o in obs if o['verdict']=='refuted'])} unknown={len(unknowns)} known_findings={len(known_hits)} "
          f"wall={wall:.1f}s exit={status}")
    return status


def write_evidence(pid, tier, seed, results, obs, violations, known_hits, unknowns, msgs, wall, degraded=None):
    meta = property_meta(pid)
    os.makedirs(EVID, exist_ok=True)
    exdir = os.path.join(EVID, "extracted")
    os.makedirs(exdir, exist_ok=True)
    functions = {}
    assumptions = []
    inlined = []
    for r in results:
        u = U.UNITS[r.name]
        for a in u.assumptions:
            if a not in assumptions:
                assumptions.append(a)
        inlined.extend(u.inlined)
        for q, sha in r.sources.items():
            functions[q] = sha
        if r.extracted:
            with open(os.path.join(exdir, _slug(r.name) + ".py.txt"), "w") as f:
                f.write(f"# rewritten text executed by unit {r.name} (mechanically extracted from {REPO_SRC}; see ujvc/extract.py)\n")
                for q, txt in r.extracted.items():
                    f.write(f"\n# ---- {q}  sha256[:16]={r.sources.get(q)}\n{txt}\n")
    for a in meta.get("assumptions", []):
        if a not in assumptions:
            assumptions.append(a)
    backends = {}
    for o in obs:
        backends[o["backend"]] = backends.get(o["backend"], 0) + 1
    samples = []
    seen = set()
    smtdir = os.path.join(EVID, "obligations", pid)
    os.makedirs(smtdir, exist_ok=True)
    for o in obs:
        if o["name"] in seen:
            continue
        seen.add(o["name"])
        s = {"name": o["name"], "goal": o["goal"], "path": o["path"], "pc_size": o["pc_size"], "verdict": o["verdict"], "backend": o["backend"]}
        if o.get("smt2"):
            p = os.path.join(smtdir, _slug(o["name"].split("/", 1)[-1]) + ".smt2")
            with open(p, "w") as f:
                f.write(o["smt2"])
            s["smt2"] = os.path.relpath(p, VERIF)
        samples.append(s)
        if len(samples) >= 8:
            break
    slowest = sorted(obs, key=lambda o: -o["time_s"])[:5]
    bounded_obs = [o for o in obs if o.get("bounded")]
    obs_all = obs
    kf_ids = {id(o) for _, o in known_hits}
    kf_obs = [o for o in obs if id(o) in kf_ids]
    # obligations refuted by a KNOWN finding are reported separately: they are neither proved nor counted
    obs = [o for o in obs if not o.get("bounded") and id(o) not in kf_ids]
    n_dis = sum(1 for o in obs if o["verdict"] == "discharged")
    bounded_units = []
    for r in results:
        u = U.UNITS[r.name]
        if u.kind == "bounded":
            mine = [o for o in bounded_obs if o.get("unit") == r.name]
            bounded_units.append({"unit": r.name, "bound": u.doc.split("\n")[0][:300], "checks": len(mine),
                                  "passed": sum(1 for o in mine if o["verdict"] == "discharged"), "paths": r.paths,
                                  "note": "bounded stand-in: never counted in obligations/discharged"})
    cov = {
        "obligations": len(obs),
        "discharged": n_dis,
        "distinct_obligation_names": len({o["name"] for o in obs}),
        "checker_cmd": f"./check {pid} --tier {tier}",
        "trusted_base": assumptions,
        "functions_under_contract": functions,
        "inlined_functions": sorted(set(inlined)),
        "units": [
            {"unit": r.name, "status": r.status, "paths": r.paths, "paths_infeasible": r.paths_infeasible,
             "obligations": len(r.obligations), "wall_s": round(r.wall_s, 2), "solver_s": round(r.solver_s, 2),
             "path_ends": r.path_ends, "kind": U.UNITS[r.name].kind}
            for r in results
        ],
        "paths_explored": sum(r.paths for r in results),
        "paths_infeasible": sum(r.paths_infeasible for r in results),
        "backends": backends,
        "solver_time_s": round(sum(r.solver_s for r in results), 2),
        "slowest": [{"name": o["name"], "time_s": o["time_s"], "backend": o["backend"]} for o in slowest],
        "samples": samples,
        "unproved_clauses": meta.get("unproved_clauses", []),
        "bounded_standins": bounded_units + meta.get("bounded", []),
        "known_findings_matched": [f["text"] for f, _ in known_hits],
        "obligations_refuted_by_known_findings": [{"name": o["name"], "path": o["path"]} for o in kf_obs],
        "undecided": [m for m in msgs],
        "degraded_to_bounded": [{"unit": k, "decided_only_by_bounded_standins": v} for k, v in (degraded or {}).items()],
        "refuted": [{"name": o["name"], "path": o["path"]} for o in violations],
        "repo_src": REPO_SRC,
        "explanation": meta.get("explanation", ""),
    }
    doc = {
        "property_id": pid,
        "tier": tier,
        "seed": int(seed),
        "level": "proof",
        "coverage": cov,
        "assumptions": assumptions,
        "wall_s": round(wall, 2),
        "violations": len(violations),
    }
    with open(os.path.join(EVID, f"{pid}.json"), "w") as f:
        json.dump(doc, f, indent=1)


def run_replay(path):
    with open(path) as f:
        doc = json.load(f)
    print(f"replay of {doc['failed_obligation']} (property {doc['property']})")
    print("decisions:", " ; ".join(doc["decisions"]))
    print("goal:", doc["goal"])
    print("verifier output:\n" + (doc.get("verifier_output") or ""))
    rp = doc.get("native_replay")
    if not rp or not rp.get("script"):
        print("no native replay script: no-failing-input-found")
        return 1
    env = dict(os.environ, PYTHONPATH=doc.get("repo_src", REPO_SRC))
    p = subprocess.run(["/venv/bin/python", "-c", rp["script"]], env=env, capture_output=True, text=True, timeout=600)
    print(p.stdout[-4000:])
    print(p.stderr[-2000:])
    return 1 if p.returncode != 0 else 0


def main(argv=None):
    import argparse

    ap = argparse.ArgumentParser(prog="check")
    ap.add_argument("property", nargs="?")
    ap.add_argument("--tier", default=os.environ.get("VERIF_TIER", "quick"))
    ap.add_argument("--replay")
    ap.add_argument("--update-expected", action="store_true")
    ap.add_argument("--jobs", type=int)
    ap.add_argument("--unit", action="append")
    a = ap.parse_args(argv)
    if a.replay:
        return run_replay(a.replay)
    if not a.property:
        ap.error("property id required")
    seed = int(os.environ.get("VERIF_SEED", "0") or 0)
    if a.tier == "thorough":
        from . import thorough

        return thorough.check_thorough(a.property, seed=seed, jobs=a.jobs)
    return check_property(a.property, tier=a.tier, seed=seed, update_expected=a.update_expected, jobs=a.jobs, only_units=a.unit)
