"""Thorough tier: the quick obligations plus whatever deeper exploration exists for the property
(longer solver budgets, bounded stand-ins, mutation self-test).  Filled in per property."""
from . import check


def check_thorough(pid, seed=0, jobs=None):
    import os

    os.environ["UJVC_TIER"] = "thorough"
    rc = check.check_property(pid, tier="thorough", seed=seed, jobs=jobs)
    return rc
