"""Thorough tier: the quick obligations plus
  * the vacuity covers (ujvc/units.py: every path condition with quantified assumptions has a finite-scope model),
  * the bounded stand-ins at their large bounds (contracts/system.py: 6000 histories x 3 seeds; engine stress under adversarial schedules),
  * the Lean lemma file,
  * the mutation self-test for the property's own mutants (selftest/corpus.json): each change is applied to a scratch copy of /repo/src
    outside /repo and /verif and must be flagged by this property's check; a change that is NOT flagged is reported as a weakness of the
    machinery in the evidence (mutation_selftest) and on stdout - it is not a violation of the property.
"""
import json
import os
import sys

from . import check


def check_thorough(pid, seed=0, jobs=None):
    os.environ["UJVC_TIER"] = "thorough"
    rc = check.check_property(pid, tier="thorough", seed=seed, jobs=jobs)
    if os.environ.get("UJVC_REPO_SRC"):
        return rc  # never nest self-tests
    sys.path.insert(0, os.path.join(check.VERIF, "tools"))
    import selftest

    corpus = json.load(open(os.path.join(check.VERIF, "selftest", "corpus.json")))["mutants"]
    mine = [dict(m, breaks=[pid]) for m in corpus if pid in m["breaks"]]
    from concurrent.futures import ThreadPoolExecutor

    with ThreadPoolExecutor(8) as ex:
        results = list(ex.map(selftest.run_one, mine))
    summary = []
    for r in results:
        v = r.get("verdicts", {}).get(pid, {"verdict": "error", "failed_obligations": []})
        summary.append({"mutant": r["id"], "verdict": v["verdict"], "failed_obligations": v.get("failed_obligations", [])[:3]})
        if v["verdict"] != "detected":
            print(f"SELFTEST: property={pid} change {r['id']} was not flagged ({v['verdict']}) - weakness of the machinery, not a violation")
    path = os.path.join(check.EVID, f"{pid}.json")
    try:
        doc = json.load(open(path))
        doc["coverage"]["mutation_selftest"] = {"mutants": len(summary), "detected": sum(1 for s in summary if s["verdict"] == "detected"), "results": summary}
        json.dump(doc, open(path, "w"), indent=1)
    except FileNotFoundError:
        pass
    print(f"selftest property={pid}: {sum(1 for s in summary if s['verdict'] == 'detected')}/{len(summary)} seeded changes flagged")
    return rc
