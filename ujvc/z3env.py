"""Import z3 (the z3-solver 5.1.0 wheel of the tooling venv) into the interpreter that runs
the repository (/venv/bin/python, CPython 3.12).  The wheel is pure Python + ctypes, so it
works across interpreter versions; only the z3 package is taken from that site-packages
directory (the path entry is removed again right after the import)."""
import sys

_SITE = "/opt/veriftools/pyvenv/lib/python3.11/site-packages"

try:
    import z3  # noqa: F401
except ImportError:  # pragma: no cover - depends on interpreter
    sys.path.append(_SITE)
    try:
        import z3  # noqa: F401
    finally:
        try:
            sys.path.remove(_SITE)
        except ValueError:
            pass

import os

# The checks registered in MANIFEST.json always run against /repo.  The mutation self-test points
# this at a scratch copy outside /repo and /verif.
REPO_SRC = os.environ.get("UJVC_REPO_SRC", "/repo/src")


def ensure_repo_first():
    """Make sure `import uberjob` resolves to the working tree, not the installed copy."""
    if not sys.path or sys.path[0] != REPO_SRC:
        if REPO_SRC in sys.path:
            sys.path.remove(REPO_SRC)
        sys.path.insert(0, REPO_SRC)
    for name in list(sys.modules):
        if name == "uberjob" or name.startswith("uberjob."):
            mod = sys.modules[name]
            f = getattr(mod, "__file__", "") or ""
            if not f.startswith(REPO_SRC):
                del sys.modules[name]
    import uberjob

    assert uberjob.__file__.startswith(REPO_SRC), uberjob.__file__
