#!/venv/bin/python
"""Mutation self-test: apply every change of selftest/corpus.json to a scratch copy of /repo/src (outside /repo and /verif), run the
checks of the properties it is meant to break against the copy, and record the verdict.  A change that the checks do not flag
(exit 0) is a weakness of the machinery, not a property violation.  Usage: tools/selftest.py [--props C01,C04] [--ids a,b] [--jobs 8]"""
import argparse
import json
import os
import shutil
import subprocess
import sys
import tempfile
from concurrent.futures import ThreadPoolExecutor

VERIF = os.path.dirname(os.path.dirname(os.path.abspath(__file__)))


def run_one(m, replay=False):
    s = tempfile.mkdtemp(prefix="ujvc-selftest.", dir=os.environ.get("TMPDIR", "/tmp"))
    try:
        shutil.copytree("/repo/src", os.path.join(s, "src"))
        p = subprocess.run(["patch", "-s", "-p1", "-i", os.path.join(VERIF, m["patch"])], cwd=s, capture_output=True, text=True)
        if p.returncode != 0:
            return {"id": m["id"], "verdicts": {}, "error": "patch does not apply: " + (p.stdout + p.stderr)[-300:]}
        out = {}
        for pid in m["breaks"]:
            env = dict(os.environ, UJVC_REPO_SRC=os.path.join(s, "src"), UJVC_EVID=os.path.join(s, "evid"))
            if not replay:
                env["UJVC_NO_REPLAY"] = "1"
            env.pop("UJVC_TIER", None)
            r = subprocess.run([os.path.join(VERIF, "check"), pid], env=env, capture_output=True, text=True, timeout=3000)
            lines = [l for l in r.stdout.splitlines() if l.startswith("VIOLATION")]
            names = []
            for l in lines[:6]:
                try:
                    doc = json.load(open(l.split("replay=")[1].split()[0]))
                    names.append(doc["failed_obligation"])
                except Exception:  # noqa: BLE001
                    pass
            out[pid] = {"exit": r.returncode, "violation_lines": len(lines), "failed_obligations": names,
                        "verdict": {0: "MISSED", 1: "detected", 2: "undecided"}.get(r.returncode, "crash")}
        return {"id": m["id"], "verdicts": out}
    finally:
        shutil.rmtree(s, ignore_errors=True)


def main():
    ap = argparse.ArgumentParser()
    ap.add_argument("--props")
    ap.add_argument("--ids")
    ap.add_argument("--jobs", type=int, default=6)
    ap.add_argument("--write", action="store_true")
    a = ap.parse_args()
    corpus = json.load(open(os.path.join(VERIF, "selftest", "corpus.json")))["mutants"]
    if a.props:
        ps = set(a.props.split(","))
        corpus = [m for m in corpus if ps & set(m["breaks"])]
    if a.ids:
        ids = set(a.ids.split(","))
        corpus = [m for m in corpus if m["id"] in ids]
    with ThreadPoolExecutor(a.jobs) as ex:
        results = list(ex.map(run_one, corpus))
    ok = True
    for r in results:
        for pid, v in r.get("verdicts", {}).items():
            print(f"{r['id']:40s} {pid} {v['verdict']:10s} {'; '.join(n.split('/', 1)[-1][:70] for n in v['failed_obligations'][:2])}")
            ok = ok and v["verdict"] == "detected"
        if r.get("error"):
            print(f"{r['id']:40s} ERROR {r['error']}")
            ok = False
    if a.write:
        path = os.path.join(VERIF, "selftest", "results.json")
        old = {}
        if os.path.exists(path):
            old = {r["id"]: r for r in json.load(open(path))["results"]}
        for r in results:
            old[r["id"]] = r
        json.dump({"results": [old[k] for k in sorted(old)]}, open(path, "w"), indent=1)
    return 0 if ok else 1


if __name__ == "__main__":
    sys.exit(main())
