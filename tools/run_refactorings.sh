#!/bin/sh
# tools/run_refactorings.sh [id ...]: apply each harmless refactoring to a scratch copy and run ALL checks (REF_JOBS at a time, native probes at UJVC_QUICK_CASES=400 histories unless overridden); print the non-zero exits
V="$(cd "$(dirname "$0")/.." && pwd)"; cd "$V"
IDS="$@"; [ -z "$IDS" ] && IDS=$(ls refactorings)
PROPS="C01 C02 C03 C04 C05 C06 C07 C08 C09 C10 C11 C12 C13 C14 C15 C16 C18 C19 C20"
for id in $IDS; do
  S=$(mktemp -d /tmp/ujvc-ref.XXXXXX); mkdir -p "$S/repo"; cp -r /repo/src "$S/repo/src"
  ( cd "$S/repo" && patch -s -p1 < "$V/refactorings/$id/patch.diff" ) || { echo "$id: PATCH FAILED"; rm -rf "$S"; continue; }
  echo $PROPS | tr ' ' '\n' | xargs -P ${REF_JOBS:-6} -I{} sh -c "UJVC_QUICK_CASES=${UJVC_QUICK_CASES:-400} UJVC_NO_REPLAY=1 UJVC_REPO_SRC='$S/repo/src' UJVC_EVID='$S/evid.{}' '$V/check' {} > '$S/out.{}' 2>&1; echo \$? > '$S/rc.{}'"
  out=""
  for pid in $PROPS; do
    rc=$(cat "$S/rc.$pid")
    if [ "$rc" != "0" ]; then out="$out $pid=$rc"; grep -E '^(VIOLATION|UNDECIDED|CRASH)' "$S/out.$pid" | sed "s#$S#<s>#g" | cut -c1-230 | head -3 > "$S/why.$pid"; fi
  done
  deg=$(cat "$S"/out.* | grep -c '^DEGRADED')
  echo "$id:${out:- all 0}  (degraded-to-bounded lines: $deg)"
  [ -n "$REF_DEG" ] && cat "$S"/out.* | grep '^DEGRADED' | sed 's/^DEGRADED unit=\([^:]*\): its contract does not apply to the code as it is now (\(.\{0,110\}\).*/      degraded: \1 <- \2/' | sort -u | head -12
  for f in "$S"/why.*; do [ -f "$f" ] && { echo "   [$(basename $f | sed 's/why.//')]"; sed 's/^/      /' "$f"; }; done 2>/dev/null | head -${REF_LINES:-14}
  rm -rf "$S"
done
