#!/venv/bin/python
"""Generate /verif/MANIFEST.json from the table below (kept in one place so that the manifest is
always valid and the not_applicable list is always complete)."""
import json
import os

VERIF = os.path.dirname(os.path.dirname(os.path.abspath(__file__)))
ALL = [f"C{i:02d}" for i in range(1, 21)]

TB = ("Trusted base: CPython executes the mechanically extracted text as it executes the original (rewrites R1-R7, "
      "DESIGN 1.2); z3 / cvc5 sound; sidecar contracts assumed for stdlib / networkx / user callables as listed in the "
      "evidence file's assumptions.")

CLAIMED = {
    # pid: (category, technique, level text, level note, design_ref)
}

NOT_YET = "not claimed yet: the contracts for this property are still being built (see DESIGN.md section 10)"
NA = {
    "C17": "asynchronous KeyboardInterrupt can surface between any two bytecodes of the coordinating thread, including "
           "inside stdlib code; no function contract can quantify over an exception that originates at no call site "
           "(DESIGN.md section 5, C17). The coordinator's cleanup when queue.join() itself raises is proved under C07.",
}


def main():
    import importlib.util, sys
    sys.path.insert(0, VERIF)
    spec = importlib.util.spec_from_file_location("claims", os.path.join(VERIF, "tools", "claims.py"))
    m = importlib.util.module_from_spec(spec)
    spec.loader.exec_module(m)
    claimed = m.CLAIMED
    checks = []
    for pid in ALL:
        if pid not in claimed:
            continue
        c = claimed[pid]
        checks.append({
            "property_id": pid,
            "quick_cmd": f"./check {pid} --tier quick",
            "thorough_cmd": f"./check {pid} --tier thorough",
            "evidence_file": f"/verif/evidence/{pid}.json",
            "replay_cmd_template": "./check --replay {path}",
            "engine": "ujvc",
            "level_claimed": {"category": c.get("category", "proof"), "text": c["text"], "design_ref": c.get("design_ref", f"DESIGN.md section 5, {pid}")},
            "level_note": c["note"] + " " + TB,
            "technique": c["technique"],
        })
    na = []
    for pid in ALL:
        if pid in claimed:
            continue
        na.append({"property_id": pid, "reason": NA.get(pid, NOT_YET)})
    man = {
        "version": 1,
        "setup_cmd": "./setup.sh",
        "hooks": {
            "guard": "UBERJOB_VERIF",
            "enable": "none needed: contracts are sidecar files under /verif/contracts, the functions are extracted from /repo's working tree on every run; no hook or instrumentation was added to /repo",
            "baseline_off_cmd": "cd /repo && /venv/bin/python -m pytest -ra -q -p no:cacheprovider --timeout=900 --continue-on-collection-errors",
            "source_commits": [],
            "add_only": True,
        },
        "engines": [{
            "name": "ujvc",
            "path": "/verif/ujvc",
            "serves_properties": [c["property_id"] for c in checks],
            "kind_free_text": "home-built contract verifier: the real functions are extracted from /repo/src with ast on every run, "
                              "executed by CPython 3.12 on symbolic proxies with loops / calls / recursion cut by sidecar contracts "
                              "(/verif/contracts), obligations discharged by z3 (cvc5 for the cardinality lemma schemas)",
        }],
        "checks": checks,
        "not_applicable": na,
        "notes": m.NOTES,
    }
    with open(os.path.join(VERIF, "MANIFEST.json"), "w") as f:
        json.dump(man, f, indent=1)
    print("claimed:", [c["property_id"] for c in checks], "not claimed:", [x["property_id"] for x in na])


if __name__ == "__main__":
    main()
