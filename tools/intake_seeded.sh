#!/bin/sh
# tools/intake_seeded.sh <PID> <round-dir>   e.g.  C12 /tmp/wt3
# confirms what a sub-agent delivered in <round-dir>/out/<PID>, numbering after the changes already kept, then removes the agent's worktree
PID="$1"; R="$2"
OFF=$(ls -d /verif/seeded/$PID-* 2>/dev/null | sed "s#.*/$PID-##" | sort -n | tail -1); OFF=${OFF:-0}
git -C "$R/$PID" checkout -q -- . 2>/dev/null
/verif/tools/confirm_seeded.sh "$R/out/$PID" "$PID" "$OFF"
git -C /repo worktree remove --force "$R/$PID" 2>/dev/null; git -C /repo worktree prune
