#!/bin/sh
# tools/intake_refactoring.sh <AREA> <round-dir>: confirm (patch applies, 81 tests pass) and keep harmless refactorings under /verif/refactorings/<AREA>-<k>/
A="$1"; R="$2"
for P in "$R/out/$A"/patch*.diff; do
  [ -f "$P" ] || continue
  N=$(basename "$P" .diff | sed 's/patch//')
  D=$(mktemp -d /tmp/ujvc-ref.XXXXXX)
  git -C /repo worktree add -q --detach "$D/wt" HEAD || continue
  if git -C "$D/wt" apply "$P" 2>/dev/null; then
    T=$(cd "$D/wt" && PYTHONPATH="$D/wt/src" timeout 600 /venv/bin/python -m pytest -q -p no:cacheprovider 2>&1 | tail -1)
    case "$T" in *"81 passed"*) O=/verif/refactorings/$A-$N; mkdir -p "$O"; cp "$P" "$O/patch.diff"; cp "$R/out/$A/meta$N.json" "$O/meta.json" 2>/dev/null; echo "$A-$N: KEPT [$T]";; *) echo "$A-$N: tests [$T]";; esac
  else echo "$A-$N: apply failed"; fi
  git -C /repo worktree remove --force "$D/wt"; rm -rf "$D"
done
git -C /repo worktree remove --force "$R/$A" 2>/dev/null; git -C /repo worktree prune
