#!/bin/sh
# tools/confirm_seeded.sh <src-dir-with-patchN.diff/demoN.py/metaN.json> <PID> [<offset added to N>]
# Confirms each delivered change in a scratch worktree of /repo (HEAD): applies, runs the unedited suite,
# runs the demo with and without the change; keeps confirmed ones under /verif/seeded/<PID>-<n>/.
SRC="$1"; PID="$2"; OFF="${3:-0}"
for P in "$SRC"/patch*.diff; do
  [ -f "$P" ] || continue
  N=$(basename "$P" .diff | sed 's/patch//'); M=$((N+OFF))
  D=$(mktemp -d /tmp/ujvc-seed.XXXXXX)
  git -C /repo worktree add -q --detach "$D/wt" HEAD || { echo "worktree failed"; continue; }
  cp "$SRC/demo$N.py" "$D/wt/demo.py"
  res="apply=fail"
  if git -C "$D/wt" apply "$P" 2>/dev/null; then
    T=$(cd "$D/wt" && PYTHONPATH="$D/wt/src" timeout 600 /venv/bin/python -m pytest -q -p no:cacheprovider 2>&1 | tail -1)
    (cd "$D/wt" && PYTHONPATH="$D/wt/src" timeout 300 /venv/bin/python demo.py >/dev/null 2>&1); RC1=$?
    git -C "$D/wt" checkout -q -- src
    (cd "$D/wt" && PYTHONPATH="$D/wt/src" timeout 300 /venv/bin/python demo.py >/dev/null 2>&1); RC0=$?
    res="tests=[$T] demo_with=$RC1 demo_without=$RC0"
    case "$T" in *"81 passed"*) if [ $RC1 -ne 0 ] && [ $RC0 -eq 0 ]; then
        O=/verif/seeded/$PID-$M; mkdir -p "$O"; cp "$P" "$O/patch.diff"; cp "$SRC/demo$N.py" "$O/demo.py"
        /venv/bin/python - "$SRC/meta$N.json" "$O/meta.json" "$T" "$RC1" "$RC0" <<'PY'
import json,sys
try: m=json.load(open(sys.argv[1]))
except Exception: m={}
m["confirmed_by_me"]={"suite_with_change":sys.argv[3],"demo_exit_with_change":int(sys.argv[4]),"demo_exit_without_change":int(sys.argv[5]),
 "how":"tools/confirm_seeded.sh in a scratch worktree of /repo HEAD: git apply patch; unedited suite with PYTHONPATH=<wt>/src; demo with and without the change"}
json.dump(m,open(sys.argv[2],"w"),indent=1)
PY
        res="$res KEPT"; fi;; esac
  fi
  echo "$PID-$M: $res"
  git -C /repo worktree remove --force "$D/wt"; rm -rf "$D"
done
