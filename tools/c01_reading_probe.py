import uberjob, time, threading, tempfile, os, datetime as dt
from uberjob.stores import JsonFileStore
assert uberjob.__file__.startswith('/repo/src')
ev=[]
def A():
    ev.append('A:start'); time.sleep(0.5); ev.append('A:end'); return 1
def B(a): ev.append('B'); return a+1
def C(b): ev.append('C:start'); return b+1
def D(a): ev.append('D'); return a+10
d=tempfile.mkdtemp()
p=uberjob.Plan(); r=uberjob.Registry()
a=p.call(A); b=p.call(B,a); c=p.call(C,b); dd=p.call(D,a)
r.add(b, JsonFileStore(os.path.join(d,'b.json')))
print(uberjob.run(p,registry=r,output=[c,dd],max_workers=4,progress=None)); print(ev)
ev.clear()
print(uberjob.run(p,registry=r,output=[c,dd],max_workers=4,progress=None)); print(ev)
