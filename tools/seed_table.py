#!/venv/bin/python
"""Print the markdown table of DESIGN.md I.6 from selftest/corpus.json and selftest/results.json."""
import json
import os

V = os.path.dirname(os.path.dirname(os.path.abspath(__file__)))
corpus = json.load(open(os.path.join(V, "selftest", "corpus.json")))["mutants"]
res = {r["id"]: r for r in json.load(open(os.path.join(V, "selftest", "results.json")))["results"]}
print("| change | property | verdict | obligations that fail (first two) |")
print("|---|---|---|---|")
for m in corpus:
    r = res.get(m["id"], {})
    for pid in m["breaks"]:
        v = r.get("verdicts", {}).get(pid, {})
        obs = "; ".join("`%s` %s" % tuple((o.split("/", 1) + [""])[:2]) for o in v.get("failed_obligations", [])[:2])
        print(f"| {m['id']} | {pid} | {v.get('verdict', 'not run')} | {obs} |")
