#!/bin/sh
# tools/run_seeded.sh [id ...]   run each seeded change against the check of the property it is meant to break
V="$(cd "$(dirname "$0")/.." && pwd)"; cd "$V"
IDS="$@"; [ -z "$IDS" ] && IDS=$(ls seeded)
for id in $IDS; do
  pid=$(echo $id | cut -d- -f1)
  out=$(MUT_LINES=2 timeout 1500 tools/mutcheck.sh seeded/$id/patch.diff $pid 2>&1 | cut -c1-210)
  echo "$id: $(echo "$out" | head -1)"; echo "$out" | sed -n '2,3p' | sed 's/^/      /'
done
