#!/bin/sh
# tools/probe_seeded.sh <id> ... : run the native system probe against a scratch copy with the seeded change applied
cd /verif
for id in "$@"; do
  S=$(mktemp -d /tmp/ujvc-probe.XXXXXX); cp -r /repo/src "$S/src"; mkdir "$S/x"
  (cd "$S" && patch -s -p1 < /verif/seeded/$id/patch.diff) || echo "patch failed"
  out=$(UJVC_REPO_SRC="$S/src" PYTHONPATH=/verif:$S/src timeout 600 /venv/bin/python -c "
from contracts import sysprobe
r=sysprobe.replay_for([], 1500)({}); print(r['reproduced']); print(r['detail'][-900:])" 2>&1 | cut -c1-260 | head -4)
  echo "$id: $out"
  rm -rf "$S"
done
