"""What MANIFEST.json claims, per property.  Edited by hand as contracts come online."""
NOTES = ("Contract-based deductive verification with a home-built verifier (ujvc, DESIGN.md section 2): the real functions are extracted "
         "from /repo/src with ast on every run and executed by CPython on symbolic proxies with loops / calls cut by sidecar contracts; "
         "obligations are discharged by z3 (stage P) and refuted in a finite scope (stage R). Exit codes of ./check: 0 held, 1 VIOLATION, "
         "2 undecided, 3 crash. Units labelled 'bounded' are stand-ins that are reported separately in the evidence and never counted as proved. "
         "The check of a property also discharges the obligations of the properties its argument uses as lemmas (ujvc/check.py DEPENDS).")

_ENGINE = ("rely/guarantee proof of the real worker code: every shared access of process_node is one atomic step, the always-invariant "
           "G1,G2,G3,G6 and the lock invariants G4,G5 are re-established after each step (z3; cardinality facts are instances of lemma schemas "
           "checked by cvc5)")

CLAIMED = {
    "C01": dict(
        technique="contract verification (rely/guarantee with lock invariants) of the real process_node, prepare_nodes, predecessor_count, queues, coordinator; z3 + finite-scope refutation",
        text="Proved for all graphs, worker counts, queue kinds and interleavings in the access-atomic sequentially consistent model: at the call of fn(node) every "
             "predecessor is in the ghost set 'completed', which is only extended when fn returned normally (" + _ENGINE + "); prepare_nodes / predecessor_count "
             "establish the invariant (distinct predecessors); the queues neither lose nor duplicate items; process (run_physical) ties 'completed' to the call function having returned.",
        note="Assumes the GIL memory model (T2), queue.Queue / Lock / Thread contracts (T3, T4), networkx adjacency views (T5) and the ownership-transfer rule through the queue (T14, paper argument). "
             "Reachability preservation by literal pruning (L-BYPASS) is proved in Lean (thorough tier) and validated by the bounded graph enumeration; greedy priorities are not under contract (T12: only used through dict.get(node, -1)).",
    ),
    "C02": dict(
        technique='contract verification (z3) of Plan._call with symbolic argument counts, Plan._gather + nested recurse by structural induction, gather_* builtins, get_argument_nodes with loop invariants over a symbolic in-edge sequence, BoundCall.run / bound-call construction / process / run composition / unpack / edge keys (equality and the hash law); L-COUNT in Lean; broken variants of the sequence contracts refuted with validated countermodels (stage R2)',
        text='Proved, unbounded: recurse(root) returns the very object when no node is inside and otherwise a node whose value is root with every node replaced by its value, same shape, exact built-in types only (structural induction, recursive calls cut by the hypothesis); _gather wraps a non-node in a literal holding the very object; Plan._call adds exactly the edges (gather(arg_i), c, Pos i), (gather(kwarg_j), c, Kw(name_j, j)) for ANY number of arguments, which is WF_args(c); get_argument_nodes returns args[i] = the predecessor on Pos(i) and the keyword pairs in index order for every in-edge sequence satisfying WF_args (two loop invariants, every list index proved in range); bound calls take exactly those slots, BoundCall.run passes slot values read at call time, literals are their own slot, run returns the output slot; schedule independence through C01/C04.',
        note='Assumed: argument structures are finite and acyclic; dict(pairs) keeps insertion order; the denotation val(call) = fn(values on its argument edges) is the composition of BoundCall.run, get_argument_nodes and C01 (stated, each part proved separately); WF_args is established by Plan._call and carried by the rewrite contract (same keys) - its preservation through pruning is by the prune contracts (whole nodes removed only outside the ancestors). L-COUNT (a bijection between the positional edges and [0,P) gives exactly P of them) is proved in Lean (thorough tier). A bounded round trip over argument trees of depth <= 2 incl. multi-step construction stays as a safety net and as native replay. validation.assert_can_bind and greedy are not under contract.',
    ),
    "C03": dict(
        technique='layer 1: contracts on the real stale check, rewrite, pruning, run composition (z3); layer 2: SMT lemmas over those contracts (contracts/history.py: nearest-stored-ancestor form of Stale, inductive invariant J over every history step, fresh => from-scratch value, successful-run summary) by rank-induction steps and the invariant rule; H-ATOMIC discharged for the bundled file stores by the contracts of C11 (dependency C03 -> C11); bounded native probe over generated histories as validation',
        text="Proved per function: process computes the declarative Stale / M spec for every node; _add_value_store performs exactly the specified whole-graph rewrite; plan_with_value_stores requires exactly the write nodes of the stale entries; prune_plan keeps the ancestors; run composes them. Proved as lemmas over these contracts, for graphs of any size: the invariant J ('a stored value is consistent with the current contents of its nearest stored ancestors whenever the modified times look consistent') holds initially and is preserved by every store write that takes effect (in any order, at any cut), source update, deletion and fresh_time change; J and not Stale(n) imply that n's stored value is the from-scratch value; after a successful run every stored value was computed from the final contents of its nearest stored ancestors and nothing is out of date.",
        note='The lemmas are first-order VCs with the induction hypothesis assumed (rank induction over the DAG, invariant rule over the history); the two rules themselves are proved in Lean (lemmas/Induction.lean), their instantiation with the step VCs is by hand. Hypotheses taken from other contracts and named in the evidence: H-ATOMIC (C09/C04/C01), H-TIME and H-DET (statement of C03), C11 atomic store writes. Dependent sources written by a side effect are outside the store view (scope limit). The bounded probe (histories <= 6 steps over plans <= 8 nodes) validates the whole argument natively and is never counted as proved.',
    ),
    "C04": dict(
        technique="same engine invariant as C01 (token exclusivity, put only of not-yet-enqueued nodes), queue contracts, all_ancestors loop invariant, prune_plan composition",
        text="Proved: fn(node) is called at most once per token and a node is put only if it is not already enqueued (G3/G4 with the cardinality lemmas), for all interleavings; "
             "all_ancestors returns a predecessor-closed set inside Anc(S) that contains S; prune_plan removes exactly the complement; run passes required_nodes=[] without a registry.",
        note="'Anc(S) is contained in every predecessor-closed superset of S' (L-REACH, proved in Lean) and the completion lemma are lemmas over the contracts: 'when the run returns normally every node of the pruned graph was processed' is discharged by z3 (contracts/completion.py, rank-induction step from the engine invariants at quiescence); "
             "that the run returns at all is liveness (not proved). Termination of all_ancestors is not proved.",
    ),
    "C05": dict(
        technique='contract verification of the stale check against the declarative out-of-date spec (symbolic times, z3), of plan_with_value_stores (write set) and of _add_value_store (no write node for fresh entries); lemma H4 (after a successful run nothing is out of date) over the contracts; safe_max proved for any number of values; L-NEEDED in Lean',
        text='Proved: stale_lookup[n] == Stale(n) with the strict comparison and the pure-source clause taken from the statement; required == {write(n) | n registered and stale}; a fresh stored node gets no write node and its argument consumers are re-pointed to the read node; lemma (z3, any graph size): after a successful run no stored node is out of date, so a repeated run rewrites nothing; safe_max (newest of the values present, None when there is none) proved on the real function for a symbolic-length sequence in both calling conventions; a bounded stand-in (<= 3 predecessors) keeps deciding the per-node spec when the code is restructured.',
        note="'each exactly once' and 'nothing else runs' use C04 and L-NEEDED (Lean, lemmas/Needed.lean: a read node that survives pruning and is not the output has a surviving argument consumer). 'Read at most once' is 'one read node per registered node' (rewrite postcondition) plus C04; composing these facts is by hand, the bounded probe (store times before / around / after the wall clock) validates it. H4 assumes fresh_time is not in the future and pure sources (dependent sources: scope limit).",
    ),
    "C06": dict(
        technique="engine invariant (completed and failed disjoint, put requires all predecessors completed), failure-lock invariant G5, concrete identity checks of NodeError / CallError objects on every path, totality of error construction on awkward user objects",
        text="Proved: the failure path never adds to 'completed' and never enqueues successors; first_node_error is written only when unset, names the thread's own node and carries the very exception; "
             "no exception escapes process_node (BaseException included); the coordinator raises exactly that object after the pool is drained; run turns NodeError e into CallError(e.node) from e.__cause__ - whatever the call raised (ordinary, falsy, already chained, itself the CallError of a nested run, a NodeError); create_chained_call_error always builds a new CallError for the given node.",
        note="'first failure with one worker' follows from G5 with worker_count = 1 (not a separate obligation). A registered Literal whose modified-time query fails yields AttributeError instead of CallError: known finding F4 (reported under C19). F6 (exceptions whose attributes cannot be assigned, e.g. frozen dataclasses, lost as the cause) was found in round 7 and fixed in /repo (925fe03). User values, stores, exceptions and callables are represented by awkward stand-ins (falsy, unhashable, equal-but-distinct) so that truthiness / equality slips on them fail identity obligations.",
    ),
    "C07": dict(
        technique="contracts on the Kahn loop of topological_sort / assert_acyclic (ghost rank: returns => acyclic, raises => a cycle exists; L-RANK, L-CYCLE in Lean), process_items (task_done exactly once per get), worker_pool (all started threads joined on every exit), coordinator (DONE count, cleanup on exceptional join), process_node (nothing escapes), run composition (every real run reaches run_physical / the stale check with their contracts' parameters)",
        text='Safety premises proved for all paths: assert_acyclic is the first effect of the engine, returns only for acyclic graphs and raises only when a cycle exists; every get is followed by exactly one task_done; exactly worker_count DONEs are put on every exit of queue.join(); every started worker is joined on every exit of the pool; run passes no switch that could skip the check. NOT proved: liveness (run returns in finite time) needs scheduler fairness and terminating call functions.',
        note='liveness: not proved (paper argument in DESIGN.md). A bounded stand-in runs the real uberjob.run on cyclic plans (cycles <= 3 nodes x registry none/empty/non-empty x workers x schedulers x dry/real) and is the native replay for the second clause. greedy.get_priority_mapping is assumed to terminate without raising (T12); its result is only used through dict.get(node, -1), which is total.',
    ),
    "C08": dict(
        technique='the per-function contracts of C03/C05/C09 plus the C11 file-level proof; the cut-point argument as SMT lemmas over those contracts (contracts/history.py: J is inductive under every write that takes effect, J and not Stale => from-scratch value, frame of a write)',
        text="Proved pieces: the invariant GI holds after every atomic step (so the set of effected operations is predecessor-closed at every cut), nothing downstream of a failure takes effect (C06), rebuilt values are written before their consumers start (C09), file stores publish atomically at every fault point (C11). Proved as lemmas (z3, any graph size): J is preserved by every single store write in any order, hence holds after every cut; J and 'treated as up to date' imply the from-scratch value; a write changes the staleness of no node it does not reach, and a value completely written while its nearest stored ancestors were up to date is itself treated as up to date.",
        note="Rank induction and the invariant rule are proved as schemas in Lean and instantiated by hand; hypotheses H-ATOMIC / H-TIME / H-DET as under C03. Process death between store operations is a cut with no handler; os._exit is modelled as 'no further operation takes effect'. Bounded probe (failed runs inside generated histories) as validation.",
    ),
    "C09": dict(
        technique="whole-graph postcondition of the real _add_value_store on a symbolic MultiDiGraph (z3, finite-scope refutation), output redirection in plan_with_value_stores and run; stale propagation through C05's contracts; L-BYPASS in Lean",
        text="Proved for every node kind / source flag / staleness: E' is exactly the specified rewrite - write -> read (Dep), argument consumers re-pointed to the read node with the same key, plain dependents to the write node, Barrier inheriting a stale source's predecessors - and nothing else changes; the output is redirected to the read node; ordering then follows from C01; 'every stored value downstream is rebuilt in the same run' is the 'some predecessor is stale' disjunct of the Stale spec (C05).",
        note='Plan.lit / Plan._call are stubs carrying contracts that are proved separately (contracts/plumbing.py, contracts/gather.py). L-BYPASS (by-passing a literal preserves reachability) is proved in Lean (thorough tier).',
    ),
    "C10": dict(
        technique="loop invariant on the real retry wrapper; ghost in-flight set and failure-lock invariant for max_errors; worker_pool / coordinator contracts for max_workers; run composition for the plumbing",
        text="Proved: retry (all attempts >= 1, exception classes, outcomes); exactly worker_count threads run process_items and fn is only called after an unset stop flag was read; "
             "error_count + in-flight <= max_errors + worker_count once stop is set (G5 with cardinality lemmas); stale check sized by stale_check_max_workers defaulting to max_workers; both phases get the same coerced retry; the function the engine receives runs a call's bound call with exactly the retry given (identity when none); the attempt budget belongs to one invocation (concrete unit: three functions through one decorator).",
        note="'that many do run in parallel' is a liveness statement: not decided. The counts are lemmas over the engine invariants at quiescence (contracts/completion.py, z3): at most k + max_workers calls fail; with one worker exactly k + 1 once stop was set; "
             "when stop was never set (max_errors=None or budget not exceeded) every call all of whose dependencies succeeded was executed - so the number of failures is the number of failing calls none of whose dependencies failed. "
             "'at most worker_count tokens are held' is the worker_pool contract plus T14.",
    ),
    "C11": dict(
        technique="contract verification: real staged_write_path/staged_write/_try_remove and each store's write executed on a ghost file system; complete enumeration of ok/raise/partial/die at every file operation",
        text="Complete proof relative to the file-operation contracts: the extracted code is loop-free, every decision (each operation x ok / raise / partial write / process death, "
             "pre-existing target or not, stale staging file or not, str or pathlib path) is enumerated, and the invariant 'target holds the old or the complete new file, mtime changes only "
             "with the new content' is an obligation after every operation; exit postconditions on every path.",
        note="Assumes POSIX rename atomicity and the open/write/close/remove/serialiser contracts stated in contracts/filestore.py (T8). os._exit / SIGKILL are modelled as 'no further operation takes effect'. "
             "A bounded native probe (real files, injected I/O errors, os._exit in a child before / after the rename and while writing) validates the file-operation contracts and is the native replay.",
    ),
    "C12": dict(
        technique="contract verification of read/write plumbing on a ghost file system (same path, mode, encoding object, newline handling, serialiser pair), MountedStore (order of operations, local path private to each operation), get_modified_time against the file's mtime (symbolic, incl. 0)",
        text="Proved: the arguments the real write and read pass to open() and to the (de)serialiser compose to the identity on each store's domain, given the stdlib contracts; 'contains a carriage return' is symbolic so every str is covered; get_modified_time is None iff the path is missing/inaccessible (for every mtime value) and denotes the file's mtime; a write strictly increases it on the ghost clock; a MountedStore operation stages in a temp name created during that very operation, never shared with another operation.",
        note="The stdlib pairs (codecs, json, pickle, text-layer newline translation on POSIX) are assumed inverse as documented (T8), validated only by the bounded native run used as replay. 'never decreases' is relative to a monotone system clock.",
    ),
    "C13": dict(
        technique="frame obligations: run composition (the caller's plan is only ever passed to get_mutable_plan(inplace=False)), copies, inplace flags of every transformation, node attributes untouched by the rewrite; render on a read-only graph proxy",
        text="Proved on every path of run (registry / none / empty, dry run, failures in either phase, transform_physical): nothing but the copy is handed to any transformation (gather included); the registry only reaches plan_with_value_stores; Plan.copy / Registry.copy share no mutable container; _add_value_store leaves the node's own attributes alone and restores plan._scope; prune_* work on a copy unless inplace; render mutates only its own copy for every predicate / level combination (concrete-parametric).",
        note='nxv.render is not under contract. networkx copy independence is T5 for networkx itself; the Graph class of the tree (an alias of MultiDiGraph at the pinned commit) is run natively: whatever is written on a copy (node attributes, edge data, structure, graph attributes) leaves the original untouched (plumbing.Graph.copy-is-independent). The bundled source stores (PathSource, LiteralSource, ModifiedTimeSource) are not changed by being queried (misc.sources).',
    ),
    "C14": dict(
        technique="path obligations on run (dry run returns exactly the pair the real run would execute, calls nothing afterwards), stale check never reads/writes a store, self-containedness from the rewrite postcondition",
        text="Proved: on the dry path no run_physical call follows and the returned (plan, output node) is the pair handed to run_physical on the other path, after registry transformation, pruning and transform_physical; "
             "the stale check only calls get_modified_time; stores appear in the physical plan only as literal arguments of their read / write calls.",
        note="'performs exactly the same operations' additionally assumes deterministic stores (T7); checked end to end by the bounded probe only.",
    ),
    "C15": dict(
        technique="trace postconditions on process / process_with_callbacks (exact suffix per outcome), totals functions, observer bracket in run, composite forwarding",
        text="Proved: each call produces running.completed / running.failed(CallError caused by the exception) / running only (non-Exception BaseException) with the full call scope (+ store class in the stale section); "
             "totals are announced before the section runs, from the plan that is executed; the observer is entered first and exited last on every path; composites forward everything to every member; "
             "the function name in a scope depends on the callable given and on nothing else (fully_qualified_name without its lru_cache, under an id() that reuses numbers of dead objects); building the CallError for a failed call never fails itself, whatever the user put into the call.",
        note="Observer methods are assumed not to raise (T7). That every callable Plan.call admits can be named by get_full_call_scope / CallError (so that a failure can be reported at all) is decided by a bounded stand-in over nine kinds of callable (plumbing.call-admission). Equality of completed and total in a successful run uses C04 (each call exactly once).",
    ),
    "C16": dict(
        technique="structural contracts: bound-call construction (who holds which slot), release of the bound call on every exit of process",
        text="Proved: every Call gets a fresh slot, BoundCall(c) holds exactly the slots of c's argument predecessors and c's own result slot, the output slot is the output node's; "
             "bound_call_lookup[c].value is None on every exit of process(c). NOT expressible: that the object is actually unreachable / collected (tracebacks, frames, reference cycles).",
        note="Garbage-collectability itself is outside contract-based verification: beyond the structural contracts and the syntactic 'no caught exception bound beyond its handler' obligation it is decided only by the bounded native release probe "
             "(weak references inspected from inside later calls, cyclic collector disabled, six plan shapes and failing consumers). An exception raised by user code keeps the frames of that user code alive while the run reports it: not counted as uberjob holding the value.",
    ),
    "C18": dict(
        technique="contract verification of _to_naive_utc_time against the spec function instant() with an uninterpreted local-offset function (all time zones / DST rules), z3",
        text="Proved for all values (None, aware with any offset, naive with any fold) and all local-time rules: the normalised key equals the instant the value denotes; "
             "get_modified_time of the file stores returns the naive local time of the file's mtime instant; in the stale check the store's time and fresh_time are normalised before any comparison.",
        note="Assumes datetime.astimezone / fromtimestamp / replace behave as documented (T10).",
    ),
    "C19": dict(
        technique="complete enumeration of frame chains for get_stack_frame / render_symbolic_traceback (frames beyond the depth limit are never inspected), AST obligations on the call sites, rewrite postcondition for inherited frames",
        text="Proved: get_stack_frame returns the frames from the caller's caller outward, at most MAX_TRACEBACK_DEPTH + 1, with the truncation marker iff more exist, and depends on the current chain only - also when called again on the same live frames after their lines advanced; "
             "rendering lists them outermost first; call / gather / unpack / add / source capture the frame in their own undecorated body with the default depth; read / write nodes inherit the registry entry's frame; "
             "CallError.call and __cause__ are the failed node and its exception.",
        note="Known finding F4: CallError cannot be built for a registered Literal (AttributeError). T11: a plain def adds exactly one frame. A bounded native probe (every kind of creating line at three stack depths) stands in when the plan-construction contracts do not apply to restructured code.",
    ),
    "C20": dict(
        technique="contracts on State (symbolic counts, real-valued ghost clock), sorted_scope_items on scope values whose '<' answers or raises per pair, update thread as an Owicki-Gries proof (ghost version, _stale protected by _lock); bounded enumeration of console / HTML / IPython renders",
        text="Proved: legal notifications keep State well formed and raise nothing; the weighted elapsed times grow by exactly the elapsed time while something runs and the attribution clock advances with every notification; sorting is total for merely hashable+equatable scope values whatever '<' does between two of them; _stale is only touched under _lock, the snapshot is rendered under the lock, and the update thread's last rendering reflects the final state. BOUNDED: console / HTML / IPython _render on all small states.",
        note='Floating point treated as real arithmetic (T15). The rendering functions themselves (string formatting, ipywidgets) are only covered by the bounded enumeration.',
    ),
}
