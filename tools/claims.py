"""What MANIFEST.json claims, per property.  Edited by hand as contracts come online."""
NOTES = ("Contract-based deductive verification with a home-built verifier (ujvc, DESIGN.md section 2). "
         "Exit codes of ./check: 0 held, 1 VIOLATION, 2 undecided, 3 crash.")

CLAIMED = {
    "C10": dict(
        technique="contract verification: loop invariant on the real create_retry/wrapper (symbolic attempts), z3",
        text="retry clause proved for all attempts >= 1, all exception classes and all outcomes of the wrapped function: "
             "loop invariant calls == attempt_index on the real wrapper, postconditions per exit (result / exception identity decided natively). "
             "max_workers / max_errors clauses: see level_note.",
        note="Only the retry clause is decided so far; the worker-count and max_errors bounds are not yet under contract. "
             "'that many do run in parallel' is a liveness lower bound and is not decided by contracts.",
    ),
}
