"""What MANIFEST.json claims, per property.  Edited by hand as contracts come online."""
NOTES = ("Contract-based deductive verification with a home-built verifier (ujvc, DESIGN.md section 2). "
         "Exit codes of ./check: 0 held, 1 VIOLATION, 2 undecided, 3 crash.")

CLAIMED = {
    "C10": dict(
        technique="contract verification: loop invariant on the real create_retry/wrapper (symbolic attempts), z3",
        text="retry clause proved for all attempts >= 1, all exception classes and all outcomes of the wrapped function: "
             "loop invariant calls == attempt_index on the real wrapper, postconditions per exit (result / exception identity decided natively). "
             "max_workers / max_errors clauses: see level_note.",
        note="Only the retry clause is decided so far; the worker-count and max_errors bounds are not yet under contract. "
             "'that many do run in parallel' is a liveness lower bound and is not decided by contracts.",
    ),
    "C11": dict(
        technique="contract verification: real staged_write_path/staged_write/_try_remove and each store's write executed on a ghost file system; complete enumeration of ok/raise/partial/die at every file operation",
        text="Complete proof relative to the file-operation contracts: the extracted code is loop-free, every decision (each operation x ok / raise / partial write / process death, "
             "pre-existing target or not, stale staging file or not, str or pathlib path) is enumerated, and the invariant 'target holds the old or the complete new file, mtime changes only "
             "with the new content' is an obligation after every operation; exit postconditions on every path.",
        note="Assumes POSIX rename atomicity and the open/write/close/remove/serialiser contracts stated in contracts/filestore.py (T8). os._exit / SIGKILL are modelled as 'no further operation takes effect'.",
    ),
    "C12": dict(
        technique="contract verification of read/write plumbing on a ghost file system (same path, mode, encoding object, newline handling, serialiser pair), MountedStore call sequence, get_modified_time against the file's mtime",
        text="Proved: the arguments the real write and read pass to open() and to the (de)serialiser compose to the identity on each store's domain, given the stdlib contracts; 'contains a carriage "
             "return' is symbolic so every str is covered; get_modified_time is None iff the path is missing/inaccessible and denotes the file's mtime; a write strictly increases it on the ghost clock.",
        note="The stdlib pairs (codecs, json, pickle, text-layer newline translation on POSIX) are assumed inverse as documented (T8), validated only by the bounded native run used as replay. "
             "'never decreases' is relative to a monotone system clock.",
    ),
    "C18": dict(
        technique="contract verification of _to_naive_utc_time against the spec function instant() with an uninterpreted local-offset function (all time zones / DST rules), z3",
        text="Proved for all values (None, aware with any offset, naive with any fold) and all local-time rules: the normalised key equals the instant the value denotes; "
             "get_modified_time of the file stores returns the naive local time of the file's mtime instant. Use-site obligations (every time passes through the normalisation before any comparison) are part of the stale-check contract.",
        note="Assumes datetime.astimezone / fromtimestamp / replace behave as documented (T10).",
    ),
}
