#!/bin/sh
# tools/mutcheck.sh <patch.diff> <PID> [<PID> ...]
# Applies a patch to a scratch copy of /repo (outside /repo and /verif), runs the named checks against it
# with evidence redirected to the scratch dir, prints the exit code of each, removes the scratch copy.
V="$(cd "$(dirname "$0")/.." && pwd)"
P="$(readlink -f "$1")"; shift
S=$(mktemp -d /tmp/ujvc-mut.XXXXXX)
trap 'rm -rf "$S"' EXIT
mkdir -p "$S/repo" "$S/evid"
cp -r /repo/src "$S/repo/src"
( cd "$S/repo" && patch -s -p1 < "$P" ) || { echo "PATCH FAILED"; exit 9; }
for pid in "$@"; do
  UJVC_REPO_SRC="$S/repo/src" UJVC_EVID="$S/evid" "$V"/check "$pid" > "$S/out.$pid" 2>&1
  rc=$?
  echo "== $pid rc=$rc  $(grep -c '^VIOLATION' "$S/out.$pid") violation line(s)"
  grep -E '^(VIOLATION|UNDECIDED|CRASH|KNOWN)' "$S/out.$pid" | sed "s#$S#<scratch>#g" | cut -c1-300 | head -${MUT_LINES:-6}
done
