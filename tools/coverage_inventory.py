#!/venv/bin/python
"""Inventory: every function / method of /repo/src/uberjob and the units (contracts / bounded stand-ins) that name it."""
import ast
import os
import sys

V = os.path.dirname(os.path.dirname(os.path.abspath(__file__)))
sys.path.insert(0, V)
os.environ.setdefault("PYTHONPATH", "")
from ujvc.z3env import REPO_SRC, ensure_repo_first  # noqa: E402

ensure_repo_first()
from ujvc import check, units  # noqa: E402

check.load_contracts()
by_fn = {}
for name, u in units.UNITS.items():
    for rel, q in u.functions:
        by_fn.setdefault((rel, q.replace(".<locals>", "")), []).append((name, u.kind))
root = os.path.join(REPO_SRC, "uberjob")
rows = []
for dp, dn, fn in os.walk(root):
    if "_testing" in dp:
        continue
    for f in sorted(fn):
        if not f.endswith(".py"):
            continue
        rel = os.path.relpath(os.path.join(dp, f), root)
        tree = ast.parse(open(os.path.join(dp, f)).read())

        def walk(body, prefix):
            for st in body:
                if isinstance(st, (ast.FunctionDef, ast.ClassDef)):
                    q = prefix + st.name
                    if isinstance(st, ast.FunctionDef):
                        rows.append((rel, q))
                    walk(st.body, q + ".")

        walk(tree.body, "")
deductive = bounded = none = 0
for rel, q in rows:
    us = by_fn.get((rel, q), [])
    kinds = {k for _, k in us}
    if kinds - {"bounded"}:
        deductive += 1
        tag = "contract"
    elif kinds:
        bounded += 1
        tag = "bounded only"
    else:
        none += 1
        tag = "-"
    if "--all" in sys.argv or tag != "contract":
        print(f"{tag:13s} {rel}:{q}  {', '.join(n for n, _ in us)[:100]}")
print(f"{len(rows)} functions: {deductive} named by a contract / lemma / concrete-parametric unit, {bounded} by bounded stand-ins only, {none} by none")
